package props

import (
	"fmt"
	"os"
	"testing"

	"verifharness/bsched"
	"verifharness/memhttp"
)

func TestDbgSched(t *testing.T) {
	if os.Getenv("VERIF_DBG") == "" {
		t.Skip()
	}
	k := c14Case{Proto: PConnect, ReqMode: memhttp.ReqEager, Client: os.Getenv("VERIF_DBG"), Handler: hprog{0, 0, true, false}, Bound: 1}
	x := runSched(t, nil, nil, 3000, func(s *bsched.Sched) any { return c14Body(k, s) })
	for i, p := range x.Points {
		fmt.Printf("%3d run=%v %v %v\n", i, p.RunningEnabled, p.Enabled, p.Labels)
	}
	fmt.Println(opsString(x.Obs.(*c14Obs).Ops), x.Deadlock)
}
