package props

import (
	"context"
	"errors"
	"fmt"
	"io"
	"net/http"
	"strings"
	"testing"

	connect "github.com/bufbuild/connect-go"

	"verifharness/ev"
	"verifharness/memhttp"
	"verifharness/refwire"
)

// C04 — a call succeeds only if the peer's end-of-stream marker arrived.
//
// Engine: crash-point / fault enumeration over the corpus of valid bodies:
// every cut offset x terminal answer x placement of the answer x presence of
// HTTP trailers; plus failure of the k-th write of a response.

type c04Case struct {
	Body         wireBody       `json:"body"`
	Script       memhttp.Script `json:"script"`
	DropTrailers bool           `json:"drop_trailers"`
	Limit        int            `json:"limit,omitempty"` // read limit on the receiving side (0 = none)
	// FakeTrailers: the response (gRPC-Web or Connect streaming, whose
	// terminator travels in the body) also has HTTP trailers saying
	// "Grpc-Status: 0", as a gRPC-minded proxy or server might add: they are
	// not the terminator and must not turn a cut body into a success.
	FakeTrailers bool `json:"fake_trailers,omitempty"`
}

func isPrefix(a, b [][]byte) bool {
	if len(a) > len(b) {
		return false
	}
	return equalMsgs(a, b[:len(a)])
}

// frameBoundaries returns the offsets at which an enveloped body may be cut
// without splitting an envelope, and the offset where the terminator frame
// (if any) starts.
func frameBoundaries(w wireBody) (bounds map[int]bool, termStart int) {
	bounds = map[int]bool{0: true}
	termStart = -1
	if w.Proto == PConnect && w.Kind == KUnary {
		return bounds, -1
	}
	off := 0
	b := w.Body
	for off+5 <= len(b) {
		l := int(b[off+1])<<24 | int(b[off+2])<<16 | int(b[off+3])<<8 | int(b[off+4])
		if b[off]&0x82 != 0 {
			termStart = off
		}
		off += 5 + l
		bounds[off] = true
	}
	return bounds, termStart
}

// compressedUnaryConnect: a unary Connect body that is one compressed stream;
// unlike an uncompressed one, no proper prefix of it is a complete body.
func compressedUnaryConnect(w wireBody) bool {
	if w.Proto != PConnect || w.Kind != KUnary {
		return false
	}
	enc := w.Header.Get("Content-Encoding")
	return enc != "" && enc != "identity"
}

// unaryPrefixIsIncomplete: the first off bytes of this unary Connect body can
// not be mistaken for a complete body: a compressed stream cut anywhere but at
// 0 (an empty body is the zero message), or a JSON document cut anywhere (the
// harness's messages are JSON strings; no proper prefix, the empty one
// included, is a JSON value).  Prefixes of binary messages are not judged.
func unaryPrefixIsIncomplete(w wireBody, off int) bool {
	if w.Proto != PConnect || w.Kind != KUnary || off < 0 || off >= len(w.Body) {
		return false
	}
	if compressedUnaryConnect(w) {
		return off > 0
	}
	return w.JSON
}

func c04Check(c *ev.Collector, k c04Case, baseline wireObs) {
	w := k.Body
	if k.FakeTrailers {
		w.Trailer = http.Header{"Grpc-Status": {"0"}}
	}
	obs := deliverLimited(w, k.Script, k.DropTrailers, k.Limit)
	n := len(w.Body)
	cut := k.Script.Cut
	complete := cut < 0 || cut >= n
	tags := []string{"proto=" + w.Proto.String(), "kind=" + w.Kind.String(), map[bool]string{true: "dir=request", false: "dir=response"}[w.Request], "end=" + k.Script.End}
	if k.Script.WithLast {
		tags = append(tags, "answer-with-last-data")
	}
	bounds, _ := frameBoundaries(w)
	if !complete && bounds[cut] {
		tags = append(tags, "cut-at-frame-boundary")
	}
	desc := fmt.Sprintf("%s cut=%d/%d end=%s withLast=%v dropTrailers=%v", w.key(), cut, n, k.Script.End, k.Script.WithLast, k.DropTrailers)
	if k.FakeTrailers {
		tags = append(tags, "http-trailers-claim-ok")
		desc += " httpTrailers={Grpc-Status:0}"
	}
	c.AddTransitions(3)
	c.AddStates(2)
	c.AddTraces(1)
	viol := func(clause, outcome, format string, args ...any) {
		c.Violation("TestC04", clause, outcome, tags, k, "%s: "+format, append([]any{desc}, args...)...)
	}
	switch {
	case obs.Guard.Panicked:
		viol("no-panic", "panic", "panic %v\n%s", obs.Guard.Panic, obs.Guard.Stack)
		c.Outcome("violation")
		return
	case obs.Guard.Hung:
		viol("terminates", "deadlock", "did not terminate\n%s", trimStacks(obs.Guard.Stack))
		c.Outcome("violation")
		BailIfStuck(c, obs.Guard)
		return
	}
	bad := false
	sent := baseline.Msgs
	if w.Want != nil {
		sent = w.Want // what the sending application put in, not what this library made of the uncut body
	}
	if !isPrefix(obs.Msgs, sent) {
		bad = true
		viol("delivered-prefix", "not-a-prefix", "delivered %s is not a prefix of what the peer sent %s", shortMsgs(obs.Msgs), shortMsgs(sent))
	}
	cleanEnd := k.Script.End == "eof"
	if !w.Request {
		// ---- client side
		terminatorInBody := w.Proto == PGRPCWeb || (w.Proto == PConnect && w.Kind != KUnary)
		trailersOnly := w.Proto != PConnect && len(w.Header.Values("Grpc-Status")) > 0
		mustFail := false
		trailersArrive := w.Proto == PGRPC && !k.DropTrailers && cleanEnd
		switch {
		case trailersOnly:
			// status already in the headers: the (empty) body carries nothing
		case trailersArrive:
			// HTTP trailers are the terminator: a body that ends cleanly at a message boundary is complete,
			// one that ends inside an envelope is not
			mustFail = !complete && !bounds[cut]
		case !complete:
			mustFail = true
		case !cleanEnd:
			// complete body but the transport failed instead of ending: only in-body terminators make the outcome known
			mustFail = !terminatorInBody
		case w.Proto == PGRPC:
			mustFail = true // complete body, but the status trailers never arrived
		}
		succeeded := obs.End == "ok"
		baseOK := baseline.End == "ok"
		switch {
		case mustFail && succeeded:
			bad = true
			viol("success-needs-terminator", "clean-success", "the response was cut / failed before the terminator but the call succeeded with %s", shortMsgs(obs.Msgs))
		case mustFail && baseOK && (strings.HasPrefix(obs.End, "err:code_0") || strings.HasPrefix(obs.End, "err:uncoded")):
			bad = true
			viol("coded-error", "uncoded", "failure is not a coded non-OK error: %s", obs.End)
		case complete && cleanEnd && (!k.DropTrailers || w.Proto != PGRPC) && !k.FakeTrailers && obs.String() != baseline.String():
			bad = true
			viol("uncut-outcome", "differs", "complete body observed %s, uncut outcome %s", clip(obs.String(), 300), clip(baseline.String(), 300))
		}
	} else {
		// ---- handler side: no clean end of the request stream when it failed or stopped mid-message
		midMessage := !complete && !bounds[cut]
		failed := !cleanEnd
		if k.Script.End == "wrapped-eof" && (complete || bounds[cut]) {
			// an error that wraps io.EOF *between* two envelopes is an end of stream by Go's
			// conventions (errors.Is(err, io.EOF)): not judged; inside an envelope it is a failure
			failed = false
		}
		if !w.Kind.ClientStreams() && !(w.Proto == PConnect && w.Kind == KUnary) {
			// single-request kinds read exactly one envelope: what happens after it is never observed
			firstEnd := 0
			if len(w.Body) >= 5 {
				firstEnd = 5 + (int(w.Body[1])<<24 | int(w.Body[2])<<16 | int(w.Body[3])<<8 | int(w.Body[4]))
			}
			if complete || cut >= firstEnd {
				midMessage, failed = false, false
			}
		}
		unaryConnect := w.Proto == PConnect && w.Kind == KUnary
		if unaryConnect && cleanEnd && !unaryPrefixIsIncomplete(w, cut) {
			midMessage = false // a shorter body is a different complete body (not judged)
		}
		if (midMessage || failed) && obs.UserEnd == "eof" {
			bad = true
			viol("handler-no-clean-end", "clean-eof", "request body %s but the handler's Receive loop saw a clean end after %s", map[bool]string{true: "failed", false: "stopped mid-message"}[failed], shortMsgs(obs.Msgs))
		}
		if (midMessage || failed) && obs.End == "ok" && (!unaryConnect || unaryPrefixIsIncomplete(w, cut)) {
			bad = true
			viol("handler-no-clean-end", "answered-ok", "request body failed / stopped mid-message but the call was answered ok")
		}
		if (failed) && obs.End == "ok" && unaryConnect {
			bad = true
			viol("handler-no-clean-end", "answered-ok", "unary request body failed but the call was answered ok")
		}
		if complete && cleanEnd && obs.String() != baseline.String() {
			bad = true
			viol("uncut-outcome", "differs", "complete body observed %s, uncut outcome %s", clip(obs.String(), 300), clip(baseline.String(), 300))
		}
	}
	if bad {
		c.Outcome("violation")
	} else if obs.End == "ok" {
		c.Outcome("success")
	} else {
		c.Outcome("failed:" + strings.SplitN(strings.TrimPrefix(obs.End, "err:"), ":", 2)[0])
	}
}

// c04SendAfterCutResponse: a bidi call whose response is cut at a message
// boundary with a clean end and no terminator, served by a transport that has
// taken exactly the first request message and afterwards neither reads nor
// closes the request body.  Receive must report the failure, and a Send issued
// afterwards must return (nothing but the library can release it).
func c04SendAfterCutResponse(t *testing.T, c *ev.Collector) {
	idx := 0
	for _, p := range AllProtos {
		for _, nmsg := range []int{0, 1, 2} {
			idx++
			if !ev.Mine(idx) {
				continue
			}
			key := fmt.Sprintf("send-after-cut-response/%s/bidi/msgs%d", p, nmsg)
			c.Case(key, true)
			Bubble(t, func() {
				hdr := http.Header{"Content-Type": {contentType(p, KBidi, false)}}
				var body []byte
				for i := 0; i < nmsg; i++ {
					body = append(body, refwire.Envelope(0, codecMarshal(false, &BV{Value: []byte{'m', byte(i)}}))...)
				}
				inner := refwire.Handler(200, hdr, body, nil) // no end-of-stream envelope, no trailer frame, no HTTP trailers
				peer := http.HandlerFunc(func(w http.ResponseWriter, r *http.Request) {
					prefix := make([]byte, 5)
					if _, err := io.ReadFull(r.Body, prefix); err == nil {
						l := int(prefix[1])<<24 | int(prefix[2])<<16 | int(prefix[3])<<8 | int(prefix[4])
						_, _ = io.ReadFull(r.Body, make([]byte, l))
					}
					inner.ServeHTTP(w, r)
				})
				tr := &memhttp.Transport{Handler: peer, Proto: 2, ReqMode: memhttp.ReqLazy, NoCloseReq: true}
				cl := NewClient(tr, Cfg{Proto: p, Comp: CompNone, Kind: KBidi, HTTP: 2})
				var recvErr, sendErr error
				got := 0
				g := Guarded(func() {
					stream := cl.CallBidiStream(context.Background())
					_ = stream.Send(&BV{Value: []byte{1}})
					for {
						if _, err := stream.Receive(); err != nil {
							recvErr = err
							break
						}
						got++
					}
					sendErr = stream.Send(&BV{Value: []byte{2}})
					_ = stream.CloseRequest()
					_ = stream.CloseResponse()
				}, tr)
				c.AddTransitions(5)
				c.AddStates(5)
				c.AddTraces(1)
				tags := []string{"proto=" + p.String(), "kind=bidi", "dir=response", "send-after-failed-receive"}
				switch {
				case g.Panicked:
					c.Violation("TestC04", "no-panic", "panic", tags, key, "%s: panic %v\n%s", key, g.Panic, g.Stack)
					c.Outcome("violation")
				case g.Hung:
					c.Violation("TestC04", "terminates", "deadlock", tags, key, "%s: the call did not terminate (received %d messages, Receive error %v)\n%s", key, got, recvErr, trimStacks(g.Stack))
					c.Outcome("violation")
					BailIfStuck(c, g)
				case recvErr == nil || errors.Is(recvErr, io.EOF) || CodeOfErr(recvErr) == 0:
					c.Violation("TestC04", "success-needs-terminator", "clean-success", tags, key, "%s: the response ended without its terminator but Receive reported %v", key, recvErr)
					c.Outcome("violation")
				case got > nmsg:
					c.Violation("TestC04", "delivered-prefix", "not-a-prefix", tags, key, "%s: %d messages delivered, %d sent", key, got, nmsg)
					c.Outcome("violation")
				default:
					_ = sendErr
					c.Outcome("failed:" + CodeOfErr(recvErr).String())
				}
			})
		}
	}
}

// c04DoFails: the transport fails before any response arrives (connection
// closed without an answer, reset, ...): the call must fail with a coded error.
func c04DoFails(t *testing.T, c *ev.Collector) {
	errs := map[string]error{"eof": io.EOF, "unexpected": io.ErrUnexpectedEOF, "transport": memhttp.ErrTransport}
	idx := 0
	for _, p := range AllProtos {
		for _, kind := range AllKinds {
			for _, js := range []bool{false, true} {
				for _, name := range []string{"eof", "transport", "unexpected"} { // fixed order: cases are assigned to shards by index
					e := errs[name]
					idx++
					if !ev.Mine(idx) {
						continue
					}
					key := fmt.Sprintf("do-fails/%s/%s/json=%v/%s", p, kind, js, name)
					c.Case(key, true)
					Bubble(t, func() {
						tr := &memhttp.Transport{Handler: http.NotFoundHandler(), Proto: 2, SyncCloseReq: true, FailDo: e}
						cl := NewClient(tr, Cfg{Proto: p, JSON: js, Comp: CompDefault, Kind: kind, HTTP: 2})
						var res CallResult
						g := Guarded(func() { res = RunCall(context.Background(), cl, kind, [][]byte{{1}}, nil) }, tr)
						c.AddTransitions(2)
						c.AddStates(2)
						c.AddTraces(1)
						tags := []string{"proto=" + p.String(), "kind=" + kind.String(), "do-fails", "end=" + name}
						switch {
						case g.Hung || g.Panicked:
							c.Violation("TestC04", "terminates", "hang-or-panic", tags, key, "%s: hung=%v panic=%v\n%s", key, g.Hung, g.Panic, g.Stack)
							BailIfStuck(c, g)
						case res.Err == nil:
							c.Violation("TestC04", "success-needs-terminator", "clean-success", tags, key, "%s: the transport failed before any response (%v) but the call succeeded with %s", key, e, shortMsgs(res.Msgs))
							c.Outcome("violation")
						case CodeOfErr(res.Err) == 0:
							c.Violation("TestC04", "coded-error", "uncoded", tags, key, "%s: failure is not a coded non-OK error: %v", key, res.Err)
							c.Outcome("violation")
						default:
							c.Outcome("failed:" + CodeOfErr(res.Err).String())
						}
					})
				}
			}
		}
	}
}

type failingWriter struct {
	http.ResponseWriter
	after  int // successful writes before the failure
	writes int
	onFail func()
	failed bool
}

func (f *failingWriter) Write(p []byte) (int, error) {
	if f.writes >= f.after {
		if !f.failed {
			f.failed = true
			f.onFail()
		}
		return 0, memhttp.ErrTransport
	}
	f.writes++
	return f.ResponseWriter.Write(p)
}

func (f *failingWriter) Flush() {
	if fl, ok := f.ResponseWriter.(http.Flusher); ok && !f.failed {
		fl.Flush()
	}
}

// c04WriteFaults: the k-th write of a response fails (and the connection with
// it); the k-th byte of a request is the last the transport accepts.
func c04WriteFaults(t *testing.T, c *ev.Collector) {
	idx := 0
	for _, p := range AllProtos {
		for _, kind := range []Kind{KUnary, KServer, KBidi} {
			for _, base := range []int{20, 20000, 70000} { // message sizes: small, above 16 KiB, above 64 KiB
				for k := 0; k <= 9; k++ {
					idx++
					if !ev.Mine(idx) {
						continue
					}
					key := fmt.Sprintf("resp-write-fails/%s/%s/after%d", p, kind, k)
					if base != 20 {
						key += fmt.Sprintf("/msg%d", base)
					}
					c.Case(key, true)
					Bubble(t, func() {
						var sendErrs []error
						inSend, failedInSend := -1, -1 // index of the Send in progress / of the one whose write failed
						sent := [][]byte{}
						var tr *memhttp.Transport
						h := NewHandler(kind, func(ctx context.Context, s HStream) error {
							for {
								if _, err := s.Receive(); err != nil {
									break
								}
							}
							n := 1
							if kind.ServerStreams() {
								n = 3
							}
							for i := 0; i < n; i++ {
								p := Payload(base+i, byte(0x41+i))
								inSend = i
								err := s.Send(&BV{Value: p})
								inSend = -1
								sendErrs = append(sendErrs, err)
								if err != nil {
									return err
								}
								sent = append(sent, p)
							}
							return nil
						}, connect.WithCompressMinBytes(1<<20))
						fw := &failingWriter{after: k}
						tr = &memhttp.Transport{Handler: h, Proto: 2, SyncCloseReq: true}
						fw.onFail = func() { failedInSend = inSend; tr.BreakLast(memhttp.ErrTransport) }
						tr.WrapRespWriter = func(w http.ResponseWriter) http.ResponseWriter { fw.ResponseWriter = w; return fw }
						cl := NewClient(tr, Cfg{Proto: p, Comp: CompNone, Kind: kind, HTTP: 2})
						var res CallResult
						g := Guarded(func() { res = RunCall(context.Background(), cl, kind, [][]byte{{1}}, nil) }, tr)
						c.AddTransitions(4)
						c.AddStates(3)
						c.AddTraces(1)
						tags := []string{"proto=" + p.String(), "kind=" + kind.String(), "write-fault"}
						if g.Hung || g.Panicked {
							c.Violation("TestC04", "terminates", "hang-or-panic", tags, key, "%s: hung=%v panic=%v\n%s", key, g.Hung, g.Panic, g.Stack)
							BailIfStuck(c, g)
							return
						}
						if !fw.failed {
							// the response needed fewer writes: it is complete
							if res.Err != nil {
								c.Violation("TestC04", "uncut-outcome", "differs", tags, key, "%s: no write failed but the call failed: %v", key, res.Err)
							}
							c.Outcome("success")
							return
						}
						if res.Err == nil {
							c.Violation("TestC04", "success-needs-terminator", "clean-success", tags, key, "%s: write %d of the response failed but the client reports success with %s", key, k+1, shortMsgs(res.Msgs))
							c.Outcome("violation")
							return
						}
						if CodeOfErr(res.Err) == 0 {
							c.Violation("TestC04", "coded-error", "uncoded", tags, key, "%s: %v", key, res.Err)
						}
						if !isPrefix(res.Msgs, append(sent, Payload(base+len(sent), byte(0x41+len(sent))))) {
							c.Violation("TestC04", "delivered-prefix", "not-a-prefix", tags, key, "%s: client got %s, handler sent %s", key, shortMsgs(res.Msgs), shortMsgs(sent))
						}
						// the Send whose write failed must report it
						// (single-response kinds send from the framework, after user code returned;
						// how many writes a Send needs is the library's business)
						if kind.ServerStreams() && failedInSend >= 0 && failedInSend < len(sendErrs) && sendErrs[failedInSend] == nil {
							c.Violation("TestC04", "write-failure-reported", "swallowed", tags, key, "%s: write %d failed inside Send #%d, which returned nil", key, k+1, failedInSend+1)
						}
						c.Outcome("failed:" + CodeOfErr(res.Err).String())
					})
				}
			}
		}
	}
	// request side: the transport stops accepting the request after k bytes and the connection dies
	for _, p := range AllProtos {
		for _, kind := range []Kind{KUnary, KClient, KBidi} {
			for _, mode := range []memhttp.ReqMode{memhttp.ReqEager, memhttp.ReqLazy} {
				for k := 0; k <= 12; k += 3 {
					idx++
					if !ev.Mine(idx) {
						continue
					}
					key := fmt.Sprintf("req-write-fails/%s/%s/%s/after%d", p, kind, mode, k)
					c.Case(key, true)
					Bubble(t, func() {
						var tr *memhttp.Transport
						handlerEnd := ""
						h := NewHandler(kind, func(ctx context.Context, s HStream) error {
							for {
								if _, err := s.Receive(); err != nil {
									handlerEnd = classifyErr(err)
									if handlerEnd != "eof" {
										return err
									}
									break
								}
							}
							return s.Send(&BV{Value: []byte{1}})
						})
						tr = &memhttp.Transport{Handler: h, Proto: 2, ReqMode: mode, SyncCloseReq: true}
						read := 0
						tr.WrapReqBody = func(rc io.ReadCloser) io.ReadCloser {
							return readerFunc{func(b []byte) (int, error) {
								if read >= k {
									tr.BreakLast(memhttp.ErrTransport)
									return 0, memhttp.ErrTransport
								}
								if len(b) > k-read {
									b = b[:k-read]
								}
								n, err := rc.Read(b)
								read += n
								return n, err
							}, rc}
						}
						cl := NewClient(tr, Cfg{Proto: p, Comp: CompNone, Kind: kind, HTTP: 2})
						reqs := [][]byte{Payload(30, 0x61), Payload(31, 0x62)}
						if !kind.ClientStreams() {
							reqs = reqs[:1]
						}
						var res CallResult
						g := Guarded(func() { res = RunCall(context.Background(), cl, kind, reqs, nil) }, tr)
						c.AddTransitions(4)
						c.AddStates(3)
						c.AddTraces(1)
						tags := []string{"proto=" + p.String(), "kind=" + kind.String(), "write-fault", "dir=request"}
						switch {
						case g.Hung || g.Panicked:
							c.Violation("TestC04", "terminates", "hang-or-panic", tags, key, "%s: hung=%v panic=%v\n%s", key, g.Hung, g.Panic, trimStacks(g.Stack))
							BailIfStuck(c, g)
						case res.Err == nil:
							c.Violation("TestC04", "success-needs-terminator", "clean-success", tags, key, "%s: the connection died after %d request bytes but the client reports success", key, k)
							c.Outcome("violation")
						case CodeOfErr(res.Err) == 0:
							c.Violation("TestC04", "coded-error", "uncoded", tags, key, "%s: %v", key, res.Err)
						case handlerEnd == "eof":
							c.Violation("TestC04", "handler-no-clean-end", "clean-eof", tags, key, "%s: the request body failed after %d bytes but the handler saw a clean end", key, k)
						default:
							c.Outcome("failed:" + CodeOfErr(res.Err).String())
						}
					})
				}
			}
		}
	}
}

type readerFunc struct {
	f func([]byte) (int, error)
	c io.Closer
}

func (r readerFunc) Read(b []byte) (int, error) { return r.f(b) }
func (r readerFunc) Close() error               { return r.c.Close() }

func TestC04(t *testing.T) {
	c := ev.New("C04")
	defer func() { _ = c.Finish() }()
	c.SetRule("crash-point / fault enumeration: every body of the corpus of valid request and response bodies (see C03) x every cut offset 0..len(body) x terminal answer {clean EOF, io.ErrUnexpectedEOF, transport error, HTTP/2 stream reset by the peer with NO_ERROR / CANCEL (+ REFUSED_STREAM, ENHANCE_YOUR_CALM, INTERNAL_ERROR in thorough)} x {answer on a separate read, answer together with the last data} x {HTTP trailers delivered, dropped} (gRPC); plus HTTPClient.Do failing before any response with each answer, the k-th ResponseWriter.Write failing for k = 0..9 with messages of 20 B, 20 kB and 70 kB, and the connection dying after k request bytes; oracle: a response cut before its terminator or a failed transport makes the call fail with a coded non-OK error, delivered messages are a prefix of those sent, nothing hangs (bubble) or panics, the complete body gives the uncut outcome; a request body that failed or stopped inside an envelope never gives the handler a clean end of stream or an OK answer; distinct = (body, offset, answer, placement, trailers); non-trivial = cut before the end or non-EOF answer")
	c.Assume("faults are injected at the io.Reader the library reads from; unary Connect bodies cut with a clean EOF are different complete bodies and are not judged")
	thorough := ev.Thorough()
	if ev.ReplayFile() != "" {
		var k c04Case
		if _, err := ev.LoadReplay(&k); err != nil {
			t.Fatal(err)
		}
		Bubble(t, func() {
			base := deliver(k.Body, memhttp.Script{Cut: -1, End: "eof"}, false)
			c04Check(c, k, base)
		})
		return
	}
	var corpus []wireBody
	Bubble(t, func() {
		for _, w := range captureCorpus(thorough) {
			if !w.KnownLength && !strings.Contains(w.Name, "kilobyte") && !strings.Contains(w.Name, "many-small") { // cut bodies contradict an announced length; the kilobyte bodies are C03's
				corpus = append(corpus, w)
			}
		}
	})
	c.Bound("corpus_bodies", len(corpus))
	c04DoFails(t, c)
	c04WriteFaults(t, c)
	c04SendAfterCutResponse(t, c)
	idx := 0
	for _, w := range corpus {
		var base wireObs
		Bubble(t, func() { base = deliver(w, memhttp.Script{Cut: -1, End: "eof"}, false) })
		n := len(w.Body)
		var offsets []int
		if n <= 300 {
			for i := 0; i <= n; i++ {
				offsets = append(offsets, i)
			}
		} else {
			seen := map[int]bool{}
			for _, i := range []int{0, 1, 4, 5, 6, 511, 512, 513, 4096, 65535, 65536, 65537, n - 6, n - 5, n - 1, n} {
				if i >= 0 && i <= n && !seen[i] {
					seen[i] = true
					offsets = append(offsets, i)
				}
			}
			bounds, _ := frameBoundaries(w)
			for b := range bounds {
				for d := -1; d <= 6; d++ {
					if i := b + d; i >= 0 && i <= n && !seen[i] {
						seen[i] = true
						offsets = append(offsets, i)
					}
				}
			}
		}
		var batch []c04Case
		flush := func() {
			if len(batch) == 0 {
				return
			}
			b := batch
			batch = nil
			Bubble(t, func() {
				for _, k := range b {
					c.Case(fmt.Sprintf("%s|%d|%s|%v|%v|limit%d|fake%v", w.key(), k.Script.Cut, k.Script.End, k.Script.WithLast, k.DropTrailers, k.Limit, k.FakeTrailers), k.Script.Cut < n || k.Script.End != "eof")
					c04Check(c, k, base)
				}
			})
		}
		for _, off := range offsets {
			ends := []string{"eof", "unexpected", "transport", "wrapped-eof", "rst:NO_ERROR", "rst:CANCEL"}
			if thorough {
				ends = append(ends, "rst:REFUSED_STREAM", "rst:ENHANCE_YOUR_CALM", "rst:INTERNAL_ERROR")
			}
			for _, end := range ends {
				for _, wl := range []bool{false, true} {
					for _, drop := range []bool{true, false} {
						if !drop && !(w.Proto == PGRPC && !w.Request) {
							continue // only gRPC responses have HTTP trailers to keep
						}
						idx++
						if !ev.Mine(idx) {
							continue
						}
						if c.Expired() {
							flush()
							return
						}
						if wl && off == 0 {
							continue
						}
						if !drop && end != "eof" {
							continue // HTTP trailers cannot follow a failed transport
						}
						if w.Proto == PConnect && w.Kind == KUnary && end == "eof" && off < n && !unaryPrefixIsIncomplete(w, off) {
							continue // a shorter unary Connect body is a different complete body (not judged)
						}
						batch = append(batch, c04Case{Body: w, Script: memhttp.Script{Cut: off, End: end, WithLast: wl}, DropTrailers: drop})
						if end == "eof" && drop && !w.Request && (w.Proto == PGRPCWeb || (w.Proto == PConnect && w.Kind != KUnary)) {
							batch = append(batch, c04Case{Body: w, Script: memhttp.Script{Cut: off, End: end, WithLast: wl}, FakeTrailers: true})
						}
						if end == "eof" && drop && n <= 300 && off < n && !(w.Proto == PConnect && w.Kind == KUnary) {
							// the same cut under a read limit that every message of the body exceeds: the receiver
							// is skipping an over-limit message when the body ends inside it
							if bs, _ := frameBoundaries(w); !bs[off] {
								batch = append(batch, c04Case{Body: w, Script: memhttp.Script{Cut: off, End: end, WithLast: wl}, DropTrailers: drop, Limit: 2})
							}
						}
						if compressedUnaryConnect(w) {
							// the same under a read limit of exactly the message's decompressed size
							if plain, err := Gunzip(w.Body); err == nil && len(plain) >= len(w.Body) {
								batch = append(batch, c04Case{Body: w, Script: memhttp.Script{Cut: off, End: end, WithLast: wl}, DropTrailers: drop, Limit: len(plain)})
							}
						}
						if len(batch) >= 200 {
							flush()
						}
						if idx%20011 == 0 {
							c.Sample(map[string]any{"body": w.key(), "body_hex": fmt.Sprintf("%x", clipBytes(w.Body, 64)), "cut": off, "end": end, "with_last": wl})
						}
					}
				}
			}
		}
		flush()
	}
}
