package props

import (
	"fmt"
	"os"
	"runtime"
	"testing"
	"testing/synctest"
	"time"

	"verifharness/ev"
	"verifharness/memhttp"
)

// GuardResult says how a guarded operation ended.
type GuardResult struct {
	Hung     bool // no goroutine of the bubble could make progress and f had not returned
	Stuck    bool // even after aborting the transport f did not return
	Panicked bool
	Panic    any
	Stack    string
}

// Guarded runs f in a child goroutine of the current bubble and decides
// termination without wall-clock time: after synctest.Wait every goroutine of
// the bubble is durably blocked, so if f has not returned it never will (no
// timers are pending in sequential explorers).  On a hang the transports are
// aborted so that the bubble can be left.
func Guarded(f func(), trs ...*memhttp.Transport) GuardResult {
	return GuardedFor(0, f, trs...)
}

// GuardedFor is Guarded for operations that sleep or set timers on the
// bubble's fake clock: before deciding that f hangs, fake time is advanced by
// horizon (every timer due earlier fires in order, at no wall-clock cost).
func GuardedFor(horizon time.Duration, f func(), trs ...*memhttp.Transport) GuardResult {
	var res GuardResult
	done := make(chan struct{})
	go func() {
		defer close(done)
		defer func() {
			if r := recover(); r != nil {
				res.Panicked = true
				res.Panic = r
				buf := make([]byte, 4096)
				res.Stack = string(buf[:runtime.Stack(buf, false)])
			}
		}()
		f()
	}()
	synctest.Wait()
	select {
	case <-done:
		return res
	default:
	}
	if horizon > 0 {
		time.Sleep(horizon)
		synctest.Wait()
		select {
		case <-done:
			return res
		default:
		}
	}
	res.Hung = true
	buf := make([]byte, 1<<16)
	res.Stack = string(buf[:runtime.Stack(buf, true)])
	for _, tr := range trs {
		tr.AbortAll()
	}
	synctest.Wait()
	select {
	case <-done:
	default:
		res.Stuck = true
	}
	return res
}

// Bubble runs f inside a synctest bubble as a subtest.
func Bubble(t *testing.T, f func()) {
	ev.Tick()
	synctest.Test(t, func(*testing.T) { f() })
}

// BailIfStuck ends the worker after writing its result when a bubble cannot be
// left any more (a goroutine is blocked for good even after aborting).
func BailIfStuck(c *ev.Collector, g GuardResult) {
	if !g.Stuck {
		return
	}
	c.NotExhaustive("a hung case could not be torn down; worker stopped after recording it")
	_ = c.Finish()
	fmt.Println("worker: stuck bubble, exiting after recording the violation")
	os.Exit(0)
}
