module verifharness

go 1.26.8

require (
	github.com/bufbuild/connect-go v0.0.0
	google.golang.org/protobuf v1.28.0
)

require github.com/google/go-cmp v0.5.8 // indirect

replace github.com/bufbuild/connect-go => /repo
