package props

import (
	"bytes"
	"context"
	"errors"
	"fmt"
	"io"
	"math"
	"os"
	"strings"
	"testing"
	"time"

	connect "github.com/bufbuild/connect-go"

	"verifharness/ev"
	"verifharness/memhttp"
)

// C01 — every message sent is received intact, in order, exactly once.
//
// Engine: operation-sequence exploration.  For every configuration one shared
// Client/Handler pair (so buffer pools, compressors and message holders carry
// state from one call to the next) is driven through every message sequence
// of the bounded alphabet; the reference model is the Go slice that was sent.

var c01Shapes = map[string]int{ // name -> proto-encoded size
	"z": 0, "a": 3, "b": 4,
	"p-": 511, "p": 512, "p+": 513,
	"t-": MinBytes - 1, "t": MinBytes, "t+": MinBytes + 1,
	"G-": 8*1024*1024 - 1, "G": 8 * 1024 * 1024, "G+": 8*1024*1024 + 1,
}

// c01Sweep: one sequence holding a message of every encodable size up to 600
// bytes (shapes "n0", "n2", ... registered in c01Shapes).
var c01Sweep = func() []string {
	var out []string
	for n := 0; n <= 600; n++ {
		if n == 1 {
			continue
		}
		name := fmt.Sprintf("n%d", n)
		c01Shapes[name] = n
		out = append(out, name)
	}
	return out
}()

func c01Payload(shape string, pos int) []byte {
	if shape == "u" {
		// a message that also carries fields its Go type does not declare
		p := Payload(40, byte(0x41+pos*16))
		p[0] = UnknownMark
		return p
	}
	if shape == "R" || shape == "Z" {
		// the most redundant message there is: 4 MiB of one byte value (a zero-filled bytes
		// field, a sparse bitmap); DEFLATE shrinks it by about three orders of magnitude
		fill := byte(0)
		if shape == "R" {
			fill = byte(0x61 + pos)
		}
		return bytes.Repeat([]byte{fill}, 4<<20)
	}
	return Payload(c01Shapes[shape], byte(0x41+pos*16+len(shape)))
}

type c01Case struct {
	Cfg   Cfg      `json:"cfg"`
	Index int      `json:"index"` // position in the configuration's batch (shared instances)
	Reqs  []string `json:"reqs"`
	Resps []string `json:"resps"`
}

func (k c01Case) key() string {
	return k.Cfg.String() + "|" + strings.Join(k.Reqs, ",") + "|" + strings.Join(k.Resps, ",")
}

func seqsUpTo(alpha []string, maxLen int) [][]string {
	out := [][]string{{}}
	prev := [][]string{{}}
	for l := 1; l <= maxLen; l++ {
		var next [][]string
		for _, p := range prev {
			for _, a := range alpha {
				s := append(append([]string{}, p...), a)
				next = append(next, s)
			}
		}
		out = append(out, next...)
		prev = next
	}
	return out
}

func c01Cfgs() []Cfg {
	var out []Cfg
	for _, p := range AllProtos {
		for _, js := range []bool{false, true} {
			for _, comp := range append(append([]Comp{}, AllComps...), CompAsym, CompNone) {
				for _, kind := range AllKinds {
					for _, h := range []int{2, 1} {
						for _, m := range []memhttp.ReqMode{memhttp.ReqEager, memhttp.ReqLazy} {
							cfg := Cfg{Proto: p, JSON: js, Comp: comp, Kind: kind, HTTP: h, ReqMode: m}
							if (comp == CompAsym || comp == CompNone) && m != memhttp.ReqEager {
								continue
							}
							if comp == CompNone && (kind == KUnary || h != 2) {
								continue // CompNone configurations run the size sweep only (streams)
							}
							if cfg.Valid() {
								out = append(out, cfg)
								if h == 2 && m == memhttp.ReqEager && (comp == CompSendGzip || comp == CompDefault) {
									// the same with read limits at the top of the int range on both sides:
									// a limit nothing can exceed must not change anything
									for _, lim := range []int{math.MaxInt, math.MaxInt32, math.MaxInt - 1} {
										cl := cfg
										cl.ReadMax = lim
										out = append(out, cl)
									}
								}
								if h == 2 && m == memhttp.ReqEager && (comp == CompDefault || comp == CompNone) {
									// the same over a transport that hands bodies over 7 bytes at a time
									cfg.Chunk = 7
									out = append(out, cfg)
								}
							}
						}
					}
				}
			}
		}
	}
	return out
}

func c01Batch(cfg Cfg, thorough bool) []c01Case {
	alpha := []string{"z", "a", "b", "p", "p+"}
	maxLen := 3
	if thorough {
		alpha = []string{"z", "a", "b", "p-", "p", "p+"}
		maxLen = 4
	}
	seqs := seqsUpTo(alpha, maxLen)
	if cfg.Comp == CompNone {
		// nothing is compressed in either direction: one stream with a message of every size
		seqs = [][]string{c01Sweep}
	}
	if !thorough && !cfg.JSON && cfg.ReqMode == memhttp.ReqEager && cfg.HTTP == 2 && cfg.Comp == CompDefault {
		// one message above the 8 MiB recycle cap at each position of a length-2 sequence
		seqs = append(seqs, []string{"G+", "z"}, []string{"a", "G+"})
	}
	if !cfg.JSON && cfg.ReqMode == memhttp.ReqEager && cfg.HTTP == 2 && (cfg.Comp == CompDefault || cfg.Comp == CompSendGzip) {
		// highly redundant messages, compressed in the response (default) or in both directions
		seqs = append(seqs, []string{"R"}, []string{"a", "Z"}, []string{"R", "z", "Z"})
	}
	// messages carrying fields their Go type does not declare, first, after and around others
	seqs = append(seqs, []string{"u"}, []string{"a", "u"}, []string{"u", "z", "u"})
	if thorough {
		// threshold shapes at every position of length-3 sequences
		for _, th := range []string{"t-", "t", "t+"} {
			for pos := 0; pos < 3; pos++ {
				for _, other := range []string{"z", "a"} {
					s := []string{other, other, other}
					s[pos] = th
					seqs = append(seqs, s)
				}
			}
		}
		// recycle-cap shapes at each position of length-2 sequences (proto codec only: 8 MiB JSON is slow)
		if !cfg.JSON && cfg.ReqMode == memhttp.ReqEager && cfg.HTTP == 2 {
			for _, g := range []string{"G-", "G", "G+"} {
				seqs = append(seqs, []string{g, "z"}, []string{"a", g}, []string{g, "a"})
			}
		}
	}
	var out []c01Case
	add := func(reqs, resps []string) {
		out = append(out, c01Case{Cfg: cfg, Index: len(out), Reqs: reqs, Resps: resps})
	}
	switch cfg.Kind {
	case KUnary:
		shapes := append([]string{}, alpha...)
		shapes = append(shapes, "u")
		if thorough {
			shapes = append(shapes, "t-", "t", "t+")
		}
		for _, a := range shapes {
			for _, b := range shapes {
				add([]string{a}, []string{b})
			}
		}
	case KClient:
		for i, s := range seqs {
			add(s, []string{alpha[i%len(alpha)]})
		}
	case KServer:
		for i, s := range seqs {
			add([]string{alpha[i%len(alpha)]}, s)
		}
	case KBidi:
		for _, s := range seqs {
			add(s, s)
		}
	}
	return out
}

// c01Env is one shared Client/Handler pair plus the per-call program.
type c01Env struct {
	tr  *memhttp.Transport
	cl  *connect.Client[BV, BV]
	cur *c01Run
}

type c01Run struct {
	resps      [][]byte
	handlerGot [][]byte
	handlerEnd error // nil = clean EOF seen
	sawEnd     bool
	sendErr    error
}

func newC01Env(cfg Cfg) *c01Env {
	env := &c01Env{}
	h := NewHandler(cfg.Kind, func(ctx context.Context, s HStream) error {
		run := env.cur
		for {
			m, err := s.Receive()
			if err != nil {
				run.sawEnd = true
				if !errors.Is(err, io.EOF) {
					run.handlerEnd = err
				}
				break
			}
			run.handlerGot = append(run.handlerGot, MsgBytes(m))
		}
		for _, p := range run.resps {
			if err := s.Send(MkMsg(p)); err != nil {
				run.sendErr = err
				return err
			}
		}
		return nil
	}, cfg.HandlerOptions()...)
	env.tr = &memhttp.Transport{Handler: h, Proto: cfg.HTTP, ReqMode: cfg.ReqMode, SyncCloseReq: true, MutateURL: true}
	ChunkBodies(env.tr, cfg.Chunk)
	env.cl = NewClient(env.tr, cfg)
	return env
}

func payloads(shapes []string) [][]byte {
	out := make([][]byte, len(shapes))
	for i, s := range shapes {
		out[i] = c01Payload(s, i)
	}
	return out
}

func seqTags(shapes []string, side string) []string {
	var tags []string
	nonzero := false
	for _, s := range shapes {
		if s == "z" && nonzero {
			tags = append(tags, side+"-zero-after-nonzero")
			break
		}
		if s != "z" {
			nonzero = true
		}
	}
	return tags
}

func equalMsgs(a, b [][]byte) bool {
	if len(a) != len(b) {
		return false
	}
	for i := range a {
		if !bytes.Equal(a[i], b[i]) {
			return false
		}
	}
	return true
}

// c01Check runs one case on env and reports violations.
func c01Check(c *ev.Collector, env *c01Env, k c01Case) {
	reqs, resps := payloads(k.Reqs), payloads(k.Resps)
	run := &c01Run{resps: resps}
	env.cur = run
	var res CallResult
	g := Guarded(func() { res = RunCall(context.Background(), env.cl, k.Cfg.Kind, reqs, nil) }, env.tr)
	tags := append(k.Cfg.Tags(), seqTags(k.Reqs, "req")...)
	tags = append(tags, seqTags(k.Resps, "resp")...)
	viol := func(clause, outcome, format string, args ...any) {
		c.Violation("TestC01", clause, outcome, tags, k, "%s: "+format, append([]any{k.key()}, args...)...)
	}
	c.AddTransitions(int64(len(reqs) + len(resps) + 2))
	c.AddStates(int64(len(reqs) + len(resps) + 1))
	switch {
	case g.Panicked:
		viol("no-panic", "panic", "client panicked: %v", g.Panic)
		c.Outcome("panic")
		return
	case g.Hung:
		viol("terminates", "deadlock", "call did not terminate\n%s", g.Stack)
		c.Outcome("deadlock")
		BailIfStuck(c, g)
		return
	}
	ok := true
	if ex := env.tr.Last(); ex != nil && ex.URL != BaseURL+Procedure {
		ok = false
		viol("request-pristine", "url", "the request of this call was sent to %q, the client was built for %q (state of an earlier call leaked into it)", ex.URL, BaseURL+Procedure)
	}
	if !equalMsgs(run.handlerGot, ExpectMsgs(reqs, k.Cfg.JSON)) {
		ok = false
		viol("handler-recv-seq", "mismatch", "handler received %s, client sent %s", shortMsgs(run.handlerGot), shortMsgs(ExpectMsgs(reqs, k.Cfg.JSON)))
	}
	if run.sawEnd && run.handlerEnd != nil {
		ok = false
		viol("handler-clean-end", "error", "handler's end of request stream: %v", run.handlerEnd)
	}
	if res.Err != nil {
		ok = false
		viol("client-clean-end", "error", "client call failed: %v", res.Err)
	} else if !equalMsgs(res.Msgs, ExpectMsgs(resps, k.Cfg.JSON)) {
		ok = false
		viol("client-recv-seq", "mismatch", "client received %s, handler sent %s", shortMsgs(res.Msgs), shortMsgs(ExpectMsgs(resps, k.Cfg.JSON)))
	}
	if ok {
		c.Outcome("ok")
	} else {
		c.Outcome("violation")
	}
}

// c01Real runs a reduced batch of every configuration over the real net/http
// stack (HTTP/1.1 and TLS HTTP/2 on loopback).
func c01Real(c *ev.Collector) {
	seqs := seqsUpTo([]string{"z", "a", "p+"}, 2)
	seqs = append(seqs, []string{"a", "z", "b"}, []string{"z", "z", "a"})
	idx := 0
	for _, cfg := range c01Cfgs() {
		if cfg.ReqMode != memhttp.ReqEager {
			continue
		}
		idx++
		if !ev.Mine(idx) {
			continue
		}
		if c.Expired() {
			return
		}
		run := &c01Run{}
		cur := &run
		h := NewHandler(cfg.Kind, func(ctx context.Context, s HStream) error {
			r := *cur
			for {
				m, err := s.Receive()
				if err != nil {
					r.sawEnd = true
					if !errors.Is(err, io.EOF) {
						r.handlerEnd = err
					}
					break
				}
				r.handlerGot = append(r.handlerGot, MsgBytes(m))
			}
			for _, p := range r.resps {
				if err := s.Send(MkMsg(p)); err != nil {
					return err
				}
			}
			return nil
		}, cfg.HandlerOptions()...)
		srv := NewRealServer(h, cfg.HTTP == 2)
		cl := NewRealClient(srv, cfg)
		for i, sq := range seqs {
			reqs, resps := sq, sq
			switch cfg.Kind {
			case KUnary:
				if len(sq) != 1 {
					continue
				}
			case KClient:
				resps = []string{"a"}
			case KServer:
				reqs = []string{"a"}
			}
			k := c01Case{Cfg: cfg, Index: i, Reqs: reqs, Resps: resps}
			r := &c01Run{resps: payloads(resps)}
			*cur = r
			var res CallResult
			ok := Watchdog(60*time.Second, func() { res = RunCall(context.Background(), cl, cfg.Kind, payloads(reqs), nil) })
			c.Case("real/"+k.key(), len(reqs)+len(resps) > 0)
			c.AddTransitions(int64(len(reqs) + len(resps) + 2))
			c.AddStates(int64(len(reqs) + len(resps) + 1))
			c.AddTraces(1)
			c.AddExtra("real_transport_calls", 1)
			tags := append(cfg.Tags(), "real-transport")
			tags = append(tags, seqTags(reqs, "req")...)
			tags = append(tags, seqTags(resps, "resp")...)
			if !ok {
				c.NotExhaustive("a call over the real transport did not return within 60 s: " + k.key())
				return
			}
			switch {
			case !equalMsgs(r.handlerGot, payloads(reqs)):
				c.Violation("TestC01", "handler-recv-seq", "mismatch", tags, k, "real transport %s: handler received %s, client sent %s", k.key(), shortMsgs(r.handlerGot), shortMsgs(payloads(reqs)))
				c.Outcome("violation")
			case res.Err != nil:
				c.Violation("TestC01", "client-clean-end", "error", tags, k, "real transport %s: client call failed: %v", k.key(), res.Err)
				c.Outcome("violation")
			case !equalMsgs(res.Msgs, payloads(resps)):
				c.Violation("TestC01", "client-recv-seq", "mismatch", tags, k, "real transport %s: client received %s, handler sent %s", k.key(), shortMsgs(res.Msgs), shortMsgs(payloads(resps)))
				c.Outcome("violation")
			default:
				c.Outcome("ok")
			}
		}
		srv.Close()
	}
}

func TestC01(t *testing.T) {
	c := ev.New("C01")
	defer func() { _ = c.Finish() }()
	c.SetRule("operation-sequence exploration: every configuration {connect,grpc,grpcweb}x{proto,json}x{default,sendgzip,sendmin,custom}x{unary,client,server,bidi}x{h1,h2}x{eager,lazy request window}; per configuration one shared Client/Handler pair runs every message sequence of the bounded alphabet (see bounds); plus messages with nested sub-messages (structpb.Struct), fresh and re-sent after an in-place update, echoed through unary and bidi calls; a case is non-trivial when it carries at least one message; distinct = distinct (configuration, request shapes, response shapes)")
	c.Assume("in-memory HTTP environment memhttp is a legal net/http stand-in (DESIGN 2.3)", "payload codec (proto/protojson) is not under test", "deterministic LIFO poisoned pool replaces sync.Pool in the instrumented build")
	thorough := ev.Thorough()
	if rf := ev.ReplayFile(); rf != "" {
		var sk c13Case
		if _, err := ev.LoadReplay(&sk); err == nil && len(sk.Calls) > 0 {
			c01SchedReplay(t, c, sk)
			return
		}
		var k c01Case
		if _, err := ev.LoadReplay(&k); err != nil {
			t.Fatal(err)
		}
		Bubble(t, func() {
			env := newC01Env(k.Cfg)
			batch := c01Batch(k.Cfg, true)
			if k.Index >= len(batch) || batch[k.Index].key() != k.key() {
				batch = c01Batch(k.Cfg, false)
			}
			for i := 0; i <= k.Index && i < len(batch); i++ {
				c01Check(c, env, batch[i])
			}
		})
		return
	}
	if os.Getenv("VERIF_ONLY") == "real-early" { // development aid
		c01RealEarly(c)
		return
	}
	if thorough {
		c.Bound("alphabet", "z,a,b,p-,p,p+ (+t-,t,t+ at every position of length 3; G-,G,G+ in length 2)")
		c.Bound("max_sequence_length", 4)
	} else {
		c.Bound("alphabet", "z,a,b,p,p+")
		c.Bound("max_sequence_length", 3)
	}
	cfgs := c01Cfgs()
	for i, cfg := range cfgs {
		if !ev.Mine(i) {
			continue
		}
		if c.Expired() {
			break
		}
		batch := c01Batch(cfg, thorough)
		Bubble(t, func() {
			env := newC01Env(cfg)
			for _, k := range batch {
				c.Case(k.key(), len(k.Reqs)+len(k.Resps) > 0)
				c01Check(c, env, k)
				c.AddTraces(1)
			}
		})
		if i < 3 {
			c.Sample(map[string]any{"cfg": cfg.String(), "cases": len(batch), "first": fmt.Sprint(batch[min(5, len(batch)-1)])})
		}
	}
	c01Nested(t, c)
	c01Lockstep(t, c)
	c01Sched(t, c, thorough)
	if thorough {
		c01Real(c)
		c01RealEarly(c)
	}
}
