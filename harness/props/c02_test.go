package props

import (
	"bytes"
	"context"
	"errors"
	"fmt"
	"io"
	"net/http"
	"strings"
	"testing"
	"time"

	connect "github.com/bufbuild/connect-go"
	"google.golang.org/protobuf/proto"
	"google.golang.org/protobuf/types/known/anypb"
	"google.golang.org/protobuf/types/known/durationpb"
	"google.golang.org/protobuf/types/known/wrapperspb"

	"verifharness/ev"
	"verifharness/memhttp"
)

// C02 — handler errors reach the client with code, message, details, metadata.
//
// Engine: input/configuration enumeration on real clients and handlers.

var c02Messages = []string{
	"plain ascii message",
	"",
	"héllo wörld ☃ \U0001F600",
	"nul\x00ctl\x01\x1f\x7f",
	"%",
	"%4",
	"%41",
	"100%",
	"line1\r\nline2\n",
	"  lead and trail  ",
	strings.Repeat("long-0123456789 ", 256),
	// 24 KB of non-ASCII text: more than 64 KiB once percent-encoded (one trailer line)
	strings.Repeat("☃ü", 24*1024/5),
	// text that is not valid UTF-8 (a plain Go error quoting Latin-1 input): only with plain errors,
	// and the expectation is the text with U+FFFD for the offending bytes
	"caf\xe9 au lait \xff",
}

// c02LongMsg is the index of the message whose encoded form exceeds 64 KiB;
// it is exercised by the dedicated large-error cases only.
const c02LongMsg = 11

// c02BadUTF8Msg is the index of the message that is not valid UTF-8.
const c02BadUTF8Msg = 12

func c02Details(i int) []proto.Message {
	d1 := wrapperspb.String("detail one ☃")
	d2 := durationpb.New(90061000000000)
	switch i {
	case 1:
		return []proto.Message{d1}
	case 2:
		return []proto.Message{d1, d2}
	case 3:
		return []proto.Message{d2, d2}
	case 5: // a detail of a message type that is not linked into this binary (a newer or foreign schema)
		return []proto.Message{&anypb.Any{TypeUrl: "type.googleapis.com/acme.unlinked.v1.QuotaFailure", Value: []byte{0x0a, 0x03, 'c', 'p', 'u', 0x10, 0x07}}, d1}
	case 4: // one detail of 60 KiB: the status trailer line exceeds 64 KiB
		return []proto.Message{wrapperspb.String(strings.Repeat("detail-0123456789 ", 60*1024/18))}
	}
	return nil
}

var c02TrailerKeys = []string{"X-A", "X-B", "X-Own-Trailer", "X-Empty", "X-Zz"}

func c02TrailerValue(i int) string { return fmt.Sprintf("trailer-%d", i) }

var c02Metas = []http.Header{
	{},
	{"X-A": {"v1"}},
	{"X-A": {"v1", "two words"}},
	{"X-A": {"a,b"}, "X-C-Bin": {connect.EncodeBinaryHeader([]byte{0, 1, 0xff, 0xfe})}},
	{"X-A": {"100%", "k:v"}, "X-B": {"w1"}},
	// empty values: alone under a key, and between two others
	{"X-Empty": {""}, "X-A": {"a", "", "b"}},
}

type c02Case struct {
	Cfg     Cfg  `json:"cfg"`
	Code    int  `json:"code"` // 1..16, 0 = plain Go error
	Msg     int  `json:"msg"`
	Details int  `json:"details"`
	Meta    int  `json:"meta"`
	Sent    int  `json:"sent"`     // messages sent before the error (server-streaming kinds)
	ByIcept bool `json:"by_icept"` // raised by an interceptor instead of the handler
	// Cause: the coded error wraps a chain ending in 1 context.Canceled, 2 context.DeadlineExceeded, 3 io.EOF (0 = plain errors.New).
	Cause int `json:"cause,omitempty"`
	// Real: run over the real net/http stack (HTTP/1.1 or TLS HTTP/2 per Cfg.HTTP) instead of memhttp.
	Real bool `json:"real,omitempty"`
	// Window: the transport takes only this many bytes of the request beyond
	// what the handler has read (0 = everything): with a handler that fails
	// without reading, the client's Send is interrupted in mid-message.
	Window int `json:"window,omitempty"`
	// Wrapped: the handler / interceptor returns fmt.Errorf("...: %w", codedErr)
	// rather than the *connect.Error itself.
	Wrapped bool `json:"wrapped,omitempty"`
	// Chain (with Wrapped): how the coded error sits in the chain: "" single %w,
	// "join" errors.Join(coded, cleanupErr), "multi" fmt.Errorf("%w: %w", other, coded).
	Chain string `json:"chain,omitempty"`
	// Trailers: before failing, the handler sets this many response trailers
	// under keys the error's metadata uses too (X-A, X-B, X-C-Bin, X-Empty) plus
	// one of its own; both the trailers and the error's metadata must arrive.
	Trailers int `json:"trailers,omitempty"`
}

func (k c02Case) key() string {
	real := ""
	if k.Real {
		real = "/real"
	}
	if k.Window > 0 {
		real += fmt.Sprintf("/window%d", k.Window)
	}
	if k.Wrapped {
		real += "/wrapped" + k.Chain
	}
	if k.Trailers > 0 {
		real += fmt.Sprintf("/trailers%d", k.Trailers)
	}
	return fmt.Sprintf("%s/code%d/msg%d/det%d/meta%d/sent%d/icept=%v/cause%d%s", k.Cfg, k.Code, k.Msg, k.Details, k.Meta, k.Sent, k.ByIcept, k.Cause, real)
}

func (k c02Case) message() string {
	msg := c02Messages[k.Msg]
	if k.Msg == c02BadUTF8Msg {
		msg = strings.ToValidUTF8(msg, "\uFFFD")
	}
	switch k.Cause {
	case 1:
		return msg + ": " + context.Canceled.Error()
	case 2:
		return msg + ": " + context.DeadlineExceeded.Error()
	case 3:
		return msg + ": " + io.EOF.Error()
	}
	return msg
}

func (k c02Case) err() error {
	msg := c02Messages[k.Msg]
	var underlying error = errors.New(msg)
	switch k.Cause {
	case 1:
		underlying = fmt.Errorf("%s: %w", msg, context.Canceled)
	case 2:
		underlying = fmt.Errorf("%s: %w", msg, context.DeadlineExceeded)
	case 3:
		underlying = fmt.Errorf("%s: %w", msg, io.EOF)
	}
	if k.Code == 0 {
		return errors.New(msg)
	}
	e := connect.NewError(connect.Code(k.Code), underlying)
	for _, d := range c02Details(k.Details) {
		if raw, ok := d.(*anypb.Any); ok {
			e.AddDetail(raw) // already a type URL and bytes
			continue
		}
		a, err := anypb.New(d)
		if err != nil {
			panic(err)
		}
		e.AddDetail(a)
	}
	for key, vs := range c02Metas[k.Meta] {
		for _, v := range vs {
			e.Meta().Add(key, v)
		}
	}
	return e
}

type errI struct {
	err error
}

func (e errI) WrapUnary(next connect.UnaryFunc) connect.UnaryFunc {
	return func(ctx context.Context, r connect.AnyRequest) (connect.AnyResponse, error) {
		if r.Spec().IsClient {
			return next(ctx, r)
		}
		return nil, e.err
	}
}
func (e errI) WrapStreamingClient(next connect.StreamingClientFunc) connect.StreamingClientFunc {
	return next
}
func (e errI) WrapStreamingHandler(next connect.StreamingHandlerFunc) connect.StreamingHandlerFunc {
	return func(ctx context.Context, c connect.StreamingHandlerConn) error {
		if err := next(ctx, c); err != nil {
			return err
		}
		return e.err
	}
}

func c02Check(c *ev.Collector, k c02Case) {
	want := k.err()
	var returned error = want
	if k.Wrapped {
		returned = fmt.Errorf("outer context: %w", want)
		switch k.Chain {
		case "join":
			returned = errors.Join(want, errors.New("cleanup also failed"))
		case "multi":
			returned = fmt.Errorf("%w: %w", errors.New("while closing the ledger"), want)
		}
	}
	var opts []connect.HandlerOption
	if k.ByIcept {
		opts = append(opts, connect.WithInterceptors(errI{returned}))
	}
	var tr *memhttp.Transport
	h := NewHandler(k.Cfg.Kind, func(ctx context.Context, s HStream) error {
		if k.Window > 0 && k.Cfg.Kind.ClientStreams() {
			// fail only once the transport has taken its window's worth of the
			// message the client is sending (nobody reads it here)
			if ex := tr.Last(); ex != nil {
				<-ex.WindowFull
			}
		}
		for i := 0; i < k.Sent; i++ {
			if err := s.Send(&BV{Value: []byte{'h', byte(i)}}); err != nil {
				return err
			}
		}
		for i := 0; i < k.Trailers && i < len(c02TrailerKeys); i++ {
			s.ResponseTrailer().Set(c02TrailerKeys[i], c02TrailerValue(i))
		}
		if k.ByIcept {
			return nil
		}
		return returned
	}, append(opts, k.Cfg.HandlerOptions()...)...)
	tr = &memhttp.Transport{Handler: h, Proto: k.Cfg.HTTP, SyncCloseReq: true, ReqWindow: k.Window}
	var res CallResult
	var g GuardResult
	realStatus := 0
	if k.Real {
		srv := NewRealServer(h, k.Cfg.HTTP == 2)
		defer srv.Close()
		rec := &statusRecorder{inner: srv.Client()}
		cl := connect.NewClient[BV, BV](rec, srv.URL()+Procedure, k.Cfg.ClientOptions()...)
		if !Watchdog(60*time.Second, func() { res = RunCall(context.Background(), cl, k.Cfg.Kind, [][]byte{{1}}, nil) }) {
			c.NotExhaustive("a call over the real transport did not return within 60 s: " + k.key())
			return
		}
		realStatus = rec.status
		c.AddExtra("real_transport_calls", 1)
	} else {
		cl := NewClient(tr, k.Cfg)
		g = Guarded(func() { res = RunCall(context.Background(), cl, k.Cfg.Kind, [][]byte{{1}}, nil) }, tr)
	}
	tags := append(k.Cfg.Tags(), fmt.Sprintf("msg=%d", k.Msg))
	if k.Details == 5 {
		tags = append(tags, "detail-of-unlinked-type")
	}
	if k.Real {
		tags = append(tags, "real-transport")
	}
	if k.Code == 0 {
		tags = append(tags, "plain-error")
	}
	viol := func(clause, outcome, format string, args ...any) {
		c.Violation("TestC02", clause, outcome, tags, k, "%s: "+format, append([]any{k.key()}, args...)...)
	}
	c.AddTransitions(int64(3 + k.Sent))
	c.AddStates(int64(3 + k.Sent))
	c.AddTraces(1)
	if g.Hung || g.Panicked {
		viol("terminates", "hang-or-panic", "hung=%v panic=%v\n%s", g.Hung, g.Panic, g.Stack)
		c.Outcome("violation")
		BailIfStuck(c, g)
		return
	}
	bad := false
	var ce *connect.Error
	switch {
	case res.Err == nil:
		bad = true
		viol("never-success", "success", "handler failed with %v but the client call succeeded (msgs %s)", want, shortMsgs(res.Msgs))
	case !errors.As(res.Err, &ce):
		bad = true
		viol("is-connect-error", "not-coded", "client error %T %v is not a *connect.Error", res.Err, res.Err)
	default:
		wantCode := connect.Code(k.Code)
		if k.Code == 0 {
			wantCode = connect.CodeUnknown
		}
		if ce.Code() != wantCode {
			bad = true
			viol("same-code", fmt.Sprintf("code=%v", ce.Code()), "client code %v, handler code %v (client error: %v)", ce.Code(), wantCode, clip(res.Err.Error(), 200))
		}
		if ce.Message() != k.message() {
			bad = true
			viol("same-message", "message-differs", "client message %q, handler message %q", clip(ce.Message(), 120), clip(k.message(), 120))
		}
		if k.Code != 0 {
			wd := c02Details(k.Details)
			gd := ce.Details()
			if len(gd) != len(wd) {
				bad = true
				viol("same-details", "count", "client has %d details, handler attached %d", len(gd), len(wd))
			} else {
				for i := range wd {
					if raw, ok := wd[i].(*anypb.Any); ok {
						// type not known here: compare type URL and bytes
						if got := anyOf(gd[i]); got.TypeUrl != raw.TypeUrl || !bytes.Equal(got.Value, raw.Value) {
							bad = true
							viol("same-details", "content", "detail %d differs: got %s %x, want %s %x", i, got.TypeUrl, got.Value, raw.TypeUrl, raw.Value)
						}
						continue
					}
					m, err := anypb.UnmarshalNew(anyOf(gd[i]), proto.UnmarshalOptions{})
					if err != nil || !proto.Equal(m, wd[i]) {
						bad = true
						viol("same-details", "content", "detail %d differs: got %v (%v), want %v", i, m, err, wd[i])
					}
				}
			}
			if msg, ok := HeaderSubset(c02Metas[k.Meta], ce.Meta()); !ok {
				bad = true
				viol("same-metadata", "missing", "error metadata: %s", msg)
			}
			if k.Trailers > 0 && !k.ByIcept {
				// what the handler set as response trailers arrives too: in the error's
				// metadata or in the call's response trailers
				seen := ce.Meta().Clone()
				mergeInto(seen, res.Trailer)
				for i := 0; i < k.Trailers && i < len(c02TrailerKeys); i++ {
					found := false
					for _, v := range seen.Values(c02TrailerKeys[i]) {
						found = found || v == c02TrailerValue(i)
					}
					if !found {
						bad = true
						viol("same-metadata", "trailer-lost", "response trailer %s: %q set by the handler before it failed is in neither the error's metadata nor the response trailers (%q)", c02TrailerKeys[i], c02TrailerValue(i), seen.Values(c02TrailerKeys[i]))
					}
				}
				// and nothing appears under a key that nobody set
				for key, vs := range seen {
					for _, v := range vs {
						if strings.HasPrefix(v, "trailer-") || v == "v1" || v == "w1" {
							okKey := false
							for i := 0; i < k.Trailers && i < len(c02TrailerKeys); i++ {
								okKey = okKey || (c02TrailerKeys[i] == key && v == c02TrailerValue(i))
							}
							for _, w := range c02Metas[k.Meta].Values(key) {
								okKey = okKey || w == v
							}
							if !okKey {
								bad = true
								viol("same-metadata", "foreign-value", "value %q appears under %s, where neither the handler's trailers nor the error's metadata put it", v, key)
							}
						}
					}
				}
			}
		}
	}
	// messages sent before the error still arrive (server-streaming kinds)
	if k.Sent > 0 && len(res.Msgs) != k.Sent && res.Err != nil {
		bad = true
		viol("messages-before-error", "lost", "client received %d of the %d messages sent before the error", len(res.Msgs), k.Sent)
	}
	if k.Real && k.Cfg.Proto == PConnect && k.Cfg.Kind == KUnary && realStatus >= 200 && realStatus < 300 {
		bad = true
		viol("unary-connect-status", fmt.Sprintf("status=%d", realStatus), "failed unary Connect call answered with HTTP %d", realStatus)
	}
	if !k.Real && k.Cfg.Proto == PConnect && k.Cfg.Kind == KUnary {
		if ex := tr.Last(); ex != nil && ex.Status >= 200 && ex.Status < 300 {
			bad = true
			viol("unary-connect-status", fmt.Sprintf("status=%d", ex.Status), "failed unary Connect call answered with HTTP %d", ex.Status)
		}
	}
	if bad {
		c.Outcome("violation")
	} else {
		c.Outcome("ok")
	}
}

// statusRecorder remembers the HTTP status of the last response.
type statusRecorder struct {
	inner  connect.HTTPClient
	status int
}

func (s *statusRecorder) Do(r *http.Request) (*http.Response, error) {
	resp, err := s.inner.Do(r)
	if resp != nil {
		s.status = resp.StatusCode
	}
	return resp, err
}

func anyOf(d connect.ErrorDetail) *anypb.Any {
	if a, ok := d.(*anypb.Any); ok {
		return a
	}
	a, _ := anypb.New(d)
	return a
}

func c02Cases(thorough bool) []c02Case {
	var out []c02Case
	for _, p := range AllProtos {
		for _, js := range []bool{false, true} {
			for _, kind := range AllKinds {
				cfg := Cfg{Proto: p, JSON: js, Comp: CompDefault, Kind: kind, HTTP: 2}
				sents := []int{0}
				if kind.ServerStreams() {
					sents = []int{0, 1, 2}
				}
				// the handler has set response trailers under the keys of the error's metadata
				if kind.ServerStreams() {
					for meta := range c02Metas {
						for _, sent := range sents {
							for tr := 1; tr <= len(c02TrailerKeys); tr++ {
								out = append(out, c02Case{Cfg: cfg, Code: 10, Msg: 1, Details: 1, Meta: meta, Sent: sent, Trailers: tr})
							}
						}
					}
				}
				if thorough {
					for code := 0; code <= 16; code++ {
						for msg := range c02Messages[:c02LongMsg] {
							for det := 0; det < 4; det++ {
								for meta := range c02Metas {
									for _, sent := range sents {
										for _, ic := range []bool{false, true} {
											out = append(out, c02Case{cfg, code, msg, det, meta, sent, ic, 0, false, 0, false, "", 0})
											if code != 0 && msg < 3 && det < 2 {
												for cause := 1; cause <= 3; cause++ {
													out = append(out, c02Case{cfg, code, msg, det, meta, sent, ic, cause, false, 0, false, "", 0})
												}
											}
										}
									}
								}
							}
						}
					}
					continue
				}
				for code := 0; code <= 16; code++ {
					for msg := range c02Messages[:c02LongMsg] {
						out = append(out, c02Case{cfg, code, msg, 1, 1, 0, false, 0, false, 0, false, "", 0})
					}
					// coded errors whose cause chain ends in a context error or io.EOF keep their own code
					if code != 0 {
						for cause := 1; cause <= 3; cause++ {
							for _, sent := range sents {
								out = append(out, c02Case{cfg, code, 0, 1, 1, sent, false, cause, false, 0, false, "", 0})
							}
						}
					}
				}
				for det := 0; det < 4; det++ {
					for meta := range c02Metas {
						for _, sent := range sents {
							for _, ic := range []bool{false, true} {
								out = append(out, c02Case{cfg, 10, 2, det, meta, sent, ic, 0, false, 0, false, "", 0})
							}
						}
					}
				}

			}
		}
	}
	// a plain Go error whose text is not valid UTF-8
	for _, p := range AllProtos {
		for _, js := range []bool{false, true} {
			for _, kind := range AllKinds {
				cfg := Cfg{Proto: p, JSON: js, Comp: CompDefault, Kind: kind, HTTP: 2}
				sents := []int{0}
				if kind.ServerStreams() {
					sents = []int{0, 1}
				}
				for _, sent := range sents {
					out = append(out, c02Case{Cfg: cfg, Code: 0, Msg: c02BadUTF8Msg, Details: 0, Meta: 0, Sent: sent})
				}
			}
		}
	}
	// a detail whose message type is not linked into the binary
	for _, p := range AllProtos {
		for _, js := range []bool{false, true} {
			for _, kind := range AllKinds {
				cfg := Cfg{Proto: p, JSON: js, Comp: CompDefault, Kind: kind, HTTP: 2}
				sents := []int{0}
				if kind.ServerStreams() {
					sents = []int{0, 1}
				}
				for _, sent := range sents {
					out = append(out, c02Case{Cfg: cfg, Code: 8, Msg: 0, Details: 5, Meta: 1, Sent: sent})
				}
			}
		}
	}
	// large errors (one header / trailer line above 64 KiB), before and after messages
	for _, p := range AllProtos {
		for _, js := range []bool{false, true} {
			for _, kind := range AllKinds {
				cfg := Cfg{Proto: p, JSON: js, Comp: CompDefault, Kind: kind, HTTP: 2}
				sents := []int{0}
				if kind.ServerStreams() {
					sents = []int{0, 1, 2}
				}
				for _, sent := range sents {
					out = append(out, c02Case{Cfg: cfg, Code: 9, Msg: c02LongMsg, Details: 1, Meta: 4, Sent: sent})
					out = append(out, c02Case{Cfg: cfg, Code: 9, Msg: 0, Details: 4, Meta: 4, Sent: sent})
				}
			}
		}
	}
	// a coded error wrapped with %w by the handler or an interceptor
	for _, p := range AllProtos {
		for _, kind := range AllKinds {
			for _, js := range []bool{false, true} {
				for _, ic := range []bool{false, true} {
					for _, sent := range []int{0, 2} {
						cfg := Cfg{Proto: p, JSON: js, Comp: CompNone, Kind: kind, HTTP: 2}
						if !cfg.Valid() || (sent > 0 && !kind.ServerStreams()) {
							continue
						}
						out = append(out, c02Case{Cfg: cfg, Code: 5, Msg: 1, Details: 2, Meta: 1, Sent: sent, ByIcept: ic, Wrapped: true})
						if !js {
							out = append(out, c02Case{Cfg: cfg, Code: 5, Msg: 1, Details: 2, Meta: 1, Sent: sent, ByIcept: ic, Wrapped: true, Chain: "join"})
							out = append(out, c02Case{Cfg: cfg, Code: 5, Msg: 1, Details: 2, Meta: 1, Sent: sent, ByIcept: ic, Wrapped: true, Chain: "multi"})
						}
					}
				}
			}
		}
	}
	// the failure is raised before the request is read and reaches the client in the middle of its Send
	for _, cfg := range []Cfg{} {
		_ = cfg
	}
	for _, p := range AllProtos {
		for _, kind := range AllKinds {
			for _, ic := range []bool{false, true} {
				for _, w := range []int{1, 3, 5, 7} {
					cfg := Cfg{Proto: p, Comp: CompNone, Kind: kind, HTTP: 2}
					if !cfg.Valid() {
						continue
					}
					out = append(out, c02Case{Cfg: cfg, Code: 7, Msg: 1, Details: 1, Meta: 1, ByIcept: ic, Window: w})
				}
			}
		}
	}
	return out
}

func TestC02(t *testing.T) {
	c := ev.New("C02")
	defer func() { _ = c.Finish() }()
	c.SetRule("input/configuration enumeration on real clients and handlers: code {plain Go error, 1..16} x message {ascii, empty, non-ASCII UTF-8, NUL/control bytes, '%' forms, CR/LF, leading/trailing blanks, 4 KiB} x details {none, 1, 2 distinct, 2 equal} x metadata multimaps (several values per key, -Bin key) x messages sent before the error {0,1,2} x raised by {handler, interceptor} x underlying cause {plain, wrapping context.Canceled, context.DeadlineExceeded, io.EOF} x {connect,grpc,grpcweb} x {proto,json} x 4 RPC kinds; quick = full code x message product with the other dimensions at a default plus every other dimension varied around one default (deviation bound 2), thorough = full product on memhttp plus the code x message product and the details/metadata menus over the real net/http stack (HTTP/1.1 and TLS HTTP/2 on loopback); distinct = full parameter tuple, all cases are non-trivial (an error is always raised)")
	c.Assume("memhttp strips optional whitespace around header values as HTTP/1.1 parsers do; error details are Any-wrapped well-known types both ends know")
	if ev.ReplayFile() != "" {
		var k c02Case
		if _, err := ev.LoadReplay(&k); err != nil {
			t.Fatal(err)
		}
		Bubble(t, func() { c02Check(c, k) })
		return
	}
	cases := c02Cases(ev.Thorough())
	if ev.Thorough() {
		// the code x message product and the metadata / details dimensions once more over real HTTP/1.1 and TLS HTTP/2
		for _, p := range AllProtos {
			for _, kind := range AllKinds {
				for _, hv := range []int{1, 2} {
					cfg := Cfg{Proto: p, Comp: CompDefault, Kind: kind, HTTP: hv}
					if !cfg.Valid() {
						continue
					}
					for code := 0; code <= 16; code++ {
						for msg := range c02Messages[:c02LongMsg] {
							if hv == 1 && p == PGRPC && len(c02Messages[msg]) > 1000 {
								// net/http's HTTP/1.1 chunked reader refuses trailers this long
								// ("suspiciously long trailer"): a limit of that transport, not of the library
								continue
							}
							cases = append(cases, c02Case{Cfg: cfg, Code: code, Msg: msg, Details: 1, Meta: 1, Real: true})
						}
					}
					for det := 0; det < 4; det++ {
						for meta := range c02Metas {
							sent := 0
							if kind.ServerStreams() {
								sent = 1
							}
							cases = append(cases, c02Case{Cfg: cfg, Code: 10, Msg: 2, Details: det, Meta: meta, Sent: sent, Real: true})
						}
					}
				}
			}
		}
	}
	for i, k := range cases {
		if !ev.Mine(i) {
			continue
		}
		if c.Expired() {
			break
		}
		c.Case(k.key(), true)
		if k.Real {
			c02Check(c, k) // real sockets cannot live in a bubble
		} else {
			Bubble(t, func() { c02Check(c, k) })
		}
		if i%1999 == 0 {
			c.Sample(map[string]any{"case": k.key(), "message": clip(c02Messages[k.Msg], 40)})
		}
	}
}
