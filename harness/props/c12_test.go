package props

import (
	"bytes"
	"context"
	"encoding/binary"
	"errors"
	"fmt"
	"io"
	"net/http"
	"net/http/httptest"
	"sort"
	"strings"
	"testing"
	"time"

	connect "github.com/bufbuild/connect-go"
	"google.golang.org/protobuf/proto"

	"verifharness/ev"
	"verifharness/memhttp"
)

// C12 — requests are dispatched by method, HTTP version and Content-Type as advertised.
//
// Engine: request enumeration straight into Handler.ServeHTTP.

type namedCodec struct{ name string }

func (n namedCodec) Name() string { return n.name }
func (n namedCodec) Marshal(m any) ([]byte, error) {
	pm, ok := m.(proto.Message)
	if !ok {
		return nil, errors.New("not proto")
	}
	return proto.Marshal(pm)
}
func (n namedCodec) Unmarshal(b []byte, m any) error {
	pm, ok := m.(proto.Message)
	if !ok {
		return errors.New("not proto")
	}
	return proto.Unmarshal(b, pm)
}

var c12CodecSets = map[string][]string{ // name -> extra codec names registered on the handler
	"default":     nil,
	"custom":      {"custom"},
	"grpc-named":  {"grpc"},
	"proto-again": {"proto"},
}

type c12Case struct {
	Kind        Kind   `json:"kind"`
	Codecs      string `json:"codecs"`
	Method      string `json:"method"`
	Major       int    `json:"major"`
	Minor       int    `json:"minor"`
	ContentType string `json:"content_type"`
	// Prior: a request the same Handler served before the judged one (dispatch
	// must not depend on history): "" none, "415" (POST text/plain), "405" (GET),
	// or "ct:<type>" (a POST with that advertised Content-Type).
	Prior string `json:"prior,omitempty"`
}

func (k c12Case) key() string {
	if k.Prior != "" {
		return fmt.Sprintf("%s/%s/%s/HTTP%d.%d/%q/after-%s", k.Kind, k.Codecs, k.Method, k.Major, k.Minor, k.ContentType, k.Prior)
	}
	return fmt.Sprintf("%s/%s/%s/HTTP%d.%d/%q", k.Kind, k.Codecs, k.Method, k.Major, k.Minor, k.ContentType)
}

// c12Request builds the request of a case.
func c12Request(kind Kind, codecs, method string, major, minor int, contentType string) *http.Request {
	payload, _ := proto.Marshal(&BV{Value: []byte{5}})
	if strings.HasSuffix(contentType, "json") {
		payload = []byte(`"BQ=="`)
	}
	body := envelope(0, payload)
	if kind == KUnary && !strings.HasPrefix(contentType, "application/grpc") {
		body = payload
	}
	if kind == KUnary && codecs == "grpc-named" && contentType == "application/grpc" {
		body = payload // claimed by the Connect protocol with the codec named "grpc"
	}
	req := httptest.NewRequest("POST", "http://mem.test"+Procedure, bytes.NewReader(body))
	req.Method = method
	req.ProtoMajor, req.ProtoMinor = major, minor
	req.Proto = fmt.Sprintf("HTTP/%d.%d", major, minor)
	if contentType != "" {
		req.Header.Set("Content-Type", contentType)
	}
	return req
}

// c12Reference is the advertised set computed from the property text.
func c12Reference(kind Kind, codecs string) []string {
	names := map[string]bool{"proto": true, "json": true}
	for _, n := range c12CodecSets[codecs] {
		names[n] = true
	}
	set := map[string]bool{}
	for n := range names {
		if kind == KUnary {
			set["application/"+n] = true
		} else {
			set["application/connect+"+n] = true
		}
		set["application/grpc+"+n] = true
		set["application/grpc-web+"+n] = true
	}
	if names["proto"] {
		set["application/grpc"] = true
		set["application/grpc-web"] = true
	}
	out := make([]string, 0, len(set))
	for s := range set {
		out = append(out, s)
	}
	sort.Strings(out)
	return out
}

func c12ContentTypes(kind Kind, codecs string, thorough bool) []string {
	ref := c12Reference(kind, codecs)
	seen := map[string]bool{}
	var out []string
	add := func(s string) {
		if !seen[s] {
			seen[s] = true
			out = append(out, s)
		}
	}
	for _, r := range ref {
		add(r)
	}
	add("")
	for _, r := range ref {
		// single-character edits
		for i := 0; i <= len(r); i++ {
			if i < len(r) {
				add(r[:i] + r[i+1:]) // delete
				c := r[i]
				if c >= 'a' && c <= 'z' {
					add(r[:i] + string(c-32) + r[i+1:]) // case flip
				}
			}
			if thorough || i == 0 || i == len(r) {
				add(r[:i] + "x" + r[i:]) // insert
			}
		}
		add(r + ";charset=utf-8")
		add(r + "; charset=utf-8")
		add(" " + r)
		add(r + " ")
		add(r + "+")
		add(r + "+proto")
	}
	for _, pre := range []string{"grpc", "grpc-web", "connect", ""} {
		for _, plus := range []string{"", "+"} {
			for _, name := range []string{"", "proto", "json", "custom", "grpc", "xml", "protobuf", "PROTO"} {
				add("application/" + pre + plus + name)
			}
		}
	}
	for _, s := range []string{"text/plain", "application/x-www-form-urlencoded", "*/*", "application", "application/", "grpc", "application/json, application/proto"} {
		add(s)
	}
	return out
}

type c12Counts struct {
	user, icept int
	specs       []connect.Spec
	// userSpecs: what Request.Spec() reports inside user code (unary and
	// server-stream implementations receive a Request).
	userSpecs []connect.Spec
}

type countI struct{ n *c12Counts }

func (ci countI) WrapUnary(next connect.UnaryFunc) connect.UnaryFunc {
	return func(ctx context.Context, r connect.AnyRequest) (connect.AnyResponse, error) {
		ci.n.icept++
		ci.n.specs = append(ci.n.specs, r.Spec())
		return next(ctx, r)
	}
}
func (ci countI) WrapStreamingClient(next connect.StreamingClientFunc) connect.StreamingClientFunc {
	return func(ctx context.Context, s connect.Spec) connect.StreamingClientConn {
		ci.n.icept++
		ci.n.specs = append(ci.n.specs, s)
		return next(ctx, s)
	}
}
func (ci countI) WrapStreamingHandler(next connect.StreamingHandlerFunc) connect.StreamingHandlerFunc {
	return func(ctx context.Context, c connect.StreamingHandlerConn) error {
		ci.n.icept++
		ci.n.specs = append(ci.n.specs, c.Spec())
		return next(ctx, c)
	}
}

// c12HandlerProc is how the handler under test spells its procedure (the
// spec-agreement family varies it; workers are single-threaded).
var c12HandlerProc = Procedure

func c12Handler(kind Kind, codecs string, counts *c12Counts) *connect.Handler {
	// The counting interceptor sits in a second interceptor option behind a
	// two-element one, and the same option values have already been applied by
	// two other constructors - as generated code does with the options of a
	// service: whatever the constructors do with the option values, the handler
	// under test must run each interceptor once.
	passes := 0
	opts := []connect.HandlerOption{connect.WithInterceptors(passI{&passes}, passI{&passes}), connect.WithInterceptors(countI{counts})}
	for _, n := range c12CodecSets[codecs] {
		opts = append(opts, connect.WithCodec(namedCodec{n}))
	}
	for _, other := range []Kind{KUnary, KBidi} {
		_ = NewHandler(other, func(context.Context, HStream) error { return nil }, opts...)
	}
	return NewHandlerAt(c12HandlerProc, kind, func(ctx context.Context, s HStream) error {
		counts.user++
		if kind == KUnary || kind == KServer {
			counts.userSpecs = append(counts.userSpecs, s.Spec())
		}
		for {
			if _, err := s.Receive(); err != nil {
				break
			}
		}
		return s.Send(&BV{Value: []byte{1}})
	}, opts...)
}

func envelope(flags byte, payload []byte) []byte {
	out := make([]byte, 5+len(payload))
	out[0] = flags
	binary.BigEndian.PutUint32(out[1:5], uint32(len(payload)))
	copy(out[5:], payload)
	return out
}

func c12Check(c *ev.Collector, k c12Case) {
	counts := &c12Counts{}
	h := c12Handler(k.Kind, k.Codecs, counts)
	if k.Prior != "" {
		var prior *http.Request
		switch {
		case k.Prior == "415":
			prior = c12Request(k.Kind, k.Codecs, "POST", 2, 0, "text/plain")
		case k.Prior == "405":
			prior = c12Request(k.Kind, k.Codecs, "GET", 2, 0, "")
		default:
			prior = c12Request(k.Kind, k.Codecs, "POST", 2, 0, strings.TrimPrefix(k.Prior, "ct:"))
		}
		pg := Guarded(func() { h.ServeHTTP(httptest.NewRecorder(), prior) })
		if pg.Hung {
			BailIfStuck(c, pg)
		}
		*counts = c12Counts{}
	}
	req := c12Request(k.Kind, k.Codecs, k.Method, k.Major, k.Minor, k.ContentType)
	rec := httptest.NewRecorder()
	g := Guarded(func() { h.ServeHTTP(rec, req) })
	tags := []string{"kind=" + k.Kind.String(), "codecs=" + k.Codecs}
	if k.Prior != "" {
		tags = append(tags, "after-earlier-request")
	}
	viol := func(clause, outcome, format string, args ...any) {
		c.Violation("TestC12", clause, outcome, tags, k, "%s: "+format, append([]any{k.key()}, args...)...)
	}
	c.AddTransitions(2)
	c.AddStates(2)
	c.AddTraces(1)
	if g.Hung || g.Panicked {
		viol("terminates", "hang-or-panic", "hung=%v panic=%v\n%s", g.Hung, g.Panic, g.Stack)
		c.Outcome("violation")
		BailIfStuck(c, g)
		return
	}
	ref := c12Reference(k.Kind, k.Codecs)
	inRef := false
	for _, r := range ref {
		if r == k.ContentType {
			inRef = true
		}
	}
	status := rec.Code
	bad := false
	rejected := false
	needs505 := k.Kind == KBidi && k.Major < 2
	switch {
	case k.Method != "POST":
		rejected = true
		if !(status == 405 && rec.Header().Get("Allow") == "POST") && !(needs505 && status == 505) {
			bad = true
			viol("non-post-405", fmt.Sprintf("status=%d", status), "non-POST request answered %d (Allow=%q)", status, rec.Header().Get("Allow"))
		}
	case needs505:
		rejected = true
		if status != 505 {
			bad = true
			viol("bidi-http1-505", fmt.Sprintf("status=%d", status), "bidi request over HTTP/%d.%d answered %d", k.Major, k.Minor, status)
		}
	case !inRef:
		rejected = true
		if status != 415 {
			bad = true
			viol("unserved-type-415", fmt.Sprintf("status=%d", status), "POST with unadvertised Content-Type answered %d, want 415", status)
		} else {
			got := strings.Split(rec.Header().Get("Accept-Post"), ", ")
			sort.Strings(got)
			if strings.Join(got, "|") != strings.Join(ref, "|") {
				bad = true
				viol("accept-post-exact", "differs", "Accept-Post %v, reference set %v", got, ref)
			}
		}
	default:
		if status == 415 {
			bad = true
			viol("served-type-not-415", "status=415", "POST with advertised Content-Type answered 415 (Accept-Post %q)", rec.Header().Get("Accept-Post"))
		}
	}
	if rejected {
		if counts.user != 0 || counts.icept != 0 {
			bad = true
			viol("rejected-runs-nothing", fmt.Sprintf("user=%d,icept=%d", counts.user, counts.icept), "rejected request ran user code %d times and interceptors %d times", counts.user, counts.icept)
		}
	} else if !bad {
		ambiguous := k.Codecs == "grpc-named" && strings.HasPrefix(k.ContentType, "application/grpc")
		if !ambiguous && (counts.user != 1 || counts.icept != 1) {
			bad = true
			viol("accepted-runs-once", fmt.Sprintf("user=%d,icept=%d", counts.user, counts.icept), "accepted request ran user code %d times and interceptors %d times (status %d, body %q)", counts.user, counts.icept, status, clip(rec.Body.String(), 200))
		}
		if counts.user > 1 || counts.icept > 1 {
			bad = true
			viol("accepted-runs-once", "more-than-once", "user=%d icept=%d", counts.user, counts.icept)
		}
		for _, sp := range counts.specs {
			if sp.Procedure != Procedure || sp.StreamType != streamTypeOf(k.Kind) || sp.IsClient {
				bad = true
				viol("handler-spec", "wrong-spec", "interceptor saw Spec %+v, handler was built for %s %s", sp, Procedure, k.Kind)
			}
		}
		for _, sp := range counts.userSpecs {
			if sp.Procedure != Procedure || sp.StreamType != streamTypeOf(k.Kind) || sp.IsClient {
				bad = true
				viol("handler-spec", "wrong-user-spec", "user code saw Request.Spec() %+v, handler was built for %s %s", sp, Procedure, k.Kind)
			}
		}
	}
	if bad {
		c.Outcome("violation")
	} else if rejected {
		c.Outcome(fmt.Sprintf("rejected-%d", status))
	} else {
		c.Outcome("served")
	}
}

func streamTypeOf(k Kind) connect.StreamType {
	switch k {
	case KClient:
		return connect.StreamTypeClient
	case KServer:
		return connect.StreamTypeServer
	case KBidi:
		return connect.StreamTypeBidi
	}
	return connect.StreamTypeUnary
}

// c12SpecAgreement: the Spec seen by client interceptors matches the one seen
// by handler interceptors for every URL shape.
func c12SpecAgreement(t *testing.T, c *ev.Collector) {
	bases := []string{"http://h", "http://h/", "http://h/pre/fix", "https://h:1/pre/", "http://h//", "http://h/a.b.C/D"}
	idx := 0
	// the handler's constructor is given the procedure in other spellings than the canonical one
	// (mounted under a prefix, without the leading slash, as a URL): the Spec is canonical all the same
	for _, hproc := range []string{"/api/v1" + Procedure, "api/v1" + Procedure, "http://h/api" + Procedure, Procedure[1:]} {
		for _, kind := range AllKinds {
			idx++
			if !ev.Mine(idx) {
				continue
			}
			key := fmt.Sprintf("spec/handler-built-for-%s/%s", hproc, kind)
			c.Case(key, true)
			Bubble(t, func() {
				hc, cc := &c12Counts{}, &c12Counts{}
				c12HandlerProc = hproc
				h := c12Handler(kind, "default", hc)
				c12HandlerProc = Procedure
				tr := &memhttp.Transport{Handler: h, Proto: 2, SyncCloseReq: true}
				cl := connect.NewClient[BV, BV](tr, "http://h/api/v1"+Procedure, connect.WithInterceptors(countI{cc}))
				var res CallResult
				g := Guarded(func() { res = RunCall(context.Background(), cl, kind, [][]byte{{1}}, nil) }, tr)
				c.AddTransitions(3)
				c.AddStates(3)
				c.AddTraces(1)
				tags := []string{"kind=" + kind.String(), "spec-agreement", "handler-procedure-spelling"}
				if g.Hung || g.Panicked || res.Err != nil {
					c.Violation("TestC12", "spec-agreement", "call-failed", tags, key, "%s: hung=%v panic=%v err=%v", key, g.Hung, g.Panic, res.Err)
					BailIfStuck(c, g)
					return
				}
				if len(cc.specs) != 1 || len(hc.specs) != 1 {
					c.Violation("TestC12", "spec-agreement", "count", tags, key, "%s: client interceptor ran %d times, handler interceptor %d times", key, len(cc.specs), len(hc.specs))
					return
				}
				cs, hs := cc.specs[0], hc.specs[0]
				if cs.Procedure != hs.Procedure || cs.Procedure != Procedure {
					c.Violation("TestC12", "spec-agreement", "differs", tags, key, "%s: client saw %+v, handler saw %+v", key, cs, hs)
					c.Outcome("violation")
					return
				}
				for _, us := range hc.userSpecs {
					if us != hs {
						c.Violation("TestC12", "spec-agreement", "user-differs", tags, key, "%s: handler user code saw Request.Spec() %+v, interceptors saw %+v", key, us, hs)
						c.Outcome("violation")
						return
					}
				}
				c.Outcome("spec-ok")
			})
		}
	}
	for _, base := range bases {
		for _, trimmed := range []bool{true, false} {
			for _, kind := range AllKinds {
				for _, p := range AllProtos {
					idx++
					if !ev.Mine(idx) {
						continue
					}
					url := base + Procedure
					if trimmed {
						url = strings.TrimRight(base, "/") + Procedure
					}
					// a query or a fragment is not part of the procedure's name
					switch {
					case base == "http://h/pre/fix" && trimmed:
						url += "?tenant=acme"
					case base == "http://h/pre/fix" && !trimmed:
						url += "?next=/home/start"
					case base == "https://h:1/pre/" && trimmed:
						url += "#top"
					}
					key := fmt.Sprintf("spec/%s/%s/%s", url, kind, p)
					c.Case(key, true)
					Bubble(t, func() {
						hc, cc := &c12Counts{}, &c12Counts{}
						h := c12Handler(kind, "default", hc)
						tr := &memhttp.Transport{Handler: h, Proto: 2, SyncCloseReq: true}
						opts := append(Cfg{Proto: p, Comp: CompNone}.ClientOptions(), connect.WithInterceptors(countI{cc}))
						cl := connect.NewClient[BV, BV](tr, url, opts...)
						var res CallResult
						g := Guarded(func() { res = RunCall(context.Background(), cl, kind, [][]byte{{1}}, nil) }, tr)
						c.AddTransitions(3)
						c.AddStates(3)
						c.AddTraces(1)
						tags := []string{"kind=" + kind.String(), "spec-agreement"}
						if g.Hung || g.Panicked || res.Err != nil {
							c.Violation("TestC12", "spec-agreement", "call-failed", tags, key, "%s: hung=%v panic=%v err=%v", key, g.Hung, g.Panic, res.Err)
							BailIfStuck(c, g)
							return
						}
						if len(cc.specs) != 1 || len(hc.specs) != 1 {
							c.Violation("TestC12", "spec-agreement", "count", tags, key, "%s: client interceptor ran %d times, handler interceptor %d times", key, len(cc.specs), len(hc.specs))
							return
						}
						cs, hs := cc.specs[0], hc.specs[0]
						if cs.Procedure != hs.Procedure || cs.StreamType != hs.StreamType || !cs.IsClient || hs.IsClient || cs.Procedure != Procedure || cs.StreamType != streamTypeOf(kind) {
							c.Violation("TestC12", "spec-agreement", "differs", tags, key, "%s: client saw %+v, handler saw %+v", key, cs, hs)
							c.Outcome("violation")
							return
						}
						for _, us := range hc.userSpecs {
							if us != hs {
								c.Violation("TestC12", "spec-agreement", "user-differs", tags, key, "%s: handler user code saw Request.Spec() %+v, interceptors saw %+v", key, us, hs)
								c.Outcome("violation")
								return
							}
						}
						c.Outcome("spec-ok")
					})
				}
			}
		}
	}
}

// c12CtxEnds: an accepted POST whose context ends (cancel at the last byte of
// the request body / deadline expiring during a slow upload) after dispatch:
// the interceptors still run exactly once; so does the user code of streaming
// handlers (a unary handler may answer the context's error without it).
func c12CtxEnds(t *testing.T, c *ev.Collector) {
	idx := 0
	for _, p := range AllProtos {
		for _, kind := range AllKinds {
			for _, how := range []string{"cancel-at-last-byte", "deadline-during-upload"} {
				idx++
				if !ev.Mine(idx) {
					continue
				}
				key := fmt.Sprintf("ctx-ends/%s/%s/%s", p, kind, how)
				c.Case(key, true)
				Bubble(t, func() {
					counts := &c12Counts{}
					h := c12Handler(kind, "default", counts)
					ctx, cancel := context.WithCancel(context.Background())
					defer cancel()
					body := &endingReader{data: RawBody(p, kind, false, []byte{5})}
					req := RawRequest(ctx, p, kind, false, body)
					if how == "cancel-at-last-byte" {
						body.atEnd = cancel
					} else {
						body.pause = 200 * time.Millisecond
						if p == PConnect {
							req.Header.Set("Connect-Timeout-Ms", "50")
						} else {
							req.Header.Set("Grpc-Timeout", "50m")
						}
					}
					rec := httptest.NewRecorder()
					g := GuardedFor(time.Hour, func() { h.ServeHTTP(rec, req) })
					c.AddTransitions(3)
					c.AddStates(3)
					c.AddTraces(1)
					tags := []string{"kind=" + kind.String(), "proto=" + p.String(), "ctx-ends-during-request"}
					switch {
					case g.Hung || g.Panicked:
						c.Violation("TestC12", "terminates", "hang-or-panic", tags, key, "%s: hung=%v panic=%v", key, g.Hung, g.Panic)
						c.Outcome("violation")
						BailIfStuck(c, g)
					case counts.icept != 1 || counts.user > 1 || (kind != KUnary && counts.user != 1):
						c.Violation("TestC12", "accepted-runs-once", fmt.Sprintf("user=%d,icept=%d", counts.user, counts.icept), tags, key, "%s: accepted request ran user code %d times and interceptors %d times (status %d)", key, counts.user, counts.icept, rec.Code)
						c.Outcome("violation")
					default:
						c.Outcome("served")
					}
				})
			}
		}
	}
}

// c12RequestReuse: a *connect.Request value that already went through a
// client of another procedure, or that a handler received and forwards to a
// backend client, is sent through the client under test: its interceptors must
// see that client's own Spec (procedure, stream type, IsClient).
func c12RequestReuse(t *testing.T, c *ev.Collector) {
	const otherProc = "/other.v1.OtherService/Other"
	idx := 0
	for _, p := range AllProtos {
		for _, how := range []string{"sent-through-another-client", "forwarded-by-a-handler"} {
			idx++
			if !ev.Mine(idx) {
				continue
			}
			key := fmt.Sprintf("request-reuse/%s/%s", p, how)
			c.Case(key, true)
			Bubble(t, func() {
				cc := &c12Counts{}
				backend := NewHandler(KUnary, func(ctx context.Context, s HStream) error { return s.Send(&BV{Value: []byte{1}}) })
				trB := &memhttp.Transport{Handler: backend, Proto: 2, SyncCloseReq: true}
				opts := append(Cfg{Proto: p, Comp: CompNone}.ClientOptions(), connect.WithInterceptors(countI{cc}))
				under := connect.NewClient[BV, BV](trB, BaseURL+Procedure, opts...)
				var callErr error
				var g GuardResult
				if how == "sent-through-another-client" {
					other := connect.NewUnaryHandler(otherProc, func(ctx context.Context, r *connect.Request[BV]) (*connect.Response[BV], error) {
						return connect.NewResponse(&BV{}), nil
					})
					trO := &memhttp.Transport{Handler: other, Proto: 2, SyncCloseReq: true}
					clO := connect.NewClient[BV, BV](trO, BaseURL+otherProc, Cfg{Proto: p, Comp: CompNone}.ClientOptions()...)
					req := connect.NewRequest(&BV{Value: []byte{7}})
					g = Guarded(func() {
						_, _ = clO.CallUnary(context.Background(), req)
						_, callErr = under.CallUnary(context.Background(), req)
					}, trO, trB)
				} else {
					front := connect.NewUnaryHandler(otherProc, func(ctx context.Context, r *connect.Request[BV]) (*connect.Response[BV], error) {
						return under.CallUnary(ctx, r) // the received request itself is forwarded
					})
					trF := &memhttp.Transport{Handler: front, Proto: 2, SyncCloseReq: true}
					clF := connect.NewClient[BV, BV](trF, BaseURL+otherProc, Cfg{Proto: p, Comp: CompNone}.ClientOptions()...)
					g = Guarded(func() {
						_, callErr = clF.CallUnary(context.Background(), connect.NewRequest(&BV{Value: []byte{7}}))
					}, trF, trB)
				}
				c.AddTransitions(4)
				c.AddStates(4)
				c.AddTraces(2)
				tags := []string{"kind=unary", "proto=" + p.String(), "spec-agreement", "request-reused"}
				switch {
				case g.Hung || g.Panicked || callErr != nil:
					c.Violation("TestC12", "spec-agreement", "call-failed", tags, key, "%s: hung=%v panic=%v err=%v", key, g.Hung, g.Panic, callErr)
					c.Outcome("violation")
					BailIfStuck(c, g)
				case len(cc.specs) != 1:
					c.Violation("TestC12", "spec-agreement", "count", tags, key, "%s: the client's interceptor ran %d times", key, len(cc.specs))
					c.Outcome("violation")
				case cc.specs[0].Procedure != Procedure || cc.specs[0].StreamType != connect.StreamTypeUnary || !cc.specs[0].IsClient:
					c.Violation("TestC12", "spec-agreement", "differs", tags, key, "%s: the interceptors of the client built for %s saw %+v", key, Procedure, cc.specs[0])
					c.Outcome("violation")
				default:
					c.Outcome("spec-ok")
				}
			})
		}
	}
}

func TestC12(t *testing.T) {
	c := ev.New("C12")
	defer func() { _ = c.Finish() }()
	c.SetRule("request enumeration into Handler.ServeHTTP: method {POST,GET,PUT,OPTIONS,HEAD,DELETE,PATCH,post} x HTTP version {1.0,1.1,2.0} x Content-Type {every advertised type, every single-character deletion / case flip / insertion of each, ;charset and whitespace variants, application/{grpc,grpc-web,connect,}{,+}{names}, unrelated types, empty} x registered codec sets {default, +custom, +codec named grpc, proto re-registered} x 4 RPC kinds; oracle computed from the property text (reference Accept-Post set); plus client/handler Spec agreement over URL shapes x kinds x protocols through real calls; distinct = full tuple, non-trivial = everything except the plain advertised POST")
	c.Assume("requests are handed to ServeHTTP directly (no net/http server in front): header canonicalisation by the server is not part of this property")
	if ev.ReplayFile() != "" {
		var k c12Case
		if _, err := ev.LoadReplay(&k); err != nil {
			c12SpecAgreement(t, c)
			c12CtxEnds(t, c)
			return
		}
		Bubble(t, func() { c12Check(c, k) })
		return
	}
	thorough := ev.Thorough()
	methods := []string{"POST", "GET", "PUT", "OPTIONS", "HEAD", "DELETE", "PATCH", "post"}
	versions := [][2]int{{2, 0}, {1, 1}, {1, 0}}
	idx := 0
	codecSets := []string{"default", "custom", "grpc-named", "proto-again"}
	for _, kind := range AllKinds {
		for _, cs := range codecSets {
			cts := c12ContentTypes(kind, cs, thorough)
			for _, ct := range cts {
				for _, m := range methods {
					for _, v := range versions {
						if !thorough && m != "POST" && m != "GET" && v[0] == 1 && v[1] == 0 {
							continue
						}
						idx++
						if !ev.Mine(idx) {
							continue
						}
						if c.Expired() {
							return
						}
						k := c12Case{Kind: kind, Codecs: cs, Method: m, Major: v[0], Minor: v[1], ContentType: ct}
						c.Case(k.key(), true)
						Bubble(t, func() { c12Check(c, k) })
						if idx%20011 == 0 {
							c.Sample(k)
						}
					}
				}
			}
		}
	}
	// history: the same requests to a Handler that has already served one other request
	for _, kind := range AllKinds {
		for _, cs := range codecSets {
			ref := c12Reference(kind, cs)
			judged := append(append([]string{}, ref...), "", "text/plain", "application/grpc+thrift")
			priors := []string{"415", "405", "ct:" + ref[0], "ct:" + ref[len(ref)-1]}
			for _, ct := range judged {
				for _, pr := range priors {
					idx++
					if !ev.Mine(idx) {
						continue
					}
					k := c12Case{Kind: kind, Codecs: cs, Method: "POST", Major: 2, Minor: 0, ContentType: ct, Prior: pr}
					c.Case(k.key(), true)
					Bubble(t, func() { c12Check(c, k) })
				}
			}
		}
	}
	c12SpecAgreement(t, c)
	c12CtxEnds(t, c)
	c12RequestReuse(t, c)
	_ = io.EOF
}
