package props

import (
	"bytes"
	"context"
	"encoding/base64"
	"errors"
	"fmt"
	"io"
	"net/http"
	"strings"
	"testing"

	connect "github.com/bufbuild/connect-go"

	"verifharness/ev"
	"verifharness/memhttp"
)

// C11 — headers and trailers set by one side are observed by the other.
//
// Engine: input/configuration enumeration on real clients and handlers plus a
// complete enumeration of short byte strings through the binary-header helpers.

var c11Values = []string{"v1", "two words", "a,b", "100%", "k:v", "x=y;z", `"quoted"`, "~!@#$^&*()_+-=[]{}|\\<>?/"}

// c11Maps builds multimaps over up to two keys (prefix distinguishes the
// carrier so that merged views stay unambiguous).
func c11Maps(prefix string, thorough bool) []http.Header {
	k1, k2, kb := http.CanonicalHeaderKey("X-"+prefix+"a"), http.CanonicalHeaderKey("X-"+prefix+"b"), http.CanonicalHeaderKey("X-"+prefix+"c-Bin")
	out := []http.Header{
		{},
		{k1: {c11Values[0]}},
		{k1: {c11Values[1], c11Values[2]}},
		{k1: {c11Values[3], c11Values[4], c11Values[5]}, k2: {c11Values[6]}},
		{kb: {connect.EncodeBinaryHeader([]byte{0x00, 0xff, 0x10}), connect.EncodeBinaryHeader([]byte{})}, k1: {c11Values[7]}},
	}
	// repeated equal values under one key (text and binary): every occurrence counts
	out = append(out, http.Header{k2: {"r", "s", "r", "r"}, kb: {connect.EncodeBinaryHeader([]byte{1, 2}), connect.EncodeBinaryHeader([]byte{1, 2})}})
	// a key shared by all carriers: merged views must keep every carrier's values
	out = append(out, http.Header{"X-Shared": {prefix + "-shared-1", prefix + "-shared-2"}, k1: {c11Values[0]}})
	// keys that merely look like entity headers
	out = append(out, http.Header{"Content-Language": {"en", "de"}, "Content-Disposition": {"inline"}, k1: {c11Values[0]}})
	if thorough {
		for i := range c11Values {
			out = append(out, http.Header{k2: {c11Values[i], c11Values[(i+3)%len(c11Values)]}})
		}
	}
	return out
}

type c11Case struct {
	Cfg     Cfg         `json:"cfg"`
	Outcome string      `json:"outcome"` // ok1 (>=1 message) | ok0 (no message) | err0 (error first) | err1 (error after a message)
	ReqH    http.Header `json:"req_h"`
	RespH   http.Header `json:"resp_h"`
	RespT   http.Header `json:"resp_t"`
	ErrM    http.Header `json:"err_m"`
	// ReadMax: the client has WithReadMaxBytes(ReadMax) and the handler's error
	// text is longer than that (a read limit bounds messages, not errors).
	ReadMax int `json:"read_max,omitempty"`
}

func (k c11Case) key() string {
	if k.ReadMax > 0 {
		return fmt.Sprintf("%s/%s/q%v/h%v/t%v/e%v/readmax%d", k.Cfg, k.Outcome, k.ReqH, k.RespH, k.RespT, k.ErrM, k.ReadMax)
	}
	return fmt.Sprintf("%s/%s/q%v/h%v/t%v/e%v", k.Cfg, k.Outcome, k.ReqH, k.RespH, k.RespT, k.ErrM)
}

func c11Check(c *ev.Collector, k c11Case) {
	var handlerSaw http.Header
	h := NewHandler(k.Cfg.Kind, func(ctx context.Context, s HStream) error {
		handlerSaw = s.RequestHeader().Clone()
		for {
			if _, err := s.Receive(); err != nil {
				if !errors.Is(err, io.EOF) {
					return err
				}
				break
			}
		}
		mergeInto(s.ResponseHeader(), k.RespH)
		mergeInto(s.ResponseTrailer(), k.RespT)
		fail := func() error {
			text := "nope"
			if k.ReadMax > 0 {
				text = strings.Repeat("nope ", k.ReadMax/2)
			}
			e := connect.NewError(connect.CodeFailedPrecondition, errors.New(text))
			mergeInto(e.Meta(), k.ErrM)
			return e
		}
		switch k.Outcome {
		case "errsend":
			// the first Send is refused by the codec (nothing of it reaches the wire); the handler
			// gives up with that error plus its own metadata
			err := s.Send(&BV{Value: []byte("FAIL-MARSHAL")})
			if err == nil {
				return errors.New("the marker message was not refused")
			}
			e := connect.NewError(connect.CodeInternal, err)
			mergeInto(e.Meta(), k.ErrM)
			return e
		case "ok1":
			return s.Send(&BV{Value: []byte{1}})
		case "ok0":
			return nil
		case "err0":
			return fail()
		default: // err1
			if err := s.Send(&BV{Value: []byte{1}}); err != nil {
				return err
			}
			return fail()
		}
	}, append(k.Cfg.HandlerOptions(), connect.WithCodec(failingCodec{"proto"}))...)
	tr := &memhttp.Transport{Handler: h, Proto: k.Cfg.HTTP, SyncCloseReq: true}
	var copts []connect.ClientOption
	if k.ReadMax > 0 {
		copts = append(copts, connect.WithReadMaxBytes(k.ReadMax))
	}
	cl := NewClient(tr, k.Cfg, copts...)
	var res CallResult
	g := Guarded(func() { res = RunCall(context.Background(), cl, k.Cfg.Kind, [][]byte{{7}}, k.ReqH) }, tr)
	tags := append(k.Cfg.Tags(), "outcome="+k.Outcome)
	viol := func(clause, outcome, format string, args ...any) {
		c.Violation("TestC11", clause, outcome, tags, k, "%s: "+format, append([]any{k.key()}, args...)...)
	}
	c.AddTransitions(4)
	c.AddStates(4)
	c.AddTraces(1)
	if g.Hung || g.Panicked {
		viol("terminates", "hang-or-panic", "hung=%v panic=%v\n%s", g.Hung, g.Panic, g.Stack)
		c.Outcome("violation")
		BailIfStuck(c, g)
		return
	}
	bad := false
	if msg, ok := HeaderSubset(k.ReqH, handlerSaw); !ok {
		bad = true
		viol("handler-sees-request-headers", "missing", "%s (handler saw %v)", msg, handlerSaw)
	}
	failed := k.Outcome == "err0" || k.Outcome == "err1" || k.Outcome == "errsend"
	unaryResp := !k.Cfg.Kind.ServerStreams()
	switch {
	case !failed && res.Err != nil:
		bad = true
		viol("call-succeeds", "error", "call failed: %v", res.Err)
	case !failed:
		carried := len(res.Msgs) > 0
		if carried {
			if msg, ok := HeaderSubset(k.RespH, res.Header); !ok {
				bad = true
				viol("client-sees-headers", "missing", "%s (client headers %v, trailers %v)", msg, res.Header, res.Trailer)
			}
			if msg, ok := HeaderSubset(k.RespT, res.Trailer); !ok {
				bad = true
				viol("client-sees-trailers", "missing", "%s (client headers %v, trailers %v)", msg, res.Header, res.Trailer)
			}
		} else {
			union := res.Header.Clone()
			mergeInto(union, res.Trailer)
			want := k.RespH.Clone()
			mergeInto(want, k.RespT)
			if msg, ok := HeaderSubset(want, union); !ok {
				bad = true
				viol("client-sees-metadata", "missing", "%s (client headers %v, trailers %v)", msg, res.Header, res.Trailer)
			}
		}
	default:
		var ce *connect.Error
		if res.Err == nil || !errors.As(res.Err, &ce) {
			bad = true
			viol("call-fails", "no-error", "expected a *connect.Error, got %v", res.Err)
			break
		}
		wants := []http.Header{k.ErrM}
		if !unaryResp {
			// streaming handlers set headers/trailers on the stream before failing
			wants = append(wants, k.RespH, k.RespT)
		}
		for _, want := range wants {
			if msg, ok := HeaderSubset(want, ce.Meta()); !ok {
				bad = true
				viol("error-metadata", "missing", "%s (error metadata %v)", msg, ce.Meta())
			}
		}
	}
	if bad {
		c.Outcome("violation")
	} else {
		c.Outcome("ok")
	}
}

func c11Cases(thorough bool) []c11Case {
	var out []c11Case
	qs, hs, ts, es := c11Maps("q", thorough), c11Maps("h", thorough), c11Maps("t", thorough), c11Maps("e", false)
	for _, p := range AllProtos {
		for _, kind := range AllKinds {
			for _, js := range []bool{false, true} {
				if js && !thorough {
					continue
				}
				cfg := Cfg{Proto: p, JSON: js, Comp: CompDefault, Kind: kind, HTTP: 2}
				outcomes := []string{"ok1", "err0"}
				if kind.ServerStreams() {
					outcomes = []string{"ok1", "ok0", "err0", "err1"}
					if !js {
						outcomes = append(outcomes, "errsend")
					}
				}
				for _, oc := range outcomes {
					if thorough {
						if p == PGRPC || (p == PConnect && kind == KUnary) {
							out = append(out, c11Case{cfg, oc, qs[1], hs[1], ts[1], es[3], 128})
						}
						for _, q := range qs {
							for _, h := range hs {
								for _, t := range ts {
									e := es[(len(q)+len(h)+len(t))%len(es)]
									out = append(out, c11Case{cfg, oc, q, h, t, e, 0})
								}
							}
						}
						continue
					}
					// error metadata under descriptive HTTP header names (an application's to set)
					if oc == "err0" || oc == "err1" {
						out = append(out, c11Case{cfg, oc, qs[0], hs[0], ts[0], http.Header{"User-Agent": {"agent/1"}, "Date": {"Mon, 28 Sep 2026 10:00:00 GMT"}, "X-Ea": {"v1"}}, 0})
					}
					// a client with a read limit smaller than the handler's error, where the error does not
					// travel in an envelope (end-of-stream envelopes and gRPC-Web trailer frames are subject
					// to the limit on this tree: known finding of C09)
					if p == PGRPC || (p == PConnect && kind == KUnary) {
						out = append(out, c11Case{cfg, oc, qs[1], hs[1], ts[1], es[3], 128})
					}
					// quick: each carrier varied alone, then all together
					for i := range qs {
						out = append(out, c11Case{cfg, oc, qs[i], hs[0], ts[0], es[0], 0})
						out = append(out, c11Case{cfg, oc, qs[0], hs[i], ts[0], es[0], 0})
						out = append(out, c11Case{cfg, oc, qs[0], hs[0], ts[i], es[0], 0})
						out = append(out, c11Case{cfg, oc, qs[0], hs[0], ts[0], es[i], 0})
						out = append(out, c11Case{cfg, oc, qs[i], hs[i], ts[i], es[i], 0})
					}
				}
			}
		}
	}
	return out
}

// c11BinValues sends every byte string of length <= maxLen as a -Bin header
// and trailer value through a real call (one call carries 64 values).
func c11BinValues(t *testing.T, c *ev.Collector, maxLen int) {
	var all [][]byte
	var gen func(prefix []byte)
	gen = func(prefix []byte) {
		all = append(all, append([]byte{}, prefix...))
		if len(prefix) == maxLen {
			return
		}
		for b := 0; b < 256; b++ {
			gen(append(prefix, byte(b)))
		}
	}
	gen(nil)
	const batch = 64
	nb := (len(all) + batch - 1) / batch
	for bi := 0; bi < nb; bi++ {
		if !ev.Mine(bi) {
			continue
		}
		if c.Expired() {
			return
		}
		vals := all[bi*batch : min(len(all), (bi+1)*batch)]
		p := AllProtos[bi%3]
		kind := AllKinds[(bi/3)%4]
		hdr := http.Header{}
		for _, v := range vals {
			hdr.Add("X-V-Bin", connect.EncodeBinaryHeader(v))
		}
		k := c11Case{Cfg: Cfg{Proto: p, Comp: CompDefault, Kind: kind, HTTP: 2}, Outcome: "ok1", ReqH: hdr, RespH: http.Header{"X-Hv-Bin": hdr["X-V-Bin"]}, RespT: http.Header{"X-Tv-Bin": hdr["X-V-Bin"]}, ErrM: http.Header{}}
		c.Case(fmt.Sprintf("bin-batch-%d", bi), true)
		c.AddDistinct(int64(len(vals)) - 1)
		Bubble(t, func() { c11Check(c, k) })
	}
}

// c11Helpers enumerates every byte string of length <= maxLen through
// EncodeBinaryHeader / DecodeBinaryHeader (padded and unpadded input).
func c11Helpers(c *ev.Collector, maxLen int) { binHelpers(c, "TestC11", maxLen) }

// binHelpers is shared by C11 and C18 (test names the reporting explorer).
func binHelpers(c *ev.Collector, test string, maxLen int) {
	shard, shards := ev.Shard()
	var n int64
	check := func(b []byte) {
		n++
		defer func() {
			if r := recover(); r != nil {
				c.Violation(test, "bin-helper-no-panic", "panic", []string{"helper"}, fmt.Sprintf("len=%d", len(b)), "binary header helpers panicked for a value of %d bytes (%x...): %v", len(b), clipBytes(b, 8), r)
			}
		}()
		enc := connect.EncodeBinaryHeader(b)
		dec, err := connect.DecodeBinaryHeader(enc)
		if err != nil || !bytes.Equal(dec, b) {
			c.Violation(test, "bin-helper-roundtrip", "unpadded", []string{"helper"}, fmt.Sprintf("%x", b), "DecodeBinaryHeader(EncodeBinaryHeader(%x)=%q) = %x, %v", b, enc, dec, err)
		}
		padded := base64.StdEncoding.EncodeToString(b)
		dec, err = connect.DecodeBinaryHeader(padded)
		if err != nil || !bytes.Equal(dec, b) {
			c.Violation(test, "bin-helper-roundtrip", "padded", []string{"helper"}, fmt.Sprintf("%x", b), "DecodeBinaryHeader(padded %q) = %x, %v; want %x", padded, dec, err, b)
		}
		for i := 0; i < len(enc); i++ {
			if ch := enc[i]; ch < 0x21 || ch > 0x7e {
				c.Violation(test, "bin-helper-header-safe", "unsafe-byte", []string{"helper"}, fmt.Sprintf("%x", b), "EncodeBinaryHeader(%x) contains byte %#x", b, ch)
			}
		}
	}
	if shard == 0 {
		check(nil)
	}
	for first := 0; first < 256; first++ {
		if first%shards != shard {
			continue
		}
		buf := []byte{byte(first)}
		check(buf)
		if maxLen >= 2 {
			for b2 := 0; b2 < 256; b2++ {
				check([]byte{byte(first), byte(b2)})
				if maxLen >= 3 {
					for b3 := 0; b3 < 256; b3++ {
						check([]byte{byte(first), byte(b2), byte(b3)})
					}
				}
			}
		}
	}
	// length sweep: three byte patterns of every length up to 2100 (lengths straddling any
	// fixed-size scratch space, every residue mod 3 of the base64 grouping)
	for l := 4; l <= 2100; l++ {
		if l%shards != shard {
			continue
		}
		zero, ones, ramp := make([]byte, l), bytes.Repeat([]byte{0xff}, l), make([]byte, l)
		for i := range ramp {
			ramp[i] = byte(i*7 + l)
		}
		check(zero)
		check(ones)
		check(ramp)
	}
	c.AddEvaluations(n)
	c.AddDistinct(n)
	c.AddStates(n)
	c.AddTransitions(2 * n)
	c.AddExtra("helper_strings", n)
}

func TestC11(t *testing.T) {
	c := ev.New("C11")
	defer func() { _ = c.Finish() }()
	c.SetRule("enumeration on real clients and handlers: multimaps (0..2 keys, 1..3 values, printable ASCII incl. spaces, commas, '%', ':', quotes; -Bin values) for request headers, response headers, response trailers and error metadata x {success with a message, success without message, error first, error after a message} x {connect,grpc,grpcweb} x 4 RPC kinds (x json in thorough); quick varies one carrier at a time and all together, thorough takes the full product; every byte string of length <= L1 is sent as a -Bin header and trailer value through real calls; every byte string of length <= L2 goes through Encode/DecodeBinaryHeader, padded and unpadded (complete enumeration); distinct = full parameter tuple / byte string")
	c.Assume("memhttp canonicalises field names and strips optional whitespace like net/http; header names are outside the protocol-reserved prefixes")
	if ev.ReplayFile() != "" {
		var k c11Case
		if _, err := ev.LoadReplay(&k); err != nil {
			c11Helpers(c, 2)
			return
		}
		Bubble(t, func() { c11Check(c, k) })
		return
	}
	thorough := ev.Thorough()
	l1, l2 := 1, 2
	if thorough {
		l1, l2 = 2, 3
	}
	c.Bound("bin_value_length_through_calls", l1)
	c.Bound("bin_helper_length_complete", l2)
	cases := c11Cases(thorough)
	for i, k := range cases {
		if !ev.Mine(i) {
			continue
		}
		if c.Expired() {
			break
		}
		c.Case(k.key(), len(k.ReqH)+len(k.RespH)+len(k.RespT)+len(k.ErrM) > 0)
		Bubble(t, func() { c11Check(c, k) })
		if i%997 == 0 {
			c.Sample(map[string]any{"case": k.key()})
		}
	}
	c11BinValues(t, c, l1)
	c11Helpers(c, l2)
}
