#!/bin/bash
# setup_cmd: build the tools and warm the build cache (offline, from files on disk only).
set -eu
cd /verif
export GOFLAGS=-mod=mod GOPROXY=off GOSUMDB=off GOTOOLCHAIN=local
export PATH=/opt/veriftools/go1.26.8/bin:$PATH
GO=/opt/veriftools/go1.26.8/bin/go
mkdir -p bin out evidence
(cd tools/instr && $GO build -o /verif/bin/instr .)
(cd harness && $GO build -o /verif/bin/vcheck ./cmd/vcheck)
for profile in duplex pools; do
  /verif/bin/instr -repo /repo -out /verif/out/overlay-$profile -profile $profile -shim /verif/tools/instr/shim
  (cd harness && $GO test -c -vet=off -tags verif -overlay /verif/out/overlay-$profile/overlay.json -o /verif/out/bin/props-$profile.test ./props)
done
# the free-running -race pass of C13 (both tiers): warm the race-instrumented build as well
(cd harness && $GO test -c -race -vet=off -tags verif -overlay /verif/out/overlay-pools/overlay.json -o /verif/out/bin/props-pools-race.test ./props)
echo "setup ok"
