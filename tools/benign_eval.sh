#!/bin/bash
# tools/benign_eval.sh <patch.diff> [tier] : apply a behaviour-preserving change to /repo, run every check of the
# tier (default quick), revert.  Any exit other than 0 is printed: it is a false alarm of the machinery (or the
# change is not benign after all) and must be investigated.  /repo must be clean.
set -u
P=$(readlink -f $1); TIER=${2:-quick}
cd /verif
if [ -n "$(git -C /repo status --porcelain)" ]; then echo "/repo is not clean"; exit 2; fi
git -C /repo apply --check $P || { echo "patch does not apply: $P"; exit 2; }
git -C /repo apply $P
bad=0
for id in $(seq -f "C%02g" 1 19); do
  out=$(timeout 3000 ./check $id $TIER 2>&1); code=$?
  if [ $code -ne 0 ]; then bad=1; echo "ALARM $id exit=$code"; echo "$out" | grep -E "^VIOLATION|^  clause=|HARNESS-ERROR" | sort | uniq -c | sort -rn | head -6; fi
done
git -C /repo checkout -- . ; git -C /repo clean -fdq
echo "RESULT patch=$P tier=$TIER alarms=$bad"
