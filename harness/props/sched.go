package props

import (
	"fmt"
	"os"
	"sync/atomic"
	"testing"
	"testing/synctest"

	connect "github.com/bufbuild/connect-go"

	"verifharness/bsched"
	"verifharness/ev"
)

// seq is a logical clock shared by drivers and the environment; it orders
// "operation started" against "transport closed the request body" etc.
var seq atomic.Int64

// schedRoundRobin selects the default scheduler of the next runSched calls
// (workers are single-threaded).
var schedRoundRobin bool

func tick() int64 { return seq.Add(1) }

// runSched executes body once in a fresh bubble under a fresh scheduler
// replaying prefix.  body builds the scenario (inside the bubble), starts its
// driver threads with s.Go, calls s.Run() and returns its observation; it
// must leave no goroutine behind (tear down with Release/AbortAll).
//
// If a driver thread is still blocked after the body's tear-down, the bubble
// can never be left (synctest would panic): onStuck is called with the
// execution so that the violation is judged and recorded, then the worker
// process ends after writing its result.
func runSched(t *testing.T, prefix []int, expect []bsched.Point, maxSteps int, body func(s *bsched.Sched) any, onStuck ...func(x *bsched.Exec)) *bsched.Exec {
	x := &bsched.Exec{}
	ev.Tick()
	synctest.Test(t, func(*testing.T) {
		s := bsched.New(prefix, expect)
		if maxSteps > 0 {
			s.MaxSteps = maxSteps
		}
		s.RoundRobin = schedRoundRobin
		SetGate(s.Gate)
		defer SetGate(nil)
		connect.VerifChoose = s.Choose
		defer func() { connect.VerifChoose = chooseFirst }()
		AlgGate = s.Gate
		defer func() { AlgGate = nil }()
		x.Obs = body(s)
		x.Points = s.Points
		x.Deadlock = s.Deadlock
		x.Horizon = s.Horizon
		x.Diverged = s.Diverged
		x.Blocked = s.BlockedAt
		if !s.DriversDone() {
			x.Deadlock = true
			for _, f := range onStuck {
				f(x)
			}
			fmt.Println("worker: a blocked call could not be torn down; exiting after recording it")
			os.Exit(0)
		}
	})
	return x
}

// chooseFirst is the select policy outside scheduler-driven executions: the
// first ready case in source order (deterministic; the scheduler-driven
// explorers enumerate the other choices).  The free-running race pass removes
// it and keeps Go's own random choice.
func chooseFirst(string, int) int { return 0 }

func init() { connect.VerifChoose = chooseFirst }

// SetGate installs the scheduler hook in the instrumented library.
func SetGate(g func(string)) { connect.VerifGate = g }

func schedLine(x *bsched.Exec) string {
	return fmt.Sprintf("choices=%v preemptions=%d steps=%d", x.TrimmedChoices(), x.Preemptions(), len(x.Points))
}

// traceOf renders the schedule as thread@label steps (for replay files and samples).
func traceOf(x *bsched.Exec, max int) []string {
	var out []string
	for i, p := range x.Points {
		if i >= max {
			out = append(out, "...")
			break
		}
		l := ""
		if p.Chosen < len(p.Labels) {
			l = p.Labels[p.Chosen]
		}
		mark := ""
		if p.Chosen != 0 && p.RunningEnabled {
			mark = "!"
		}
		out = append(out, fmt.Sprintf("%s%s@%s", mark, p.Enabled[p.Chosen], l))
	}
	return out
}
