package props

import (
	"crypto/tls"
	"net/http"
	"net/http/httptest"
	"runtime"
	"time"

	connect "github.com/bufbuild/connect-go"
)

// RealServer serves h over the real net/http stack on loopback: HTTP/1.1
// (plain) or HTTP/2 (TLS).  Used as two more transport configurations for
// properties whose outcome does not depend on timing; no timing assertion is
// ever made on it.
type RealServer struct {
	srv *httptest.Server
}

func NewRealServer(h http.Handler, h2 bool) *RealServer {
	// Workers run with GOMAXPROCS=1 (deterministic exploration is faster that
	// way); families on the real stack want real parallelism.  Never lowered
	// again: exploration under the scheduler is unaffected by it.
	if runtime.GOMAXPROCS(0) < 4 {
		runtime.GOMAXPROCS(4)
	}
	mux := http.NewServeMux()
	mux.Handle(Procedure, h)
	srv := httptest.NewUnstartedServer(mux)
	if h2 {
		srv.EnableHTTP2 = true
		srv.StartTLS()
	} else {
		srv.Start()
	}
	return &RealServer{srv: srv}
}

func (r *RealServer) Client() connect.HTTPClient {
	c := r.srv.Client()
	if tr, ok := c.Transport.(*http.Transport); ok {
		tr.TLSClientConfig = &tls.Config{InsecureSkipVerify: true} //nolint:gosec
		tr.ForceAttemptHTTP2 = true
	}
	return c
}

func (r *RealServer) URL() string { return r.srv.URL }
func (r *RealServer) Close()      { r.srv.Close() }

// NewRealClient builds a connect client for cfg against the real server.
func NewRealClient(r *RealServer, cfg Cfg, extra ...connect.ClientOption) *connect.Client[BV, BV] {
	opts := append(cfg.ClientOptions(), extra...)
	return connect.NewClient[BV, BV](r.Client(), r.URL()+Procedure, opts...)
}

// Watchdog runs f with a generous wall-clock allowance; ok=false means f did
// not return (only ever used to end a run as non-exhaustive or to trigger a
// re-run, never as a verdict on its own).
func Watchdog(d time.Duration, f func()) (ok bool) {
	done := make(chan struct{})
	go func() {
		defer close(done)
		f()
	}()
	select {
	case <-done:
		return true
	case <-time.After(d):
		return false
	}
}
