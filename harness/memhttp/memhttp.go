// Package memhttp is an in-memory, *legal* HTTP environment: it implements
// connect.HTTPClient by running an http.Handler in another goroutine.  Every
// freedom a real net/http stack has that the library could observe is either
// a configuration dimension (request window, HTTP version, read segmentation,
// faults) or a schedulable event (Gate), never an accident of timing.
//
// Contract (mirrors documented net/http behaviour; see DESIGN.md section 2.3):
//   - response headers are snapshotted at the first WriteHeader/Write/Flush;
//   - the response body is an unbounded buffer (handler writes never block);
//   - the request body is delivered either lazily (server reads pull from the
//     client's pipe) or eagerly (a pump drains it into an unbounded buffer);
//   - when the handler returns, the transport closes the client's request
//     body (event "T.closeReq") and cancels the server context;
//   - on client context cancellation Do / body reads fail with ctx.Err(),
//     the request body is closed and the server context is cancelled;
//   - Response.Trailer is populated only once the client read hit EOF;
//   - the server-side request context never inherits the client's deadline.
package memhttp

import (
	"context"
	"errors"
	"fmt"
	"io"
	"net/http"
	"net/textproto"
	"net/url"
	"strconv"
	"strings"
	"sync"
)

// ReqMode selects how request-body bytes travel to the server.
type ReqMode int

const (
	ReqEager ReqMode = iota // pump goroutine, infinite window
	ReqLazy                 // rendezvous with the client's pipe, zero window
)

func (m ReqMode) String() string {
	if m == ReqLazy {
		return "lazy"
	}
	return "eager"
}

// Exchange is the raw record of one round trip.
type Exchange struct {
	mu sync.Mutex

	Method     string
	URL        string
	ReqProto   int
	ReqHeader  http.Header
	ReqBody    []byte // bytes the server side pulled from the client
	ReqEOF     bool   // server side saw the client's clean end of body
	Status     int
	WroteHdr   bool
	RespHeader http.Header // snapshot at first write
	RespBody   []byte
	RespTrail  http.Header
	Panic      any  // value recovered from the handler, if any
	Panicked   bool // true even for panic(nil)
	HandlerRan bool
	Done       bool // handler returned (or panicked)

	Delivered          bool   // Do returned a response to the client
	BodyCloses         int    // client called Response.Body.Close this many times
	ReqClosedBy        string // who closed the client's request pipe reader first
	ServerCtxCancelled bool
	AbortedByReqBody   bool // the exchange was aborted because reading the caller's request body failed
	// WindowFull is closed when the transport has taken ReqWindow bytes that the
	// handler has not read (the client's Write is then pending in mid-body).
	WindowFull     chan struct{}
	windowFullOnce sync.Once
	CancelDeferred bool // a cancellation arrived while the body sender was blocked in Read after the response was handed over
}

func (e *Exchange) IsDone() bool      { e.mu.Lock(); defer e.mu.Unlock(); return e.Done }
func (e *Exchange) Closes() int       { e.mu.Lock(); defer e.mu.Unlock(); return e.BodyCloses }
func (e *Exchange) GotResponse() bool { e.mu.Lock(); defer e.mu.Unlock(); return e.Delivered }

// WasCancelDeferred: the request context ended while the HTTP/2 body sender
// was blocked reading the caller's idle request body after the response had
// been handed over, so the transport did not notice it at that moment.
func (e *Exchange) WasCancelDeferred() bool {
	e.mu.Lock()
	defer e.mu.Unlock()
	return e.CancelDeferred
}

// Transport implements connect.HTTPClient.
type Transport struct {
	Handler http.Handler
	Proto   int // 1 or 2 (default 2)
	ReqMode ReqMode
	// Gate, if non-nil, is called before every visible membrane operation and
	// after every blocking wait (scheduler hook).
	Gate func(label string)
	// WrapRespBody / WrapReqBody wrap what the client / the handler reads.
	WrapRespBody func(io.ReadCloser) io.ReadCloser
	WrapReqBody  func(io.ReadCloser) io.ReadCloser
	// WrapRespWriter wraps the handler's ResponseWriter (write faults).
	WrapRespWriter func(http.ResponseWriter) http.ResponseWriter
	// MutateRequest lets a test rewrite the server-side request (method,
	// proto, headers) before it is served.
	MutateRequest func(*http.Request)
	// SyncCloseReq: close the client's request body synchronously when the
	// handler returns (sequential explorers).  Otherwise it is the separate
	// event thread "T.closeReq".
	SyncCloseReq bool
	// MutateURL makes Do rewrite the URL of the request it was handed after
	// recording it (as a routing / gateway HTTPClient may do with the request
	// that belongs to this one call): a later call must not see the rewrite.
	MutateURL bool
	// HoldTrailers: Response.Trailer is not filled in when the raw response
	// body reaches EOF but when PublishTrailers is called (a wrapper that loads
	// the body ahead of the caller's reads decides when the caller sees EOF).
	HoldTrailers bool
	// NoCloseReq: the transport neither reads on nor closes the request body
	// once the handler has returned (the RoundTripper contract only promises
	// that the body is closed eventually); used by hostile scenarios in which
	// nothing but the library itself can release a blocked Send.
	NoCloseReq bool
	// ReqWindow bounds, in eager mode, how many request bytes the transport
	// takes beyond what the handler has read (a finite flow-control window;
	// 0 = unbounded).  With a handler that does not read, the transport takes
	// exactly ReqWindow bytes and then leaves the client's Write pending.
	ReqWindow int
	// ReqChunk is the size of the transport's reads of the request body in
	// eager mode (default 32 KiB).  A small value makes the transport take each
	// message the client writes in several pieces, so that a close of the
	// request body can land in the middle of a Write.
	ReqChunk int
	// CauseFromDo: when the context ends before the response headers arrive,
	// Do fails with context.Cause(ctx) rather than ctx.Err(), as net/http's
	// HTTP/1.1 transport does (the two differ for contexts ended with a
	// caller-supplied cause).
	// UnbufferedResponse: every handler write reaches the peer at once (by
	// default writes go through a 4 KiB buffer as with net/http, and reach the
	// peer when it fills, on Flush and when the handler returns).
	UnbufferedResponse bool
	CauseFromDo        bool
	// PromptCancel restores an idealised transport that notices the end of the
	// request context at once in every state (HTTP/1.1 does; HTTP/2 does not
	// while its body sender is blocked reading an idle request body).
	PromptCancel bool
	// FailDo, if non-nil, makes Do fail with this error before any response
	// (connection refused / closed without an answer).
	FailDo error
	// OnReqClosed is told who closed the client's request body first.
	OnReqClosed func(who string)

	mu        sync.Mutex
	Exchanges []*Exchange
	calls     []*call
}

func (t *Transport) gate(label string) {
	if t.Gate != nil {
		t.Gate(label)
	}
}

// Last returns the most recent exchange (nil if none).
func (t *Transport) Last() *Exchange {
	t.mu.Lock()
	defer t.mu.Unlock()
	if len(t.Exchanges) == 0 {
		return nil
	}
	return t.Exchanges[len(t.Exchanges)-1]
}

// PublishTrailers fills in Response.Trailer of the most recent call (see HoldTrailers).
func (t *Transport) PublishTrailers() {
	t.mu.Lock()
	defer t.mu.Unlock()
	if len(t.calls) == 0 {
		return
	}
	c := t.calls[len(t.calls)-1]
	c.mu.Lock()
	defer c.mu.Unlock()
	if c.respEOFSeen || c.dropTrailers || c.response == nil {
		return
	}
	c.respEOFSeen = true
	c.ex.mu.Lock()
	tr := canonicalClone(c.ex.RespTrail)
	c.ex.mu.Unlock()
	for k, v := range tr {
		c.response.Trailer[k] = v
	}
}

// DropTrailers makes the most recent call deliver no HTTP trailers (a body cut
// by the transport never gets them).
func (t *Transport) DropTrailers() {
	t.mu.Lock()
	defer t.mu.Unlock()
	if len(t.calls) == 0 {
		return
	}
	c := t.calls[len(t.calls)-1]
	c.mu.Lock()
	c.dropTrailers = true
	if c.response != nil {
		// names announced in the Trailer header stay listed, with nil values
		// (that is what net/http leaves behind when the trailers never arrive)
		for k := range c.response.Trailer {
			c.response.Trailer[k] = nil
		}
	}
	c.mu.Unlock()
}

// BreakLast makes the most recent call's connection fail with err: the client
// sees a transport error on the response body, the server a broken request
// body, and the client's request pipe is closed with err.
func (t *Transport) BreakLast(err error) {
	t.mu.Lock()
	if len(t.calls) == 0 {
		t.mu.Unlock()
		return
	}
	c := t.calls[len(t.calls)-1]
	t.mu.Unlock()
	c.mu.Lock()
	c.dropTrailers = true
	c.mu.Unlock()
	c.resp.finish(err)
	if c.reqBuf != nil {
		c.reqBuf.finish(err)
	}
	if pr, ok := c.req.Body.(*io.PipeReader); ok {
		_ = pr.CloseWithError(err)
	}
}

// AbortAll tears every in-flight call down (used after a detected deadlock so
// that the bubble can be left).
func (t *Transport) AbortAll() {
	t.mu.Lock()
	calls := append([]*call(nil), t.calls...)
	t.mu.Unlock()
	for _, c := range calls {
		c.abort(errors.New("memhttp: aborted by harness"))
	}
}

// sbuf is an unbounded byte buffer with blocking reads that are durable
// blocks inside a synctest bubble (channel waits only).
type sbuf struct {
	mu     sync.Mutex
	data   []byte
	err    error // terminal condition once data is drained
	notify chan struct{}
}

func newSbuf() *sbuf { return &sbuf{notify: make(chan struct{})} }

func (b *sbuf) wake() {
	close(b.notify)
	b.notify = make(chan struct{})
}

func (b *sbuf) write(p []byte) {
	b.mu.Lock()
	if b.err == nil {
		b.data = append(b.data, p...)
		b.wake()
	}
	b.mu.Unlock()
}

// finish sets the terminal condition (io.EOF for a clean end).
func (b *sbuf) finish(err error) {
	b.mu.Lock()
	if b.err == nil {
		b.err = err
		b.wake()
	}
	b.mu.Unlock()
}

// breakWith discards buffered data and fails all reads.
func (b *sbuf) breakWith(err error) {
	b.mu.Lock()
	b.data = nil
	b.err = err
	b.wake()
	b.mu.Unlock()
}

// room blocks until fewer than limit bytes are buffered (or the buffer has a
// terminal condition) and returns how many more may be buffered.
func (b *sbuf) room(limit int, onFull func()) int {
	for {
		b.mu.Lock()
		if b.err != nil {
			b.mu.Unlock()
			return -1 // nobody will read any more
		}
		if len(b.data) < limit {
			n := limit - len(b.data)
			b.mu.Unlock()
			return n
		}
		ch := b.notify
		b.mu.Unlock()
		if onFull != nil {
			onFull()
		}
		<-ch
	}
}

// read blocks until data or a terminal condition is available.
func (b *sbuf) read(p []byte) (int, error) {
	for {
		b.mu.Lock()
		if len(b.data) > 0 {
			n := copy(p, b.data)
			b.data = b.data[n:]
			b.wake() // a bounded writer may be waiting for room
			b.mu.Unlock()
			return n, nil
		}
		if b.err != nil {
			err := b.err
			b.mu.Unlock()
			return 0, err
		}
		ch := b.notify
		b.mu.Unlock()
		<-ch
	}
}

type call struct {
	t   *Transport
	ex  *Exchange
	req *http.Request

	clientCtx    context.Context
	serverCancel context.CancelFunc

	resp      *sbuf // server -> client
	reqBuf    *sbuf // client -> server (eager mode)
	headReady chan struct{}
	headOnce  sync.Once
	done      chan struct{}

	mu           sync.Mutex
	liveHeader   http.Header
	status       int
	respEOFSeen  bool
	clientClosed bool
	response     *http.Response
	reqCloseOnce sync.Once
	stopAfter    func() bool
	dropTrailers bool
	selfClosed   bool // the transport itself closed the client's request body
	delivered    bool // Do has returned the response to the caller
	inBodyRead   bool // the request-body reader is inside Read on the caller's body
	// cancelPending: the context ended while the body reader was blocked in
	// Read after the response had been handed over; it takes effect when that
	// Read returns.
	cancelPending bool
	// respPending: response bytes the handler has written and net/http's
	// buffered writer has not passed on yet
	respPending []byte
	aborted     chan struct{}
	abortOnce   sync.Once
	abortErr    error
}

// reqBodyFailed: reading the request body the caller supplied failed under the
// transport although neither the transport closed it nor the call was
// cancelled (typically: the caller closed it while the transport was still
// sending).  Like net/http (HTTP/2: stream reset; HTTP/1: connection closed)
// the whole exchange is aborted: the handler's context is cancelled, Do fails
// if the response headers have not arrived, and unless the end of the response
// has already been received, reading the response body fails with that error
// once the data received so far is consumed.
func (c *call) reqBodyFailed(err error) {
	c.mu.Lock()
	self := c.selfClosed
	c.mu.Unlock()
	if self {
		return
	}
	c.abortOnce.Do(func() {
		c.ex.mu.Lock()
		c.ex.AbortedByReqBody = true
		c.ex.mu.Unlock()
		c.abortErr = err
		c.serverCancel()
		c.resp.finish(err)
		close(c.aborted)
	})
}

// applyCancel: the transport noticed that the request context is done.
func (c *call) applyCancel() {
	err := c.clientCtx.Err()
	c.ex.mu.Lock()
	c.ex.ServerCtxCancelled = true
	c.ex.mu.Unlock()
	c.serverCancel()
	c.resp.breakWith(err)
	if c.reqBuf != nil {
		c.reqBuf.breakWith(errors.New("memhttp: client disconnected"))
	}
	c.closeClientReqBody("cancel")
}

func (c *call) closeClientReqBody(who string) {
	c.mu.Lock()
	c.selfClosed = true
	c.mu.Unlock()
	c.reqCloseOnce.Do(func() {
		c.ex.mu.Lock()
		c.ex.ReqClosedBy = who
		c.ex.mu.Unlock()
		if c.t.OnReqClosed != nil {
			c.t.OnReqClosed(who)
		}
	})
	if c.req.Body != nil {
		_ = c.req.Body.Close()
	}
}

func (c *call) abort(err error) {
	c.serverCancel()
	c.resp.breakWith(err)
	if c.reqBuf != nil {
		c.reqBuf.breakWith(err)
	}
	c.closeClientReqBody("abort")
	c.headOnce.Do(func() { close(c.headReady) })
}

// Do implements connect.HTTPClient.
func (t *Transport) Do(req *http.Request) (*http.Response, error) {
	t.gate("T.Do")
	ctx := req.Context()
	urlErr := func(err error) error {
		return &url.Error{Op: "Post", URL: req.URL.String(), Err: err}
	}
	if err := ctx.Err(); err != nil {
		if req.Body != nil {
			_ = req.Body.Close()
		}
		return nil, urlErr(err)
	}
	if t.FailDo != nil {
		if req.Body != nil {
			_ = req.Body.Close()
		}
		return nil, urlErr(t.FailDo)
	}
	proto := t.Proto
	if proto == 0 {
		proto = 2
	}
	ex := &Exchange{
		Method:     req.Method,
		URL:        req.URL.String(),
		ReqProto:   proto,
		ReqHeader:  canonicalClone(req.Header),
		WindowFull: make(chan struct{}),
	}
	serverCtx, serverCancel := context.WithCancel(context.Background())
	c := &call{
		t: t, ex: ex, req: req,
		clientCtx:    ctx,
		serverCancel: serverCancel,
		resp:         newSbuf(),
		headReady:    make(chan struct{}),
		aborted:      make(chan struct{}),
		done:         make(chan struct{}),
		liveHeader:   make(http.Header),
	}
	t.mu.Lock()
	t.Exchanges = append(t.Exchanges, ex)
	t.calls = append(t.calls, c)
	t.mu.Unlock()
	if t.MutateURL && req.URL != nil {
		req.URL.Path += "/rewritten-by-the-http-client"
		req.URL.Host = "rewritten.invalid"
	}

	// Client cancellation: server context is cancelled, reads fail, request
	// body is closed (RoundTripper contract).
	c.stopAfter = context.AfterFunc(ctx, func() {
		// net/http's HTTP/2 transport watches the request context in RoundTrip
		// until it has handed over the response, and afterwards only from the
		// goroutine that sends the request body - which cannot look while it is
		// blocked in Read on an open, idle body.  (Measured on go1.23.5 and
		// go1.26.8: a Receive blocked on the response stays blocked after
		// cancel until the caller writes to or closes the request body.)
		c.mu.Lock()
		deferred := proto == 2 && !t.PromptCancel && c.delivered && c.inBodyRead
		if deferred {
			c.cancelPending = true
		}
		c.mu.Unlock()
		if deferred {
			c.ex.mu.Lock()
			c.ex.CancelDeferred = true
			c.ex.mu.Unlock()
			return
		}
		c.applyCancel()
	})

	sreq := &http.Request{
		Method:        req.Method,
		URL:           cloneURL(req.URL),
		Header:        canonicalClone(req.Header),
		Host:          req.URL.Host,
		RequestURI:    req.URL.RequestURI(),
		ContentLength: -1,
		RemoteAddr:    "memhttp",
	}
	setProto(sreq, proto)
	var serverBody io.ReadCloser
	if t.ReqMode == ReqEager {
		c.reqBuf = newSbuf()
		go c.pump()
		serverBody = &eagerReqBody{c: c}
	} else {
		serverBody = &lazyReqBody{c: c}
	}
	if t.WrapReqBody != nil {
		serverBody = t.WrapReqBody(serverBody)
	}
	sreq.Body = serverBody
	sreq = sreq.WithContext(serverCtx)
	if t.MutateRequest != nil {
		t.MutateRequest(sreq)
	}

	var rw http.ResponseWriter = &responseWriter{c: c}
	if t.WrapRespWriter != nil {
		rw = t.WrapRespWriter(rw)
	}
	go c.serve(rw, sreq)

	select {
	case <-c.headReady:
	case <-c.aborted:
	case <-ctx.Done():
	}
	// several of these may be ready at once: decide in a fixed order so that a
	// schedule replays identically (headers win; then the context; then an
	// exchange aborted because the request body failed)
	select {
	case <-c.headReady:
	default:
		if ctx.Err() != nil {
			t.gate("T.Do.ctxdone")
			if t.CauseFromDo {
				return nil, urlErr(context.Cause(ctx))
			}
			return nil, urlErr(ctx.Err())
		}
		t.gate("T.Do.aborted")
		return nil, urlErr(c.abortErr)
	}
	t.gate("T.Do.head")
	// The response headers won the race: like net/http, Do hands the response
	// over even if the context is cancelled at this very moment (later body
	// reads fail with the context's error).
	c.mu.Lock()
	status := c.status
	hdr := canonicalClone(withoutTrailerKeys(c.ex.RespHeader))
	c.mu.Unlock()
	var body io.ReadCloser = &respBody{c: c}
	if t.WrapRespBody != nil {
		body = t.WrapRespBody(body)
	}
	resp := &http.Response{
		Status:        fmt.Sprintf("%d %s", status, http.StatusText(status)),
		StatusCode:    status,
		Header:        hdr,
		Body:          body,
		ContentLength: -1,
		Request:       req,
		Trailer:       http.Header{},
	}
	// like net/http: trailer names announced in the Trailer header are present
	// in Response.Trailer from the start, with nil values until (and unless)
	// the trailers arrive
	for _, v := range hdr.Values("Trailer") {
		for _, name := range strings.Split(v, ",") {
			if name = textproto.CanonicalMIMEHeaderKey(strings.TrimSpace(name)); name != "" {
				resp.Trailer[name] = nil
			}
		}
	}
	if cl := hdr.Get("Content-Length"); cl != "" {
		if n, err := strconv.ParseInt(cl, 10, 64); err == nil && n >= 0 {
			resp.ContentLength = n
		}
	}
	resp.Proto, resp.ProtoMajor, resp.ProtoMinor = protoStrings(proto)
	c.mu.Lock()
	c.response = resp
	c.mu.Unlock()
	ex.mu.Lock()
	ex.Delivered = true
	ex.mu.Unlock()
	c.mu.Lock()
	c.delivered = true
	c.mu.Unlock()
	return resp, nil
}

func (c *call) serve(rw http.ResponseWriter, sreq *http.Request) {
	c.t.gate("T.serve")
	defer func() {
		// handler finished: flush headers, terminate the body, publish trailers.
		c.finishResponse()
		close(c.done)
		c.serverCancel()
		if c.reqBuf != nil && c.t.ReqWindow > 0 {
			c.reqBuf.finish(errors.New("memhttp: handler returned")) // releases a sender waiting for window
		}
		if c.t.NoCloseReq {
			// a transport that leaves the request body alone once the response is over
		} else if c.t.SyncCloseReq {
			c.closeClientReqBody("handler-done")
		} else {
			go func() {
				c.t.gate("T.closeReq")
				c.closeClientReqBody("handler-done")
			}()
		}
	}()
	defer func() {
		c.ex.mu.Lock()
		c.ex.Done = true
		c.ex.mu.Unlock()
	}()
	normal := false
	func() {
		defer func() {
			// Record panics exactly as net/http would see them, including the
			// abort sentinel and panic(nil) (detected through the flag).
			if !normal {
				r := recover()
				c.ex.mu.Lock()
				c.ex.Panicked = true
				c.ex.Panic = r
				c.ex.mu.Unlock()
			}
		}()
		c.ex.mu.Lock()
		c.ex.HandlerRan = true
		c.ex.mu.Unlock()
		c.t.Handler.ServeHTTP(rw, sreq)
		normal = true
	}()
}

func (c *call) finishResponse() {
	c.t.gate("T.finish")
	c.writeHeaderOnce(0)
	c.flushResp()
	c.mu.Lock()
	trailers := http.Header{}
	declared := map[string]bool{}
	for _, v := range c.ex.RespHeader.Values("Trailer") {
		for _, k := range strings.Split(v, ",") {
			declared[textproto.CanonicalMIMEHeaderKey(strings.TrimSpace(k))] = true
		}
	}
	for k, vs := range c.liveHeader {
		if strings.HasPrefix(k, http.TrailerPrefix) {
			name := textproto.CanonicalMIMEHeaderKey(strings.TrimPrefix(k, http.TrailerPrefix))
			trailers[name] = append(trailers[name], vs...)
			continue
		}
		ck := textproto.CanonicalMIMEHeaderKey(k)
		if declared[ck] {
			trailers[ck] = append(trailers[ck], vs...)
		}
	}
	c.ex.mu.Lock()
	panicked := c.ex.Panicked
	if !panicked {
		c.ex.RespTrail = trailers
	}
	c.ex.mu.Unlock()
	c.mu.Unlock()
	if panicked {
		// net/http aborts the response of a panicking handler: the client sees
		// a broken stream, never a clean end.
		c.resp.finish(io.ErrUnexpectedEOF)
		return
	}
	c.resp.finish(io.EOF)
}

func (c *call) writeHeaderOnce(status int) {
	c.mu.Lock()
	c.ex.mu.Lock()
	if !c.ex.WroteHdr {
		if status == 0 {
			status = 200
		}
		c.status = status
		c.ex.WroteHdr = true
		c.ex.Status = status
		c.ex.RespHeader = c.liveHeader.Clone()
	}
	c.ex.mu.Unlock()
	c.mu.Unlock()
	c.headOnce.Do(func() { close(c.headReady) })
}

func (c *call) pump() {
	size := 32 * 1024
	if c.t.ReqChunk > 0 {
		size = c.t.ReqChunk
	}
	buf := make([]byte, size)
	for {
		c.t.gate("T.pump")
		rbuf := buf
		if w := c.t.ReqWindow; w > 0 {
			room := c.reqBuf.room(w, func() { c.ex.windowFullOnce.Do(func() { close(c.ex.WindowFull) }) })
			if room < 0 {
				return // the handler is gone: the transport stops sending
			}
			if room < len(rbuf) {
				rbuf = buf[:room]
			}
			c.t.gate("T.pump.window")
		}
		c.mu.Lock()
		c.inBodyRead = true
		c.mu.Unlock()
		n, err := c.req.Body.Read(rbuf)
		c.mu.Lock()
		c.inBodyRead = false
		pending := c.cancelPending
		c.cancelPending = false
		c.mu.Unlock()
		if pending && (err == nil || err == io.EOF) {
			// back from Read: the sender looks at the context before it goes
			// on (a failed Read is returned first, see below)
			c.t.gate("T.pump.cancel")
			c.applyCancel()
			return
		}
		if n > 0 {
			c.ex.mu.Lock()
			c.ex.ReqBody = append(c.ex.ReqBody, buf[:n]...)
			c.ex.mu.Unlock()
			c.reqBuf.write(buf[:n])
		}
		if err == io.EOF && c.t.Gate != nil {
			// A goroutine blocked in Read observes the outcome when it runs
			// again, which may be arbitrarily later than the close that woke
			// it.  Under the scheduler that latency is a yield point: probe
			// again afterwards; a body whose read side was closed in the
			// meantime (io.Pipe then reports ErrClosedPipe, not EOF) is what a
			// late-waking transport would have seen.
			c.t.gate("T.pump.woke")
			if _, err2 := c.req.Body.Read(buf[:0]); err2 != nil && err2 != io.EOF {
				err = err2
			}
		}
		if err != nil {
			if err == io.EOF {
				c.ex.mu.Lock()
				c.ex.ReqEOF = true
				c.ex.mu.Unlock()
				c.reqBuf.finish(io.EOF)
			} else {
				c.reqBuf.finish(fmt.Errorf("memhttp: request body: %w", err))
				c.reqBodyFailed(err)
				if pending {
					// The context is done as well, but what aborts the stream - and
					// what reading the response body then reports - is the failed
					// read of the request body, as with net/http's HTTP/2 transport
					// (writeRequestBody returns the read error, cleanupWriteRequest
					// aborts the stream with it).
					c.ex.mu.Lock()
					c.ex.ServerCtxCancelled = true
					c.ex.mu.Unlock()
				}
			}
			return
		}
	}
}

type eagerReqBody struct {
	c      *call
	closed bool
}

func (b *eagerReqBody) Read(p []byte) (int, error) {
	b.c.t.gate("S.read")
	if b.closed {
		return 0, http.ErrBodyReadAfterClose
	}
	if len(p) == 0 {
		return 0, nil
	}
	n, err := b.c.reqBuf.read(p)
	b.c.t.gate("S.read.ret")
	return n, err
}

func (b *eagerReqBody) Close() error { b.closed = true; return nil }

type lazyReqBody struct {
	c      *call
	closed bool
}

func (b *lazyReqBody) Read(p []byte) (int, error) {
	b.c.t.gate("S.read")
	if b.closed {
		return 0, http.ErrBodyReadAfterClose
	}
	if len(p) == 0 {
		return 0, nil
	}
	if b.c.req.Body == nil {
		return 0, io.EOF
	}
	n, err := b.c.req.Body.Read(p)
	b.c.t.gate("S.read.ret")
	b.c.ex.mu.Lock()
	b.c.ex.ReqBody = append(b.c.ex.ReqBody, p[:n]...)
	if err == io.EOF {
		b.c.ex.ReqEOF = true
	}
	b.c.ex.mu.Unlock()
	if err != nil && err != io.EOF {
		// The client's pipe was closed by the transport (cancel / handler
		// done): the server sees a broken stream, never a clean EOF.
		b.c.reqBodyFailed(err)
		return n, fmt.Errorf("memhttp: request body: %w", err)
	}
	return n, err
}

func (b *lazyReqBody) Close() error { b.closed = true; return nil }

type responseWriter struct {
	c *call
}

func (w *responseWriter) Header() http.Header { return w.c.liveHeader }

func (w *responseWriter) WriteHeader(status int) {
	w.c.t.gate("S.writeHeader")
	w.c.writeHeaderOnce(status)
}

// respBufferSize is the size of the buffered writer that net/http puts between
// a handler and the connection (HTTP/1.1 and HTTP/2 alike): what a handler
// writes reaches the peer when that buffer fills, on Flush, and when the
// handler returns - not before.
const respBufferSize = 4096

func (w *responseWriter) Write(p []byte) (int, error) {
	w.c.t.gate("S.write")
	w.c.writeHeaderOnce(0)
	cp := append([]byte(nil), p...)
	w.c.ex.mu.Lock()
	w.c.ex.RespBody = append(w.c.ex.RespBody, cp...)
	w.c.ex.mu.Unlock()
	if w.c.t.UnbufferedResponse {
		w.c.resp.write(cp)
		return len(p), nil
	}
	// bufio.Writer.Write: fill and flush whole buffers (a large write into an
	// empty buffer goes straight through), keep the rest
	w.c.mu.Lock()
	for len(cp) > respBufferSize-len(w.c.respPending) {
		if len(w.c.respPending) == 0 {
			w.c.resp.write(cp)
			cp = nil
			break
		}
		n := respBufferSize - len(w.c.respPending)
		w.c.resp.write(append(w.c.respPending, cp[:n]...))
		w.c.respPending = nil
		cp = cp[n:]
	}
	w.c.respPending = append(w.c.respPending, cp...)
	w.c.mu.Unlock()
	return len(p), nil
}

// flushResp hands the buffered response bytes to the peer.
func (c *call) flushResp() {
	c.mu.Lock()
	pending := c.respPending
	c.respPending = nil
	c.mu.Unlock()
	if len(pending) > 0 {
		c.resp.write(pending)
	}
}

func (w *responseWriter) Flush() {
	w.c.t.gate("S.flush")
	w.c.writeHeaderOnce(0)
	w.c.flushResp()
}

type respBody struct {
	c *call
}

func (b *respBody) Read(p []byte) (int, error) {
	c := b.c
	c.t.gate("C.read")
	c.mu.Lock()
	closed := c.clientClosed
	c.mu.Unlock()
	if closed {
		return 0, errors.New("http: read on closed response body")
	}
	if len(p) == 0 {
		return 0, nil
	}
	n, err := c.resp.read(p)
	c.t.gate("C.read.ret")
	if err == io.EOF {
		c.mu.Lock()
		if !c.respEOFSeen && !c.dropTrailers && !c.t.HoldTrailers {
			c.respEOFSeen = true
			c.ex.mu.Lock()
			tr := canonicalClone(c.ex.RespTrail)
			c.ex.mu.Unlock()
			for k, v := range tr {
				c.response.Trailer[k] = v
			}
		}
		c.mu.Unlock()
	}
	return n, err
}

func (b *respBody) Close() error {
	c := b.c
	c.t.gate("C.close")
	c.mu.Lock()
	c.clientClosed = true
	eof := c.respEOFSeen
	c.mu.Unlock()
	c.ex.mu.Lock()
	c.ex.BodyCloses++
	c.ex.mu.Unlock()
	if !eof {
		// Closing before EOF resets the stream: the server context is
		// cancelled and the request body is closed.
		c.serverCancel()
		if c.reqBuf != nil {
			c.reqBuf.breakWith(errors.New("memhttp: client disconnected"))
		}
		c.closeClientReqBody("body-close")
	}
	return nil
}

func canonicalClone(h http.Header) http.Header {
	out := make(http.Header, len(h))
	for k, vs := range h {
		ck := textproto.CanonicalMIMEHeaderKey(k)
		for _, v := range vs {
			// field values travel without leading/trailing optional whitespace
			out[ck] = append(out[ck], strings.Trim(v, " \t"))
		}
	}
	return out
}

func withoutTrailerKeys(h http.Header) http.Header {
	out := make(http.Header, len(h))
	for k, vs := range h {
		if strings.HasPrefix(k, http.TrailerPrefix) {
			continue
		}
		out[k] = vs
	}
	return out
}

func cloneURL(u *url.URL) *url.URL {
	cp := *u
	return &cp
}

func setProto(r *http.Request, major int) {
	r.Proto, r.ProtoMajor, r.ProtoMinor = protoStrings(major)
}

func protoStrings(major int) (string, int, int) {
	switch major {
	case 1:
		return "HTTP/1.1", 1, 1
	case 10:
		return "HTTP/1.0", 1, 0
	default:
		return "HTTP/2.0", 2, 0
	}
}
