// Package props holds one explorer per property (Go test functions driven by
// environment variables, see ev) plus the shared scenario builders.
package props

import (
	"bytes"
	"compress/gzip"
	"context"
	"errors"
	"fmt"
	"io"
	"net/http"
	"sort"
	"strings"

	connect "github.com/bufbuild/connect-go"
	"google.golang.org/protobuf/encoding/protowire"
	"google.golang.org/protobuf/reflect/protoreflect"
	"google.golang.org/protobuf/types/known/wrapperspb"

	"verifharness/memhttp"
)

// BV is the message type of every harness RPC: its zero value encodes to zero
// bytes (proto) and any encoded size except 1 is constructible.
type BV = wrapperspb.BytesValue

type Proto int

const (
	PConnect Proto = iota
	PGRPC
	PGRPCWeb
)

var AllProtos = []Proto{PConnect, PGRPC, PGRPCWeb}

func (p Proto) String() string { return [...]string{"connect", "grpc", "grpcweb"}[p] }

type Kind int

const (
	KUnary Kind = iota
	KClient
	KServer
	KBidi
)

var AllKinds = []Kind{KUnary, KClient, KServer, KBidi}

func (k Kind) String() string { return [...]string{"unary", "client", "server", "bidi"}[k] }

// ClientStreams / ServerStreams: may the side send other than exactly one message?
func (k Kind) ClientStreams() bool { return k == KClient || k == KBidi }
func (k Kind) ServerStreams() bool { return k == KServer || k == KBidi }

const Procedure = "/verif.v1.Svc/Do"
const BaseURL = "http://mem.test"

// Comp names a compression configuration.
type Comp string

const (
	CompNone     Comp = "none"     // client accepts nothing, sends identity; handler still has gzip
	CompDefault  Comp = "default"  // library defaults: client accepts gzip, sends identity
	CompSendGzip Comp = "sendgzip" // client sends gzip
	CompSendMin  Comp = "sendmin"  // client sends gzip, both sides compress-min-bytes = MinBytes
	CompCustom   Comp = "custom"   // algorithm "rev1" on both sides, client sends it
	// CompAsym: the two sides have different custom algorithms whose names
	// contain one another ("rev" on the handler, "rev1" on the client) and share
	// gzip; the client sends identity, so the response encoding is negotiated
	// from its accept list and the only common one is gzip.
	CompAsym Comp = "asym"
	MinBytes      = 64
)

var AllComps = []Comp{CompDefault, CompSendGzip, CompSendMin, CompCustom}

// Cfg is one point of the configuration space.
type Cfg struct {
	Proto   Proto           `json:"proto"`
	JSON    bool            `json:"json"`
	Comp    Comp            `json:"comp"`
	Kind    Kind            `json:"kind"`
	HTTP    int             `json:"http"` // 1 or 2
	ReqMode memhttp.ReqMode `json:"req_mode"`
	// Chunk: the transport hands over request and response bodies in reads of
	// at most this many bytes (0 = whatever the reader asks for).
	Chunk int `json:"chunk,omitempty"`
	// ReadMax: both sides carry WithReadMaxBytes(ReadMax) (0 = no limit).
	ReadMax int `json:"read_max,omitempty"`
}

func (c Cfg) String() string {
	codec := "proto"
	if c.JSON {
		codec = "json"
	}
	if c.Chunk > 0 {
		return fmt.Sprintf("%s/%s/%s/%s/h%d/%s/chunk%d", c.Proto, codec, c.Comp, c.Kind, c.HTTP, c.ReqMode, c.Chunk)
	}
	if c.ReadMax > 0 {
		return fmt.Sprintf("%s/%s/%s/%s/h%d/%s/readmax%d", c.Proto, codec, c.Comp, c.Kind, c.HTTP, c.ReqMode, c.ReadMax)
	}
	return fmt.Sprintf("%s/%s/%s/%s/h%d/%s", c.Proto, codec, c.Comp, c.Kind, c.HTTP, c.ReqMode)
}

// chunkRC limits every Read of the wrapped body to n bytes (short reads are
// always legal for an io.Reader; real transports produce them at frame and
// buffer boundaries).
type chunkRC struct {
	io.ReadCloser
	n int
}

func (c chunkRC) Read(p []byte) (int, error) {
	if len(p) > c.n {
		p = p[:c.n]
	}
	return c.ReadCloser.Read(p)
}

// ChunkBodies makes tr hand over both bodies in reads of at most n bytes.
func ChunkBodies(tr *memhttp.Transport, n int) {
	if n <= 0 {
		return
	}
	tr.WrapRespBody = func(rc io.ReadCloser) io.ReadCloser { return chunkRC{rc, n} }
	tr.WrapReqBody = func(rc io.ReadCloser) io.ReadCloser { return chunkRC{rc, n} }
}

// Tags are the deviation tags used by known-finding signatures.
func (c Cfg) Tags() []string {
	codec := "proto"
	if c.JSON {
		codec = "json"
	}
	return []string{"proto=" + c.Proto.String(), "codec=" + codec, "kind=" + c.Kind.String()}
}

func (c Cfg) Valid() bool {
	if c.Kind == KBidi && c.HTTP != 2 {
		return false
	}
	return true
}

// xorCompressor is a trivial "custom algorithm": a magic byte followed by the
// payload XOR 0x5A, so that data decoded with the wrong algorithm never
// decodes by accident.
type xorCompressor struct {
	magic byte
	w     io.Writer
	wrote bool
}

// AlgGate, when set, is called inside the custom algorithm's methods: under
// the controlled scheduler they are yield points in "user code", so that the
// library's handling of pooled compressors / decompressors is interleaved with
// their use by another call.
var AlgGate func(string)

func algYield(label string) {
	if g := AlgGate; g != nil {
		g(label)
	}
}

func (x *xorCompressor) Write(p []byte) (int, error) {
	algYield("xor.write")
	if !x.wrote {
		x.wrote = true
		if _, err := x.w.Write([]byte{x.magic}); err != nil {
			return 0, err
		}
	}
	out := make([]byte, len(p))
	for i, b := range p {
		out[i] = b ^ 0x5A
	}
	if _, err := x.w.Write(out); err != nil {
		return 0, err
	}
	return len(p), nil
}

func (x *xorCompressor) Close() error {
	if !x.wrote {
		x.wrote = true
		_, err := x.w.Write([]byte{x.magic})
		return err
	}
	return nil
}
func (x *xorCompressor) Reset(w io.Writer) { algYield("xor.creset"); x.w = w; x.wrote = false }

type xorDecompressor struct {
	magic   byte
	r       io.Reader
	started bool
	// strict: Reset consumes and checks the magic at once (as gzip and zlib
	// readers parse their header in Reset), so resetting to an empty source
	// fails with io.ErrUnexpectedEOF
	strict bool
}

func (x *xorDecompressor) Read(p []byte) (int, error) {
	algYield("xor.read")
	if x.r == nil {
		return 0, io.EOF
	}
	if !x.started {
		var m [1]byte
		if _, err := io.ReadFull(x.r, m[:]); err != nil {
			if err == io.EOF {
				return 0, io.ErrUnexpectedEOF
			}
			return 0, err
		}
		if m[0] != x.magic {
			return 0, fmt.Errorf("xor%02x: bad magic %02x", x.magic, m[0])
		}
		x.started = true
	}
	n, err := x.r.Read(p)
	for i := 0; i < n; i++ {
		p[i] ^= 0x5A
	}
	return n, err
}
func (x *xorDecompressor) Close() error { algYield("xor.close"); return nil }
func (x *xorDecompressor) Reset(r io.Reader) error {
	algYield("xor.reset")
	x.r = r
	x.started = false
	if x.strict {
		var m [1]byte
		if _, err := io.ReadFull(r, m[:]); err != nil {
			if err == io.EOF {
				return io.ErrUnexpectedEOF
			}
			return err
		}
		if m[0] != x.magic {
			return fmt.Errorf("xor%02x: bad magic %02x", x.magic, m[0])
		}
		x.started = true
	}
	return nil
}

// XorAlg returns constructors for the custom algorithm with the given magic.
func XorAlg(magic byte) (func() connect.Decompressor, func() connect.Compressor) {
	// the algorithm with magic 0xA2 parses its header eagerly (see strict)
	return func() connect.Decompressor { return &xorDecompressor{magic: magic, strict: magic == 0xA2} },
		func() connect.Compressor { return &xorCompressor{magic: magic} }
}

// XorEncode / XorDecode are the reference implementation used by oracles.
func XorEncode(magic byte, p []byte) []byte {
	out := []byte{magic}
	for _, b := range p {
		out = append(out, b^0x5A)
	}
	return out
}

func XorDecode(magic byte, p []byte) ([]byte, error) {
	if len(p) == 0 || p[0] != magic {
		return nil, errors.New("bad magic")
	}
	out := make([]byte, 0, len(p)-1)
	for _, b := range p[1:] {
		out = append(out, b^0x5A)
	}
	return out, nil
}

func Gzip(p []byte) []byte {
	var buf bytes.Buffer
	w := gzip.NewWriter(&buf)
	_, _ = w.Write(p)
	_ = w.Close()
	return buf.Bytes()
}

func Gunzip(p []byte) ([]byte, error) {
	r, err := gzip.NewReader(bytes.NewReader(p))
	if err != nil {
		return nil, err
	}
	return io.ReadAll(r)
}

// ClientOptions for a configuration.
func (c Cfg) ClientOptions() []connect.ClientOption {
	var opts []connect.ClientOption
	switch c.Proto {
	case PGRPC:
		opts = append(opts, connect.WithGRPC())
	case PGRPCWeb:
		opts = append(opts, connect.WithGRPCWeb())
	}
	if c.JSON {
		opts = append(opts, connect.WithProtoJSON())
	}
	if c.ReadMax > 0 {
		opts = append(opts, connect.WithReadMaxBytes(c.ReadMax))
	}
	switch c.Comp {
	case CompSendGzip:
		opts = append(opts, connect.WithSendGzip())
	case CompSendMin:
		opts = append(opts, connect.WithSendGzip(), connect.WithCompressMinBytes(MinBytes))
	case CompCustom:
		d, co := XorAlg(0xA1)
		opts = append(opts, connect.WithAcceptCompression("rev1", d, co), connect.WithSendCompression("rev1"))
	case CompAsym:
		d, co := XorAlg(0xA1)
		opts = append(opts, connect.WithAcceptCompression("rev1", d, co))
	}
	return opts
}

// HandlerOptions for a configuration.
func (c Cfg) HandlerOptions() []connect.HandlerOption {
	var opts []connect.HandlerOption
	if c.ReadMax > 0 {
		opts = append(opts, connect.WithReadMaxBytes(c.ReadMax))
	}
	switch c.Comp {
	case CompSendMin:
		opts = append(opts, connect.WithCompressMinBytes(MinBytes))
	case CompCustom:
		d, co := XorAlg(0xA1)
		opts = append(opts, connect.WithCompression("rev1", d, co))
	case CompAsym:
		d, co := XorAlg(0xA3)
		opts = append(opts, connect.WithCompression("rev", d, co))
	}
	return opts
}

// HStream is the handler's view of a call, uniform over the four RPC kinds.
type HStream interface {
	// Receive returns the next request message; an error wrapping io.EOF at
	// the end of the request stream.
	Receive() (*BV, error)
	Send(*BV) error
	RequestHeader() http.Header
	ResponseHeader() http.Header
	ResponseTrailer() http.Header
	Spec() connect.Spec
}

// HFunc is a handler program.
type HFunc func(ctx context.Context, s HStream) error

// errEOF is what unary/server adapters return after the single request.
var errEOF = connect.NewError(connect.CodeUnknown, io.EOF)

type unaryH struct {
	req        *connect.Request[BV]
	taken      bool
	resp       *BV
	hdr, trail http.Header
}

func (u *unaryH) Receive() (*BV, error) {
	if u.taken {
		return nil, errEOF
	}
	u.taken = true
	return u.req.Msg, nil
}
func (u *unaryH) Send(m *BV) error             { u.resp = m; return nil }
func (u *unaryH) RequestHeader() http.Header   { return u.req.Header() }
func (u *unaryH) ResponseHeader() http.Header  { return u.hdr }
func (u *unaryH) ResponseTrailer() http.Header { return u.trail }
func (u *unaryH) Spec() connect.Spec           { return u.req.Spec() }

type clientH struct {
	s          *connect.ClientStream[BV]
	resp       *BV
	hdr, trail http.Header
}

func (c *clientH) Receive() (*BV, error) {
	if c.s.Receive() {
		// Copy: Msg() is documented to be overwritten by the next Receive.
		m := c.s.Msg()
		cp := &BV{Value: append([]byte(nil), m.Value...)}
		if u := m.ProtoReflect().GetUnknown(); len(u) > 0 {
			cp.ProtoReflect().SetUnknown(append(protoreflect.RawFields(nil), u...))
		}
		return cp, nil
	}
	if err := c.s.Err(); err != nil {
		return nil, err
	}
	return nil, errEOF
}

// FinalErr is what the library's stream reports as its error right now.
func (c *clientH) FinalErr() error { return c.s.Err() }

func (c *clientH) Send(m *BV) error             { c.resp = m; return nil }
func (c *clientH) RequestHeader() http.Header   { return c.s.RequestHeader() }
func (c *clientH) ResponseHeader() http.Header  { return c.hdr }
func (c *clientH) ResponseTrailer() http.Header { return c.trail }
func (c *clientH) Spec() connect.Spec           { return connect.Spec{} }

type serverH struct {
	req   *connect.Request[BV]
	taken bool
	s     *connect.ServerStream[BV]
}

func (s *serverH) Receive() (*BV, error) {
	if s.taken {
		return nil, errEOF
	}
	s.taken = true
	return s.req.Msg, nil
}
func (s *serverH) Send(m *BV) error             { return s.s.Send(m) }
func (s *serverH) RequestHeader() http.Header   { return s.req.Header() }
func (s *serverH) ResponseHeader() http.Header  { return s.s.ResponseHeader() }
func (s *serverH) ResponseTrailer() http.Header { return s.s.ResponseTrailer() }
func (s *serverH) Spec() connect.Spec           { return s.req.Spec() }

type bidiH struct {
	s *connect.BidiStream[BV, BV]
}

func (b *bidiH) Receive() (*BV, error)        { return b.s.Receive() }
func (b *bidiH) Send(m *BV) error             { return b.s.Send(m) }
func (b *bidiH) RequestHeader() http.Header   { return b.s.RequestHeader() }
func (b *bidiH) ResponseHeader() http.Header  { return b.s.ResponseHeader() }
func (b *bidiH) ResponseTrailer() http.Header { return b.s.ResponseTrailer() }
func (b *bidiH) Spec() connect.Spec           { return connect.Spec{} }

// NewHandler builds a real connect.Handler of the given kind running f.
func NewHandler(kind Kind, f HFunc, opts ...connect.HandlerOption) *connect.Handler {
	return NewHandlerAt(Procedure, kind, f, opts...)
}

// NewHandlerAt is NewHandler with the procedure spelled as given (hand-written
// constructors may pass a prefixed path or a URL; the library canonicalises).
func NewHandlerAt(Procedure string, kind Kind, f HFunc, opts ...connect.HandlerOption) *connect.Handler {
	switch kind {
	case KUnary:
		return connect.NewUnaryHandler(Procedure, func(ctx context.Context, req *connect.Request[BV]) (*connect.Response[BV], error) {
			u := &unaryH{req: req, hdr: http.Header{}, trail: http.Header{}}
			if err := f(ctx, u); err != nil {
				return nil, err
			}
			if u.resp == nil {
				u.resp = &BV{}
			}
			res := connect.NewResponse(u.resp)
			mergeInto(res.Header(), u.hdr)
			mergeInto(res.Trailer(), u.trail)
			return res, nil
		}, opts...)
	case KClient:
		return connect.NewClientStreamHandler(Procedure, func(ctx context.Context, s *connect.ClientStream[BV]) (*connect.Response[BV], error) {
			c := &clientH{s: s, hdr: http.Header{}, trail: http.Header{}}
			if err := f(ctx, c); err != nil {
				return nil, err
			}
			if c.resp == nil {
				c.resp = &BV{}
			}
			res := connect.NewResponse(c.resp)
			mergeInto(res.Header(), c.hdr)
			mergeInto(res.Trailer(), c.trail)
			return res, nil
		}, opts...)
	case KServer:
		return connect.NewServerStreamHandler(Procedure, func(ctx context.Context, req *connect.Request[BV], s *connect.ServerStream[BV]) error {
			return f(ctx, &serverH{req: req, s: s})
		}, opts...)
	default:
		return connect.NewBidiStreamHandler(Procedure, func(ctx context.Context, s *connect.BidiStream[BV, BV]) error {
			return f(ctx, &bidiH{s: s})
		}, opts...)
	}
}

func mergeInto(into, from http.Header) {
	for k, vs := range from {
		into[k] = append(into[k], vs...)
	}
}

// NewClient builds a real connect.Client over tr.
func NewClient(tr connect.HTTPClient, cfg Cfg, extra ...connect.ClientOption) *connect.Client[BV, BV] {
	opts := append(cfg.ClientOptions(), extra...)
	return connect.NewClient[BV, BV](tr, BaseURL+Procedure, opts...)
}

// CallResult is what a client observed for one whole call.
type CallResult struct {
	Msgs [][]byte
	// EndErr is the error value with which a streaming Receive reported the
	// clean end of the stream (it wraps io.EOF and is handed to user code).
	EndErr  error
	Err     error // terminal error (nil = clean end)
	Header  http.Header
	Trailer http.Header
}

// RunCall drives one complete call of cfg.Kind through the public API: sends
// reqs (exactly one for unary/server kinds), closes the request side, receives
// until the end.  hdr is attached to the request.
func RunCall(ctx context.Context, cl *connect.Client[BV, BV], kind Kind, reqs [][]byte, hdr http.Header) CallResult {
	var out CallResult
	mk := MkMsg
	switch kind {
	case KUnary:
		req := connect.NewRequest(mk(reqs[0]))
		mergeInto(req.Header(), hdr)
		res, err := cl.CallUnary(ctx, req)
		if err != nil {
			out.Err = err
			return out
		}
		out.Msgs = append(out.Msgs, MsgBytes(res.Msg))
		out.Header, out.Trailer = res.Header(), res.Trailer()
	case KClient:
		s := cl.CallClientStream(ctx)
		mergeInto(s.RequestHeader(), hdr)
		for _, p := range reqs {
			if err := s.Send(mk(p)); err != nil {
				if errors.Is(err, io.EOF) {
					break
				}
				out.Err = err
				_, _ = s.CloseAndReceive() // never abandon a stream: closing it is the caller's part of the contract
				return out
			}
		}
		res, err := s.CloseAndReceive()
		if err != nil {
			out.Err = err
			return out
		}
		out.Msgs = append(out.Msgs, MsgBytes(res.Msg))
		out.Header, out.Trailer = res.Header(), res.Trailer()
	case KServer:
		req := connect.NewRequest(mk(reqs[0]))
		mergeInto(req.Header(), hdr)
		s, err := cl.CallServerStream(ctx, req)
		if err != nil {
			out.Err = err
			return out
		}
		for s.Receive() {
			out.Msgs = append(out.Msgs, MsgBytes(s.Msg()))
		}
		out.Err = s.Err()
		out.Header, out.Trailer = s.ResponseHeader(), s.ResponseTrailer()
		if err := s.Close(); err != nil && out.Err == nil {
			out.Err = err
		}
	case KBidi:
		s := cl.CallBidiStream(ctx)
		mergeInto(s.RequestHeader(), hdr)
		for _, p := range reqs {
			if err := s.Send(mk(p)); err != nil {
				if errors.Is(err, io.EOF) {
					break
				}
				out.Err = err
				_ = s.CloseRequest()
				_ = s.CloseResponse()
				return out
			}
		}
		if err := s.CloseRequest(); err != nil {
			out.Err = err
			_ = s.CloseResponse()
			return out
		}
		for {
			m, err := s.Receive()
			if err != nil {
				if !errors.Is(err, io.EOF) {
					out.Err = err
				} else {
					out.EndErr = err
				}
				break
			}
			out.Msgs = append(out.Msgs, MsgBytes(m))
		}
		out.Header, out.Trailer = s.ResponseHeader(), s.ResponseTrailer()
		if err := s.CloseResponse(); err != nil && out.Err == nil {
			out.Err = err
		}
	}
	return out
}

func cloneBytes(b []byte) []byte { return append([]byte{}, b...) }

// UnknownMark as first payload byte makes MkMsg build a message that also
// carries fields the BytesValue type does not declare (a relay forwarding a
// newer peer's message): the binary codec must carry them across, protojson
// cannot represent them.
const UnknownMark = 0xFE

func unknownFieldsFor(p []byte) []byte {
	var u []byte
	u = protowire.AppendTag(u, 15, protowire.VarintType)
	u = protowire.AppendVarint(u, uint64(300+len(p)))
	u = protowire.AppendTag(u, 16, protowire.BytesType)
	u = protowire.AppendBytes(u, []byte("uk"))
	return u
}

// TailMark as first payload byte (followed by a big-endian uint32) makes MkMsg
// build a message whose binary encoding has exactly that many bytes: the
// 8-byte payload followed by a run of two-byte unknown fields.  Every prefix of
// the encoding that ends between two of them is itself a valid message — the
// kind of message for which a truncated envelope is not caught by the codec.
const TailMark = 0xFD

// TailPayload is the payload of the message whose encoding has total bytes (even, >= 12).
func TailPayload(total int) []byte {
	return []byte{TailMark, byte(total >> 24), byte(total >> 16), byte(total >> 8), byte(total), 't', 'l', '!'}
}

// MkMsg builds the message for payload p.
func MkMsg(p []byte) *BV {
	m := &BV{Value: p}
	switch {
	case len(p) > 0 && p[0] == UnknownMark:
		m.ProtoReflect().SetUnknown(unknownFieldsFor(p))
	case len(p) == 8 && p[0] == TailMark:
		total := int(p[1])<<24 | int(p[2])<<16 | int(p[3])<<8 | int(p[4])
		u := make([]byte, 0, total-10)
		for len(u)+2 <= total-10 {
			u = append(u, 15<<3, 1) // field 15, varint 1
		}
		m.ProtoReflect().SetUnknown(u)
	}
	return m
}

// MsgBytes is the observation of a received message: its payload, followed by
// its unknown fields if it has any.
func MsgBytes(m *BV) []byte {
	out := cloneBytes(m.Value)
	if u := m.ProtoReflect().GetUnknown(); len(u) > 0 {
		out = append(append(out, "|U|"...), u...)
	}
	return out
}

// ExpectMsg is what the receiver of MkMsg(p) must observe under the codec.
func ExpectMsg(p []byte, json bool) []byte {
	if len(p) > 0 && p[0] == UnknownMark && !json {
		return append(append(cloneBytes(p), "|U|"...), unknownFieldsFor(p)...)
	}
	return p
}

// ExpectMsgs maps ExpectMsg over a sequence.
func ExpectMsgs(ps [][]byte, json bool) [][]byte {
	out := make([][]byte, len(ps))
	for i, p := range ps {
		out[i] = ExpectMsg(p, json)
	}
	return out
}

// Payload builds a payload whose *proto encoding* (BytesValue) has exactly
// encSize bytes (encSize 0 = zero value; encSize 1 is not constructible and
// yields size 2).  fill varies content so payloads are pairwise distinct.
func Payload(encSize int, fill byte) []byte {
	if encSize <= 0 {
		return nil
	}
	// encoding: tag(1) + varint(len) + len bytes
	for l := encSize; l >= 0; l-- {
		if 1+varintLen(l)+l == encSize {
			return fillBytes(l, fill)
		}
		if 1+varintLen(l)+l < encSize {
			break
		}
	}
	return fillBytes(1, fill)
}

func fillBytes(n int, fill byte) []byte {
	out := make([]byte, n)
	for i := range out {
		out[i] = fill + byte(i*7)
	}
	return out
}

func varintLen(n int) int {
	l := 1
	for n >= 0x80 {
		n >>= 7
		l++
	}
	return l
}

// EncSize is the proto-encoded size of a BytesValue with this payload.
func EncSize(p []byte) int {
	if len(p) == 0 {
		return 0
	}
	return 1 + varintLen(len(p)) + len(p)
}

// CodeOfErr returns the connect code of err (0 when err is not a *connect.Error).
func CodeOfErr(err error) connect.Code {
	var ce *connect.Error
	if errors.As(err, &ce) {
		return ce.Code()
	}
	return 0
}

// HeaderSubset reports whether every key/value of want occurs in got, in
// per-key order (got may hold more values).
func HeaderSubset(want, got http.Header) (string, bool) {
	keys := make([]string, 0, len(want))
	for k := range want {
		keys = append(keys, k)
	}
	sort.Strings(keys)
	for _, k := range keys {
		gv := got.Values(k)
		i := 0
		for _, w := range want[k] {
			found := false
			for i < len(gv) {
				if gv[i] == w {
					found = true
					i++
					break
				}
				i++
			}
			if !found {
				return fmt.Sprintf("%s: want %q in order within %q", k, want[k], gv), false
			}
		}
	}
	return "", true
}

func shortBytes(b []byte) string {
	if len(b) <= 12 {
		return fmt.Sprintf("%x", b)
	}
	return fmt.Sprintf("%x..(%d)", b[:8], len(b))
}

func shortMsgs(ms [][]byte) string {
	parts := make([]string, len(ms))
	for i, m := range ms {
		parts[i] = shortBytes(m)
	}
	return "[" + strings.Join(parts, " ") + "]"
}

// AnyDecompress is the reference decompressor for every algorithm the
// harness registers (gzip and the magic-byte XOR codecs).
func AnyDecompress(alg string, p []byte) ([]byte, error) {
	switch alg {
	case "", "identity":
		return p, nil
	case "gzip", "gz2": // gz2: gzip registered under a second name (C09 shared-option)
		return Gunzip(p)
	case "alg1":
		return XorDecode(0xA1, p)
	case "alg2":
		return XorDecode(0xA2, p)
	case "alg3":
		return XorDecode(0xA3, p)
	case "rev1":
		return XorDecode(0xA1, p)
	case "rev":
		return XorDecode(0xA3, p)
	case "rle":
		var out []byte
		for len(p) >= 5 {
			n := int(p[0])<<24 | int(p[1])<<16 | int(p[2])<<8 | int(p[3])
			if n > 64<<20 {
				return nil, errors.New("rle: run too long for the reference")
			}
			out = append(out, bytes.Repeat([]byte{p[4]}, n)...)
			p = p[5:]
		}
		if len(p) != 0 {
			return nil, errors.New("rle: truncated pair")
		}
		return out, nil
	}
	return nil, fmt.Errorf("reference has no algorithm %q", alg)
}

// Run-length "compression" (algorithm name "rle"): the compressed form is a
// sequence of (count uint32 big-endian, byte) pairs.  Unlike DEFLATE it has no
// bound on its expansion ratio: a handful of bytes inflate to any size.

// RLEEncode is the reference encoder.
func RLEEncode(p []byte) []byte {
	var out []byte
	for i := 0; i < len(p); {
		j := i
		for j < len(p) && p[j] == p[i] {
			j++
		}
		n := j - i
		out = append(out, byte(n>>24), byte(n>>16), byte(n>>8), byte(n), p[i])
		i = j
	}
	return out
}

type rleDecompressor struct {
	src   io.Reader
	left  int
	b     byte
	fatal error
}

func (r *rleDecompressor) Read(p []byte) (int, error) {
	if r.fatal != nil {
		return 0, r.fatal
	}
	n := 0
	for n < len(p) {
		if r.left == 0 {
			var pair [5]byte
			if _, err := io.ReadFull(r.src, pair[:]); err != nil {
				if err == io.EOF && n > 0 {
					return n, nil
				}
				if err == io.ErrUnexpectedEOF {
					r.fatal = errors.New("rle: truncated pair")
					err = r.fatal
				}
				return n, err
			}
			r.left = int(pair[0])<<24 | int(pair[1])<<16 | int(pair[2])<<8 | int(pair[3])
			r.b = pair[4]
			continue
		}
		k := len(p) - n
		if k > r.left {
			k = r.left
		}
		for i := 0; i < k; i++ {
			p[n+i] = r.b
		}
		n += k
		r.left -= k
	}
	return n, nil
}
func (r *rleDecompressor) Close() error { return nil }
func (r *rleDecompressor) Reset(src io.Reader) error {
	r.src, r.left, r.fatal = src, 0, nil
	return nil
}

type rleCompressor struct {
	w   io.Writer
	buf []byte
}

func (r *rleCompressor) Write(p []byte) (int, error) { r.buf = append(r.buf, p...); return len(p), nil }
func (r *rleCompressor) Close() error {
	_, err := r.w.Write(RLEEncode(r.buf))
	r.buf = r.buf[:0]
	return err
}
func (r *rleCompressor) Reset(w io.Writer) { r.w, r.buf = w, r.buf[:0] }

// RLEAlg returns the constructors of the run-length algorithm.
func RLEAlg() (func() connect.Decompressor, func() connect.Compressor) {
	return func() connect.Decompressor { return &rleDecompressor{} }, func() connect.Compressor { return &rleCompressor{} }
}
