package refwire

import (
	"bytes"
	"compress/gzip"
	"encoding/base64"
	"encoding/json"
	"fmt"
	"io"
	"net/http"
	"net/textproto"
	"strconv"
	"strings"

	"google.golang.org/protobuf/encoding/protowire"
)

// Protocol selects the wire format.
type Protocol int

const (
	Connect Protocol = iota
	GRPC
	GRPCWeb
)

func (p Protocol) String() string { return [...]string{"connect", "grpc", "grpcweb"}[p] }

// CodeNames are the 16 lower_snake code names of the Connect protocol.
var CodeNames = []string{"", "canceled", "unknown", "invalid_argument", "deadline_exceeded", "not_found", "already_exists",
	"permission_denied", "resource_exhausted", "failed_precondition", "aborted", "out_of_range", "unimplemented",
	"internal", "unavailable", "data_loss", "unauthenticated"}

func CodeFromName(name string) (int, bool) {
	for i, n := range CodeNames {
		if i > 0 && n == name {
			return i, true
		}
	}
	return 0, false
}

// ConnectHTTPStatus is the code -> HTTP status table for unary Connect errors.
var ConnectHTTPStatus = map[int]int{1: 408, 2: 500, 3: 400, 4: 408, 5: 404, 6: 409, 7: 403, 8: 429, 9: 412, 10: 409, 11: 400, 12: 404, 13: 500, 14: 503, 15: 500, 16: 401}

// Detail is one error detail (an Any): type URL and serialized value.
type Detail struct {
	TypeURL string
	Value   []byte
}

// End is how a response terminated.
type End struct {
	Present bool // a protocol terminator was found
	Code    int  // 0 = success
	Message string
	Details []Detail
	Meta    http.Header // trailing metadata carried by the terminator (keys canonicalised)
}

// Response is the strict decoding of a complete HTTP response.
type Response struct {
	Msgs       [][]byte // message payloads after decompression
	Compressed []bool
	End        End
	Header     http.Header // leading metadata (protocol headers included)
	// Problems lists every deviation from the protocol documents.
	Problems []string
}

func (r *Response) problem(format string, args ...any) {
	r.Problems = append(r.Problems, fmt.Sprintf(format, args...))
}

// Decompressor decodes one message with the named algorithm.
type Decompressor func(alg string, p []byte) ([]byte, error)

// DefaultDecompress knows identity and gzip.
func DefaultDecompress(alg string, p []byte) ([]byte, error) {
	switch alg {
	case "", "identity":
		return p, nil
	case "gzip":
		r, err := gzip.NewReader(bytes.NewReader(p))
		if err != nil {
			return nil, err
		}
		return io.ReadAll(r)
	}
	return nil, fmt.Errorf("unknown algorithm %q", alg)
}

func canon(h http.Header) http.Header {
	out := http.Header{}
	for k, vs := range h {
		ck := textproto.CanonicalMIMEHeaderKey(k)
		out[ck] = append(out[ck], vs...)
	}
	return out
}

// DecodeResponse decodes a complete response strictly.  unary selects the
// Connect unary format (ignored for the gRPC protocols).
func DecodeResponse(p Protocol, unary bool, reqContentType string, status int, header http.Header, body []byte, trailer http.Header, dec Decompressor) *Response {
	if dec == nil {
		dec = DefaultDecompress
	}
	r := &Response{Header: canon(header)}
	h := r.Header
	tr := canon(trailer)
	// the HTTP message itself: one Content-Type, a Content-Length (if any) that is the body's,
	// one value for each of the protocols' single-valued headers
	if n := len(h.Values("Content-Type")); n > 1 {
		r.problem("response has %d Content-Type values: %q", n, h.Values("Content-Type"))
	}
	if cl := h.Values("Content-Length"); len(cl) > 0 {
		if n, err := strconv.Atoi(cl[0]); len(cl) > 1 || err != nil || n != len(body) {
			r.problem("response Content-Length %q over a body of %d bytes", cl, len(body))
		}
	}
	for _, k := range []string{"Grpc-Encoding", "Content-Encoding", "Connect-Content-Encoding", "Grpc-Accept-Encoding"} {
		if n := len(h.Values(k)); n > 1 {
			r.problem("response has %d %s values: %q", n, k, h.Values(k))
		}
		// a content-coding is a token: a header that names the (one) encoding in use cannot be empty
		if vs := h.Values(k); len(vs) == 1 && strings.TrimSpace(vs[0]) == "" && k != "Grpc-Accept-Encoding" {
			r.problem("response has a %s header without a value", k)
		}
	}
	switch {
	case p == Connect && unary:
		decodeConnectUnary(r, reqContentType, status, h, body, dec)
	case p == Connect:
		if status != 200 {
			r.problem("Connect streaming response has HTTP status %d, want 200", status)
		}
		checkContentType(r, reqContentType, h)
		alg := h.Get("Connect-Content-Encoding")
		decodeConnectStream(r, alg, body, dec)
	default:
		if status != 200 {
			r.problem("%s response has HTTP status %d, want 200", p, status)
		}
		checkContentType(r, reqContentType, h)
		alg := h.Get("Grpc-Encoding")
		decodeGRPC(r, p, alg, h, body, tr, dec)
	}
	return r
}

func checkContentType(r *Response, reqContentType string, h http.Header) {
	if reqContentType != "" && h.Get("Content-Type") != reqContentType {
		r.problem("response Content-Type %q does not echo the request's %q", h.Get("Content-Type"), reqContentType)
	}
}

type wireError struct {
	Code    string            `json:"code"`
	Message string            `json:"message"`
	Details []json.RawMessage `json:"details"`
}

func parseConnectError(r *Response, raw []byte) (End, bool) {
	var we wireError
	if err := json.Unmarshal(raw, &we); err != nil {
		r.problem("error body is not a JSON object: %v (%q)", err, clip(string(raw), 120))
		return End{}, false
	}
	code, ok := CodeFromName(we.Code)
	if !ok {
		r.problem("error code %q is not one of the 16 code names", we.Code)
		return End{}, false
	}
	end := End{Present: true, Code: code, Message: we.Message}
	for _, d := range we.Details {
		var m map[string]json.RawMessage
		if err := json.Unmarshal(d, &m); err != nil {
			r.problem("error detail is not a JSON object: %v", err)
			continue
		}
		var typ string
		if t, ok := m["@type"]; ok {
			_ = json.Unmarshal(t, &typ)
			end.Details = append(end.Details, Detail{TypeURL: typ, Value: d}) // protojson form: raw JSON kept
			continue
		}
		if t, ok := m["type"]; ok {
			_ = json.Unmarshal(t, &typ)
			var val string
			_ = json.Unmarshal(m["value"], &val)
			b, err := base64.RawStdEncoding.DecodeString(strings.TrimRight(val, "="))
			if err != nil {
				r.problem("error detail value is not base64: %v", err)
			}
			end.Details = append(end.Details, Detail{TypeURL: typ, Value: b})
			continue
		}
		r.problem("error detail carries neither @type nor type")
	}
	return end, true
}

func decodeConnectUnary(r *Response, reqContentType string, status int, h http.Header, body []byte, dec Decompressor) {
	// trailers travel as Trailer-* headers
	meta := http.Header{}
	for k, vs := range h {
		if strings.HasPrefix(k, "Trailer-") {
			meta[strings.TrimPrefix(k, "Trailer-")] = vs
		}
	}
	alg := h.Get("Content-Encoding")
	if status == 200 {
		checkContentType(r, reqContentType, h)
		payload := body
		compressed := alg != "" && alg != "identity"
		if compressed {
			var err error
			payload, err = dec(alg, body)
			if err != nil {
				r.problem("body does not decompress with Content-Encoding %q: %v", alg, err)
				return
			}
		}
		r.Msgs = append(r.Msgs, payload)
		r.Compressed = append(r.Compressed, compressed)
		r.End = End{Present: true, Code: 0, Meta: canon(meta)}
		return
	}
	if status >= 200 && status < 300 {
		r.problem("unary Connect error uses 2xx status %d", status)
	}
	if ct := h.Get("Content-Type"); ct != "application/json" {
		r.problem("unary Connect error has Content-Type %q, want application/json", ct)
	}
	raw := body
	if alg != "" && alg != "identity" {
		var err error
		raw, err = dec(alg, body)
		if err != nil {
			r.problem("error body does not decompress with %q: %v", alg, err)
			return
		}
	}
	end, ok := parseConnectError(r, raw)
	if !ok {
		return
	}
	if want := ConnectHTTPStatus[end.Code]; want != status {
		r.problem("unary Connect error %s sent under HTTP %d, the protocol's table says %d", CodeNames[end.Code], status, want)
	}
	end.Meta = canon(meta)
	r.End = end
}

func decodeConnectStream(r *Response, alg string, body []byte, dec Decompressor) {
	frames, err := SplitEnvelopes(body)
	if err != nil {
		r.problem("body: %v", err)
	}
	for i, f := range frames {
		if f.Flags&^0x03 != 0 {
			r.problem("frame %d has undefined flag bits %#x", i, f.Flags)
			continue
		}
		payload := f.Payload
		if f.Flags&0x01 != 0 {
			if alg == "" || alg == "identity" {
				r.problem("frame %d is flagged compressed but Connect-Content-Encoding names no algorithm", i)
				continue
			}
			payload, err = dec(alg, f.Payload)
			if err != nil {
				r.problem("frame %d does not decompress with %q: %v", i, alg, err)
				continue
			}
		}
		if f.Flags&0x02 != 0 {
			if r.End.Present {
				r.problem("more than one end-of-stream envelope")
			}
			if i != len(frames)-1 {
				r.problem("end-of-stream envelope is followed by %d more frames", len(frames)-1-i)
			}
			var es struct {
				Error    json.RawMessage     `json:"error"`
				Metadata map[string][]string `json:"metadata"`
			}
			if err := json.Unmarshal(payload, &es); err != nil {
				r.problem("end-of-stream payload is not a JSON object: %v (%q)", err, clip(string(payload), 120))
				r.End = End{Present: true, Code: -1}
				continue
			}
			end := End{Present: true}
			if len(es.Error) > 0 && string(es.Error) != "null" {
				e, ok := parseConnectError(r, es.Error)
				if ok {
					end = e
				} else {
					end.Code = -1
				}
			}
			end.Meta = http.Header{}
			for k, vs := range es.Metadata {
				ck := textproto.CanonicalMIMEHeaderKey(k)
				end.Meta[ck] = append(end.Meta[ck], vs...)
			}
			r.End = end
			continue
		}
		if r.End.Present {
			r.problem("message frame after the end-of-stream envelope")
		}
		r.Msgs = append(r.Msgs, payload)
		r.Compressed = append(r.Compressed, f.Flags&1 != 0)
	}
	if !r.End.Present {
		r.problem("Connect stream has no end-of-stream envelope")
	}
}

// PercentDecode implements the grpc-message decoding of PROTOCOL-HTTP2.md.
func PercentDecode(s string) string {
	var out []byte
	for i := 0; i < len(s); i++ {
		if s[i] == '%' && i+2 < len(s) {
			if v, err := strconv.ParseUint(s[i+1:i+3], 16, 8); err == nil {
				out = append(out, byte(v))
				i += 2
				continue
			}
		}
		out = append(out, s[i])
	}
	return string(out)
}

// PercentEncode encodes as the gRPC documents prescribe (upper = hex case).
func PercentEncode(s string, upper bool) string {
	var sb strings.Builder
	for i := 0; i < len(s); i++ {
		c := s[i]
		if c < 0x20 || c > 0x7e || c == '%' {
			if upper {
				fmt.Fprintf(&sb, "%%%02X", c)
			} else {
				fmt.Fprintf(&sb, "%%%02x", c)
			}
			continue
		}
		sb.WriteByte(c)
	}
	return sb.String()
}

func decodeGRPC(r *Response, p Protocol, alg string, h http.Header, body []byte, tr http.Header, dec Decompressor) {
	frames, err := SplitEnvelopes(body)
	if err != nil {
		r.problem("body: %v", err)
	}
	var webTrailer http.Header
	for i, f := range frames {
		if f.Flags&0x80 != 0 {
			if p != GRPCWeb {
				r.problem("frame %d has the trailer flag in a gRPC (HTTP/2) body", i)
				continue
			}
			if webTrailer != nil {
				r.problem("more than one trailer frame")
			}
			if i != len(frames)-1 {
				r.problem("trailer frame is followed by %d more frames", len(frames)-1-i)
			}
			block := f.Payload
			if f.Flags&0x01 != 0 {
				block, err = dec(alg, f.Payload)
				if err != nil {
					r.problem("compressed trailer frame does not decompress: %v", err)
					continue
				}
			}
			webTrailer = http.Header{}
			for _, line := range strings.Split(string(block), "\r\n") {
				if line == "" {
					continue
				}
				j := strings.IndexByte(line, ':')
				if j <= 0 {
					r.problem("trailer block line %q is not a field line", line)
					continue
				}
				// PROTOCOL-WEB: "use lower-case header/trailer names" - field names in the
				// trailer block of the body are not HTTP/1.1 header names, readers (the
				// grpc-web JavaScript client among them) look them up as written
				if name := strings.TrimSpace(line[:j]); name != strings.ToLower(name) {
					r.problem("trailer block field name %q is not lower-case", name)
				}
				k := textproto.CanonicalMIMEHeaderKey(strings.TrimSpace(line[:j]))
				webTrailer[k] = append(webTrailer[k], strings.TrimSpace(line[j+1:]))
			}
			continue
		}
		if f.Flags&^0x01 != 0 {
			r.problem("frame %d has undefined flag bits %#x", i, f.Flags)
			continue
		}
		if webTrailer != nil {
			r.problem("message frame after the trailer frame")
		}
		payload := f.Payload
		if f.Flags&0x01 != 0 {
			if alg == "" || alg == "identity" {
				r.problem("frame %d is flagged compressed but Grpc-Encoding names no algorithm", i)
				continue
			}
			payload, err = dec(alg, f.Payload)
			if err != nil {
				r.problem("frame %d does not decompress with %q: %v", i, alg, err)
				continue
			}
		}
		r.Msgs = append(r.Msgs, payload)
		r.Compressed = append(r.Compressed, f.Flags&1 != 0)
	}
	// where is the status?
	places := 0
	var src http.Header
	fromHeaders := false
	if len(tr.Values("Grpc-Status")) > 0 {
		places++
		src = tr
	}
	if webTrailer != nil && len(webTrailer.Values("Grpc-Status")) > 0 {
		places++
		src = webTrailer
	}
	if len(h.Values("Grpc-Status")) > 0 {
		places++
		if len(body) > 0 {
			r.problem("grpc-status in the HTTP headers of a response that has a body")
		}
		src = h
		fromHeaders = true
	}
	if p == GRPCWeb && len(tr.Values("Grpc-Status")) > 0 {
		r.problem("gRPC-Web response carries grpc-status in HTTP trailers")
	}
	if places == 0 {
		r.problem("no grpc-status anywhere (HTTP trailers, trailer frame, or headers of a body-less response)")
		return
	}
	if places > 1 {
		r.problem("grpc-status present in %d places", places)
	}
	if n := len(src.Values("Grpc-Status")); n != 1 {
		r.problem("grpc-status sent %d times", n)
	}
	st := src.Get("Grpc-Status")
	code, perr := strconv.ParseUint(st, 10, 32)
	if perr != nil || (len(st) > 1 && st[0] == '0') {
		r.problem("grpc-status %q is not a plain decimal number", st)
		r.End = End{Present: true, Code: -1}
		return
	}
	end := End{Present: true, Code: int(code), Message: PercentDecode(src.Get("Grpc-Message")), Meta: http.Header{}}
	if msg := src.Get("Grpc-Message"); msg != "" {
		for i := 0; i < len(msg); i++ {
			if msg[i] < 0x20 || msg[i] > 0x7e {
				r.problem("grpc-message contains the unescaped byte %#x", msg[i])
				break
			}
		}
	}
	for k, vs := range src {
		switch k {
		case "Grpc-Status", "Grpc-Message", "Grpc-Status-Details-Bin":
			continue
		}
		if fromHeaders && (k == "Content-Type" || strings.HasPrefix(k, "Grpc-")) {
			continue
		}
		end.Meta[k] = append(end.Meta[k], vs...)
	}
	if bin := src.Get("Grpc-Status-Details-Bin"); bin != "" {
		raw, err := base64.RawStdEncoding.DecodeString(strings.TrimRight(bin, "="))
		if err != nil {
			r.problem("grpc-status-details-bin is not base64: %v", err)
		} else {
			scode, smsg, details, err := ParseStatus(raw)
			if err != nil {
				r.problem("grpc-status-details-bin is not a google.rpc.Status: %v", err)
			} else {
				if scode != int(code) {
					r.problem("google.rpc.Status code %d differs from grpc-status %d", scode, code)
				}
				if smsg != end.Message {
					r.problem("google.rpc.Status message %q differs from grpc-message %q", clip(smsg, 60), clip(end.Message, 60))
				}
				end.Details = details
			}
		}
	}
	r.End = end
}

// ParseStatus decodes a serialized google.rpc.Status with protowire only.
func ParseStatus(b []byte) (code int, msg string, details []Detail, err error) {
	for len(b) > 0 {
		num, typ, n := protowire.ConsumeTag(b)
		if n < 0 {
			return 0, "", nil, protowire.ParseError(n)
		}
		b = b[n:]
		switch {
		case num == 1 && typ == protowire.VarintType:
			v, n := protowire.ConsumeVarint(b)
			if n < 0 {
				return 0, "", nil, protowire.ParseError(n)
			}
			code = int(int32(v))
			b = b[n:]
		case num == 2 && typ == protowire.BytesType:
			v, n := protowire.ConsumeBytes(b)
			if n < 0 {
				return 0, "", nil, protowire.ParseError(n)
			}
			msg = string(v)
			b = b[n:]
		case num == 3 && typ == protowire.BytesType:
			v, n := protowire.ConsumeBytes(b)
			if n < 0 {
				return 0, "", nil, protowire.ParseError(n)
			}
			b = b[n:]
			var d Detail
			for len(v) > 0 {
				fnum, ftyp, fn := protowire.ConsumeTag(v)
				if fn < 0 {
					return 0, "", nil, protowire.ParseError(fn)
				}
				v = v[fn:]
				fn2 := protowire.ConsumeFieldValue(fnum, ftyp, v)
				if fn2 < 0 {
					return 0, "", nil, protowire.ParseError(fn2)
				}
				if ftyp == protowire.BytesType {
					inner, _ := protowire.ConsumeBytes(v)
					if fnum == 1 {
						d.TypeURL = string(inner)
					} else if fnum == 2 {
						d.Value = append([]byte{}, inner...)
					}
				}
				v = v[fn2:]
			}
			details = append(details, d)
		default:
			n := protowire.ConsumeFieldValue(num, typ, b)
			if n < 0 {
				return 0, "", nil, protowire.ParseError(n)
			}
			b = b[n:]
		}
	}
	return code, msg, details, nil
}

// EncodeStatus serializes a google.rpc.Status.
func EncodeStatus(code int, msg string, details []Detail) []byte {
	var b []byte
	if code != 0 {
		b = protowire.AppendTag(b, 1, protowire.VarintType)
		b = protowire.AppendVarint(b, uint64(uint32(int32(code))))
	}
	if msg != "" {
		b = protowire.AppendTag(b, 2, protowire.BytesType)
		b = protowire.AppendString(b, msg)
	}
	for _, d := range details {
		var a []byte
		a = protowire.AppendTag(a, 1, protowire.BytesType)
		a = protowire.AppendString(a, d.TypeURL)
		a = protowire.AppendTag(a, 2, protowire.BytesType)
		a = protowire.AppendBytes(a, d.Value)
		b = protowire.AppendTag(b, 3, protowire.BytesType)
		b = protowire.AppendBytes(b, a)
	}
	return b
}

func clip(s string, n int) string {
	if len(s) > n {
		return s[:n] + "..."
	}
	return s
}
