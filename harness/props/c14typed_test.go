package props

import (
	"context"
	"errors"
	"fmt"
	"io"
	"net/http"
	"strings"
	"testing"
	"testing/synctest"

	connect "github.com/bufbuild/connect-go"
	"google.golang.org/protobuf/proto"

	"verifharness/bsched"
	"verifharness/ev"
	"verifharness/memhttp"
)

// The typed client API (CallUnary, CallClientStream.CloseAndReceive,
// CallServerStream with ServerStreamForClient.Receive / Err / Close) sits on
// top of the conn-level operations that the scheduled C14 programs drive.  This
// family enumerates complete uses of it - including the ways a call can fail
// before or after the request was started - and requires what the property
// requires of every call: it returns, and afterwards the response body has been
// closed and no goroutine of the library is left.

type c14TypedCase struct {
	Typed bool  `json:"typed"` // discriminates replay files of this family
	Proto Proto `json:"proto"`
	HTTP  int   `json:"http"`
	Kind  Kind  `json:"kind"`
	// Handler: "ok<n>" sends n messages and returns nil, "err<n>" sends n and fails.
	Handler string `json:"handler"`
	// Take: server streams: the client calls Receive this many times before
	// Close (-1 = until Receive reports false).
	Take int `json:"take"`
	// Codec: "" | "marshal-fails" (the client's request message is refused by the
	// codec: nothing is ever sent) | "unmarshal-fails" (the first response message
	// is refused by the client's codec).
	Codec string `json:"codec,omitempty"`
	// URL: "" the usual one | "bad-fragment": a URL that NewClient accepts and
	// http.NewRequestWithContext rejects (a fragment with a bad escape), so no
	// request can ever be made.
	URL string `json:"url,omitempty"`
	// Cancel: "at-last-request-byte": the caller's context is cancelled while the
	// transport is taking the last byte of the request message (the Send still
	// succeeds, finishing the request then fails), and the HTTPClient returns a
	// response all the same, as the contract allows: whoever returns the call
	// to the caller without a stream has to close that body.
	Cancel string `json:"cancel,omitempty"`
}

// lastByteClient is a connect.HTTPClient that cancels the call's context
// between the last two bytes of a request of n bytes and then answers 200 with
// an empty body of the request's content type.
type lastByteClient struct {
	n      int
	cancel func()
	mu     chan struct{}
	got    bool
	closes int
}

type countingBody struct{ c *lastByteClient }

func (b countingBody) Read([]byte) (int, error) { return 0, io.EOF }
func (b countingBody) Close() error {
	b.c.mu <- struct{}{}
	b.c.closes++
	<-b.c.mu
	return nil
}

func (l *lastByteClient) Do(req *http.Request) (*http.Response, error) {
	one := make([]byte, 1)
	for i := 0; i < l.n-1; i++ {
		if _, err := io.ReadFull(req.Body, one); err != nil {
			return nil, err
		}
	}
	l.cancel()
	if _, err := io.ReadFull(req.Body, one); err != nil {
		return nil, err
	}
	l.mu <- struct{}{}
	l.got = true
	<-l.mu
	return &http.Response{
		StatusCode: 200, Status: "200 OK", Proto: "HTTP/2.0", ProtoMajor: 2,
		Header:  http.Header{"Content-Type": {req.Header.Get("Content-Type")}},
		Trailer: http.Header{}, Body: countingBody{l}, ContentLength: -1, Request: req,
	}, nil
}

func c14TypedLastByte(c *ev.Collector, k c14TypedCase) {
	n := 9 // envelope prefix + the 4 bytes of the request message
	if k.Proto == PConnect && k.Kind == KUnary {
		n = 4
	}
	ctx, cancel := context.WithCancel(context.Background())
	defer cancel()
	lb := &lastByteClient{n: n, cancel: cancel, mu: make(chan struct{}, 1)}
	cl := connect.NewClient[BV, BV](lb, BaseURL+Procedure, Cfg{Proto: k.Proto, Comp: CompNone}.ClientOptions()...)
	var callErr error
	gotStream := false
	g := Guarded(func() {
		msg := &BV{Value: []byte{'c', 0}}
		switch k.Kind {
		case KUnary:
			_, callErr = cl.CallUnary(ctx, connect.NewRequest(msg))
		case KClient:
			s := cl.CallClientStream(ctx)
			_ = s.Send(msg)
			_, callErr = s.CloseAndReceive()
		case KServer:
			s, err := cl.CallServerStream(ctx, connect.NewRequest(msg))
			callErr = err
			if err == nil {
				gotStream = true
				for s.Receive() {
				}
				callErr = s.Err()
				_ = s.Close()
			}
		}
	})
	tags := []string{"proto=" + k.Proto.String(), "kind=" + k.Kind.String(), "typed-api", "cancel-at-last-request-byte"}
	viol := func(clause, outcome, format string, args ...any) {
		c.Violation("TestC14", clause, outcome, tags, k, "%s: "+format, append([]any{k.key()}, args...)...)
	}
	c.AddTransitions(4)
	c.AddStates(4)
	c.AddTraces(1)
	if g.Panicked || g.Hung {
		viol("terminates", "deadlock", "hung=%v panic=%v\n%s", g.Hung, g.Panic, trimStacks(g.Stack))
		c.Outcome("violation")
		BailIfStuck(c, g)
		return
	}
	synctest.Wait()
	bad := false
	if lb.got && lb.closes == 0 {
		bad = true
		viol("body-closed", "not-closed", "the call returned (err=%v, stream handed out: %v); the HTTPClient had returned a response and its body was never closed", callErr, gotStream)
	}
	if grs := bsched.LibraryGoroutines(); len(grs) > 0 {
		bad = true
		viol("no-goroutine-left", "leak", "the call returned (err=%v) and a goroutine of the library remains\n%s", callErr, trimStacks(grs[0]))
	}
	if bad {
		c.Outcome("violation")
	} else {
		c.Outcome("ok")
	}
}

func (k c14TypedCase) key() string {
	return fmt.Sprintf("typed/%s/h%d/%s/%s/take%d/%s%s%s", k.Proto, k.HTTP, k.Kind, k.Handler, k.Take, k.Codec, k.URL, k.Cancel)
}

// markerCodec is the binary codec except that it refuses to marshal the
// message "FAIL-MARSHAL" and to unmarshal the message "FAIL-UNMARSHAL".
type markerCodec struct{}

func (markerCodec) Name() string { return "proto" }
func (markerCodec) Marshal(m any) ([]byte, error) {
	if bv, ok := m.(*BV); ok && string(bv.Value) == "FAIL-MARSHAL" {
		return nil, errMarshalMarker
	}
	return proto.Marshal(m.(proto.Message))
}
func (markerCodec) Unmarshal(b []byte, m any) error {
	if err := proto.Unmarshal(b, m.(proto.Message)); err != nil {
		return err
	}
	if bv, ok := m.(*BV); ok && string(bv.Value) == "FAIL-UNMARSHAL" {
		return errors.New("unmarshal: message rejected by the codec")
	}
	return nil
}

func c14TypedCheck(c *ev.Collector, k c14TypedCase) {
	if k.Cancel == "at-last-request-byte" {
		c14TypedLastByte(c, k)
		return
	}
	var n int
	fails := strings.HasPrefix(k.Handler, "err")
	fmt.Sscanf(strings.TrimLeft(k.Handler, "oker"), "%d", &n)
	h := NewHandler(k.Kind, func(ctx context.Context, s HStream) error {
		for {
			if _, err := s.Receive(); err != nil {
				break
			}
		}
		for i := 0; i < n; i++ {
			payload := []byte{'h', byte(i)}
			if i == 0 && k.Codec == "unmarshal-fails" {
				payload = []byte("FAIL-UNMARSHAL")
			}
			if err := s.Send(&BV{Value: payload}); err != nil {
				return err
			}
		}
		if fails {
			return connect.NewError(connect.CodeResourceExhausted, errors.New("boom"))
		}
		return nil
	})
	tr := &memhttp.Transport{Handler: h, Proto: k.HTTP, SyncCloseReq: true}
	var copts []connect.ClientOption
	if k.Codec != "" {
		copts = append(copts, connect.WithCodec(markerCodec{}))
	}
	cl := NewClient(tr, Cfg{Proto: k.Proto, Comp: CompNone, Kind: k.Kind, HTTP: k.HTTP}, copts...)
	if k.URL == "bad-fragment" {
		cl = connect.NewClient[BV, BV](tr, BaseURL+Procedure+"#section?q=100%", append(Cfg{Proto: k.Proto, Comp: CompNone}.ClientOptions(), copts...)...)
	}
	reqMsg := func() *BV {
		if k.Codec == "marshal-fails" {
			return &BV{Value: []byte("FAIL-MARSHAL")}
		}
		return &BV{Value: []byte{'c', 0}}
	}
	ctx := context.Background()
	var callErr, closeErr error
	received := 0
	g := Guarded(func() {
		switch k.Kind {
		case KUnary:
			_, callErr = cl.CallUnary(ctx, connect.NewRequest(reqMsg()))
		case KClient:
			s := cl.CallClientStream(ctx)
			_ = s.Send(reqMsg())
			_, callErr = s.CloseAndReceive()
		case KBidi:
			s := cl.CallBidiStream(ctx)
			_ = s.Send(reqMsg())
			_ = s.CloseRequest()
			for {
				if _, err := s.Receive(); err != nil {
					if !errors.Is(err, io.EOF) {
						callErr = err
					}
					break
				}
				received++
			}
			closeErr = s.CloseResponse()
		case KServer:
			s, err := cl.CallServerStream(ctx, connect.NewRequest(reqMsg()))
			if err != nil {
				callErr = err
				return
			}
			for i := 0; k.Take < 0 || i < k.Take; i++ {
				if !s.Receive() {
					break
				}
				received++
			}
			callErr = s.Err()
			closeErr = s.Close()
		}
	}, tr)
	tags := []string{"proto=" + k.Proto.String(), "kind=" + k.Kind.String(), "typed-api"}
	if k.Codec != "" {
		tags = append(tags, k.Codec)
	}
	viol := func(clause, outcome, format string, args ...any) {
		c.Violation("TestC14", clause, outcome, tags, k, "%s: "+format, append([]any{k.key()}, args...)...)
	}
	c.AddTransitions(4)
	c.AddStates(4)
	c.AddTraces(1)
	if g.Panicked {
		viol("no-panic", "panic", "panic %v\n%s", g.Panic, g.Stack)
		c.Outcome("violation")
		return
	}
	if g.Hung {
		viol("terminates", "deadlock", "the call did not return\n%s", trimStacks(g.Stack))
		c.Outcome("deadlock")
		BailIfStuck(c, g)
		return
	}
	synctest.Wait()
	bad := false
	ex := tr.Last()
	if ex != nil && ex.GotResponse() && ex.Closes() == 0 {
		bad = true
		viol("body-closed", "not-closed", "the call returned (err=%v, close=%v, received %d) and the response body was never closed", callErr, closeErr, received)
	}
	for _, gr := range bsched.LibraryGoroutines() {
		if strings.Contains(gr, "memhttp.(*call).serve") {
			if ex != nil && !ex.IsDone() {
				bad = true
				viol("handler-released", "stuck", "the call returned and the handler is still running\n%s", trimStacks(gr))
			}
			continue
		}
		bad = true
		viol("no-goroutine-left", "leak", "the call returned (err=%v, close=%v) and a goroutine of the library remains\n%s", callErr, closeErr, trimStacks(gr))
		break
	}
	tr.AbortAll()
	if bad {
		c.Outcome("violation")
	} else {
		c.Outcome("ok")
	}
}

func c14TypedCases() []c14TypedCase {
	var out []c14TypedCase
	for _, p := range AllProtos {
		for _, hv := range []int{2, 1} {
			for _, kind := range []Kind{KUnary, KClient, KServer} {
				handlers := []string{"ok1", "err0"}
				takes := []int{-1}
				if kind == KServer {
					handlers = []string{"ok0", "ok1", "ok2", "err0", "err1", "err2"}
					takes = []int{-1, 0, 1, 2, 3}
				}
				for _, hd := range handlers {
					for _, take := range takes {
						for _, codec := range []string{"", "marshal-fails", "unmarshal-fails"} {
							out = append(out, c14TypedCase{Typed: true, Proto: p, HTTP: hv, Kind: kind, Handler: hd, Take: take, Codec: codec})
						}
					}
				}
			}
		}
	}
	// no request can be constructed at all: every kind of call must still return
	for _, p := range AllProtos {
		for _, kind := range AllKinds {
			out = append(out, c14TypedCase{Typed: true, Proto: p, HTTP: 2, Kind: kind, Handler: "ok1", Take: -1, URL: "bad-fragment"})
		}
	}
	// the context ends while the transport takes the last byte of the request; a response arrives all the same
	for _, p := range AllProtos {
		for _, kind := range []Kind{KUnary, KClient, KServer} {
			out = append(out, c14TypedCase{Typed: true, Proto: p, HTTP: 2, Kind: kind, Handler: "ok0", Take: -1, Cancel: "at-last-request-byte"})
		}
	}
	return out
}

func c14Typed(t *testing.T, c *ev.Collector) {
	for i, k := range c14TypedCases() {
		if !ev.Mine(i) {
			continue
		}
		c.Case(k.key(), true)
		Bubble(t, func() { c14TypedCheck(c, k) })
	}
}
