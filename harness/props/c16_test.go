package props

import (
	"context"
	"errors"
	"fmt"
	"io"
	"net/http"
	"net/http/httptest"
	"strings"
	"testing"
	"time"

	connect "github.com/bufbuild/connect-go"
	"google.golang.org/protobuf/proto"

	"verifharness/ev"
	"verifharness/memhttp"
)

// C16 — interceptors nest in declaration order however options are grouped.
//
// Engine: configuration enumeration.  Every interceptor list (nil anywhere),
// every composition into consecutive WithInterceptors groups (optionally with
// an empty group), every bundling of groups into WithOptions /
// With{Client,Handler}Options wrappers up to depth 2, for every RPC kind on
// clients and handlers, is built with the real option constructors and one
// real call is made; the event log must equal the onion of the flat list.

type logI struct {
	id  int
	log *[]string
}

func (l *logI) add(ev string) { *l.log = append(*l.log, fmt.Sprintf("%s:%d", ev, l.id)) }

func (l *logI) WrapUnary(next connect.UnaryFunc) connect.UnaryFunc {
	return func(ctx context.Context, req connect.AnyRequest) (connect.AnyResponse, error) {
		l.add("enter")
		res, err := next(ctx, req)
		l.add("exit")
		return res, err
	}
}

type logClientConn struct {
	connect.StreamingClientConn
	l          *logI
	sent, recv bool
}

func (c *logClientConn) Send(m any) error {
	if !c.sent {
		c.sent = true
		c.l.add("send")
	}
	return c.StreamingClientConn.Send(m)
}

func (c *logClientConn) Receive(m any) error {
	err := c.StreamingClientConn.Receive(m)
	if !c.recv {
		c.recv = true
		c.l.add("recv")
	}
	return err
}

func (l *logI) WrapStreamingClient(next connect.StreamingClientFunc) connect.StreamingClientFunc {
	return func(ctx context.Context, spec connect.Spec) connect.StreamingClientConn {
		l.add("enter")
		return &logClientConn{StreamingClientConn: next(ctx, spec), l: l}
	}
}

type logHandlerConn struct {
	connect.StreamingHandlerConn
	l          *logI
	sent, recv bool
}

func (c *logHandlerConn) Send(m any) error {
	if !c.sent {
		c.sent = true
		c.l.add("send")
	}
	return c.StreamingHandlerConn.Send(m)
}

func (c *logHandlerConn) Receive(m any) error {
	err := c.StreamingHandlerConn.Receive(m)
	if !c.recv {
		c.recv = true
		c.l.add("recv")
	}
	return err
}

func (l *logI) WrapStreamingHandler(next connect.StreamingHandlerFunc) connect.StreamingHandlerFunc {
	return func(ctx context.Context, conn connect.StreamingHandlerConn) error {
		l.add("enter")
		err := next(ctx, &logHandlerConn{StreamingHandlerConn: conn, l: l})
		l.add("exit")
		return err
	}
}

// zeroI is an interceptor whose *value* is the zero value of its (struct)
// type: it keeps its state elsewhere (here: a package-level logger with id 77),
// as stateless interceptors do.  It is not nil.
type zeroI struct{}

var c16ZeroLogger *logI

func (zeroI) WrapUnary(next connect.UnaryFunc) connect.UnaryFunc {
	return c16ZeroLogger.WrapUnary(next)
}
func (zeroI) WrapStreamingClient(next connect.StreamingClientFunc) connect.StreamingClientFunc {
	return c16ZeroLogger.WrapStreamingClient(next)
}
func (zeroI) WrapStreamingHandler(next connect.StreamingHandlerFunc) connect.StreamingHandlerFunc {
	return c16ZeroLogger.WrapStreamingHandler(next)
}

// c16Case: Mask says which positions hold a nil; Cuts which gaps start a new
// WithInterceptors group; Empty where an empty group is inserted (-1 none);
// Bundles which group gaps start a new wrapper bundle; Wrap the wrapper of
// each bundle.
type c16Case struct {
	N       int   `json:"n"`
	NilMask int   `json:"nil_mask"`
	Cuts    int   `json:"cuts"`
	Empty   int   `json:"empty"`
	Bundles int   `json:"bundles"`
	Wrap    []int `json:"wrap"`
	Kind    Kind  `json:"kind"`
	Client  bool  `json:"client"`
	Proto   Proto `json:"proto"`
	// Tree, when set, replaces Bundles/Wrap: a bracket expression over the
	// group indices, e.g. "0(1)2" = [g0, WithOptions(g1), g2]; "(" is
	// WithOptions, "[" is With{Client,Handler}Options.
	Tree string `json:"tree,omitempty"`
	// FuncTypes: the interceptors are connect.UnaryInterceptorFunc values
	// rather than values of the harness's struct type (unary calls only).
	FuncTypes bool `json:"func_types,omitempty"`
	// FuncMask: the positions whose bit is set hold connect.UnaryInterceptorFunc
	// values, the others values of the struct type (any kind of call: on
	// streaming calls a UnaryInterceptorFunc is a documented no-op, so the
	// reference onion then consists of the other positions).
	FuncMask int `json:"func_mask,omitempty"`
	// ZeroPos (1-based, 0 = none): that position holds zeroI{}, an interceptor
	// that is the zero value of a struct type (id 77 in the log).
	ZeroPos int `json:"zero_pos,omitempty"`
	// SharedLast: the LAST group is one option value that was first applied,
	// behind a different leading interceptor, by another client and handler.
	SharedLast bool `json:"shared_last,omitempty"`
	// Extra: an option that is NOT an interceptor list ("recover" = WithRecover,
	// handler side only; "minbytes" = WithCompressMinBytes; "readmax" =
	// WithReadMaxBytes; "codec" = WithCodec of the stock proto codec) sits at
	// top-level position ExtraPos (0 = first) among the interceptor options.
	// It must not move any interceptor.
	Extra    string `json:"extra,omitempty"`
	ExtraPos int    `json:"extra_pos,omitempty"`
}

func (k c16Case) key() string {
	side := "handler"
	if k.Client {
		side = "client"
	}
	if k.FuncTypes {
		side += "/functypes"
	}
	if k.FuncMask != 0 {
		side += fmt.Sprintf("/funcmask%b", k.FuncMask)
	}
	if k.ZeroPos != 0 {
		side += fmt.Sprintf("/zerovalue@%d", k.ZeroPos)
	}
	if k.SharedLast {
		side += "/sharedlast"
	}
	if k.Extra != "" {
		side += fmt.Sprintf("/extra=%s@%d", k.Extra, k.ExtraPos)
	}
	if k.Tree != "" {
		return fmt.Sprintf("n%d/nil%b/cuts%b/empty%d/tree%s/%s/%s/%s", k.N, k.NilMask, k.Cuts, k.Empty, k.Tree, k.Kind, side, k.Proto)
	}
	return fmt.Sprintf("n%d/nil%b/cuts%b/empty%d/bund%b/wrap%v/%s/%s/%s", k.N, k.NilMask, k.Cuts, k.Empty, k.Bundles, k.Wrap, k.Kind, side, k.Proto)
}

var c16WrapNames = []string{"flat", "WithOptions", "WithSideOptions", "Side(WithOptions)", "WithOptions(WithOptions)"}

// buildOptions returns the option values for the case, built with the real
// constructors, plus the flat list of non-nil interceptor ids.
func (k c16Case) build(log *[]string) (clientOpts []connect.ClientOption, handlerOpts []connect.HandlerOption, flat []int) {
	clientOpts, handlerOpts, flat = k.buildInner(log)
	if k.Extra == "" {
		return
	}
	var both connect.Option
	switch k.Extra {
	case "minbytes":
		both = connect.WithCompressMinBytes(16)
	case "readmax":
		both = connect.WithReadMaxBytes(1 << 20)
	case "codec":
		both = connect.WithCodec(c16ProtoCodec{})
	}
	pos := k.ExtraPos
	if k.Extra == "recover" {
		if pos > len(handlerOpts) {
			pos = len(handlerOpts)
		}
		rec := connect.WithRecover(func(context.Context, connect.Spec, http.Header, any) error {
			return connect.NewError(connect.CodeInternal, errors.New("recovered"))
		})
		handlerOpts = append(handlerOpts[:pos:pos], append([]connect.HandlerOption{rec}, handlerOpts[pos:]...)...)
		return
	}
	hp, cp := pos, pos
	if hp > len(handlerOpts) {
		hp = len(handlerOpts)
	}
	if cp > len(clientOpts) {
		cp = len(clientOpts)
	}
	handlerOpts = append(handlerOpts[:hp:hp], append([]connect.HandlerOption{both}, handlerOpts[hp:]...)...)
	clientOpts = append(clientOpts[:cp:cp], append([]connect.ClientOption{both}, clientOpts[cp:]...)...)
	return
}

// c16ProtoCodec is the stock binary codec under its stock name, registered again.
type c16ProtoCodec struct{}

func (c16ProtoCodec) Name() string { return "proto" }
func (c16ProtoCodec) Marshal(m any) ([]byte, error) {
	return proto.Marshal(m.(proto.Message))
}
func (c16ProtoCodec) Unmarshal(b []byte, m any) error {
	return proto.Unmarshal(b, m.(proto.Message))
}

func (k c16Case) buildInner(log *[]string) (clientOpts []connect.ClientOption, handlerOpts []connect.HandlerOption, flat []int) {
	items := make([]connect.Interceptor, k.N)
	for i := 0; i < k.N; i++ {
		if k.NilMask&(1<<i) == 0 {
			l := &logI{id: i + 1, log: log}
			items[i] = l
			if k.FuncTypes {
				items[i] = connect.UnaryInterceptorFunc(l.WrapUnary)
			}
			if k.ZeroPos == i+1 {
				c16ZeroLogger = &logI{id: 77, log: log}
				items[i] = zeroI{}
				flat = append(flat, 77)
				continue
			}
			if k.FuncMask&(1<<i) != 0 {
				items[i] = connect.UnaryInterceptorFunc(l.WrapUnary)
				if k.Kind != KUnary {
					continue // no part in a streaming call
				}
			}
			flat = append(flat, i+1)
		}
	}
	// groups
	var groups [][]connect.Interceptor
	cur := []connect.Interceptor{}
	for i := 0; i < k.N; i++ {
		if i > 0 && k.Cuts&(1<<(i-1)) != 0 {
			groups = append(groups, cur)
			cur = []connect.Interceptor{}
		}
		cur = append(cur, items[i])
	}
	if k.N > 0 {
		groups = append(groups, cur)
	}
	if k.Empty >= 0 {
		pos := k.Empty
		if pos > len(groups) {
			pos = len(groups)
		}
		groups = append(groups[:pos], append([][]connect.Interceptor{{}}, groups[pos:]...)...)
	}
	opts := make([]connect.Option, len(groups))
	for i, g := range groups {
		opts[i] = connect.WithInterceptors(g...)
	}
	if k.SharedLast && len(opts) > 1 {
		// the last group's option value has a history: another client and another
		// handler applied it behind a different leading interceptor
		var sink []string
		foreign := connect.WithInterceptors(&logI{id: 99, log: &sink})
		shared := opts[len(opts)-1]
		_ = NewHandler(KUnary, func(context.Context, HStream) error { return nil }, foreign, shared)
		_ = connect.NewClient[BV, BV](&memhttp.Transport{}, BaseURL+Procedure, foreign, shared)
	}
	if k.Tree != "" {
		clientOpts, handlerOpts = c16BuildTree(k.Tree, opts)
		return clientOpts, handlerOpts, flat
	}
	// bundles
	var bundles [][]connect.Option
	var curB []connect.Option
	for i, o := range opts {
		if i > 0 && k.Bundles&(1<<(i-1)) != 0 {
			bundles = append(bundles, curB)
			curB = nil
		}
		curB = append(curB, o)
	}
	if len(opts) > 0 {
		bundles = append(bundles, curB)
	}
	for i, b := range bundles {
		w := 0
		if i < len(k.Wrap) {
			w = k.Wrap[i]
		} else if len(k.Wrap) > 0 {
			w = k.Wrap[len(k.Wrap)-1]
		}
		asClient := func(os []connect.Option) []connect.ClientOption {
			out := make([]connect.ClientOption, len(os))
			for i, o := range os {
				out[i] = o
			}
			return out
		}
		asHandler := func(os []connect.Option) []connect.HandlerOption {
			out := make([]connect.HandlerOption, len(os))
			for i, o := range os {
				out[i] = o
			}
			return out
		}
		switch w {
		case 0:
			clientOpts = append(clientOpts, asClient(b)...)
			handlerOpts = append(handlerOpts, asHandler(b)...)
		case 1:
			o := connect.WithOptions(b...)
			clientOpts = append(clientOpts, o)
			handlerOpts = append(handlerOpts, o)
		case 2:
			clientOpts = append(clientOpts, connect.WithClientOptions(asClient(b)...))
			handlerOpts = append(handlerOpts, connect.WithHandlerOptions(asHandler(b)...))
		case 3:
			o := connect.WithOptions(b...)
			clientOpts = append(clientOpts, connect.WithClientOptions(o))
			handlerOpts = append(handlerOpts, connect.WithHandlerOptions(o))
		case 4:
			o := connect.WithOptions(connect.WithOptions(b...))
			clientOpts = append(clientOpts, o)
			handlerOpts = append(handlerOpts, o)
		}
	}
	return clientOpts, handlerOpts, flat
}

// c16BuildTree parses a bracket expression over option indices into the
// top-level client and handler option lists.
func c16BuildTree(tree string, leaves []connect.Option) ([]connect.ClientOption, []connect.HandlerOption) {
	pos := 0
	// forest parses elements until a closing bracket or the end; both is false
	// below a "(" node (WithOptions takes two-sided options only).
	var forest func() (cl []connect.ClientOption, hd []connect.HandlerOption, both []connect.Option)
	forest = func() (cl []connect.ClientOption, hd []connect.HandlerOption, both []connect.Option) {
		for pos < len(tree) {
			ch := tree[pos]
			switch {
			case ch == ')' || ch == ']':
				return
			case ch >= '0' && ch <= '9':
				pos++
				o := leaves[int(ch-'0')]
				cl, hd, both = append(cl, o), append(hd, o), append(both, o)
			case ch == '(':
				pos++
				_, _, inner := forest()
				pos++ // ')'
				o := connect.WithOptions(inner...)
				cl, hd, both = append(cl, o), append(hd, o), append(both, o)
			case ch == '[':
				pos++
				icl, ihd, _ := forest()
				pos++ // ']'
				cl, hd = append(cl, connect.WithClientOptions(icl...)), append(hd, connect.WithHandlerOptions(ihd...))
			default:
				panic("c16: bad tree " + tree)
			}
		}
		return
	}
	cl, hd, _ := forest()
	return cl, hd
}

// c16Forests lists every bracket expression over leaves lo..hi-1 (in order)
// with nesting depth <= depth; side says whether "[" nodes are allowed here.
func c16Forests(lo, hi, depth int, side bool) []string {
	if lo == hi {
		return []string{""}
	}
	var out []string
	// first element covers lo..m-1, the rest is a forest over m..hi-1
	for m := lo + 1; m <= hi; m++ {
		var firsts []string
		if m == lo+1 {
			firsts = append(firsts, string(rune('0'+lo)))
		}
		if depth > 0 {
			for _, f := range c16Forests(lo, m, depth-1, false) {
				firsts = append(firsts, "("+f+")")
			}
			if side {
				for _, f := range c16Forests(lo, m, depth-1, true) {
					firsts = append(firsts, "["+f+"]")
				}
			}
		}
		rest := c16Forests(m, hi, depth, side)
		for _, f := range firsts {
			for _, r := range rest {
				out = append(out, f+r)
			}
		}
	}
	return out
}

// c16Model is the reference onion of the flat list.
func c16Model(flat []int, kind Kind, client bool) []string {
	var out []string
	fwd := func(ev string) {
		for _, id := range flat {
			out = append(out, fmt.Sprintf("%s:%d", ev, id))
		}
	}
	rev := func(ev string) {
		for i := len(flat) - 1; i >= 0; i-- {
			out = append(out, fmt.Sprintf("%s:%d", ev, flat[i]))
		}
	}
	switch {
	case kind == KUnary:
		fwd("enter")
		out = append(out, "core")
		rev("exit")
	case client:
		fwd("enter")
		fwd("send")
		out = append(out, "core")
		rev("recv")
	default:
		fwd("enter")
		fwd("recv")
		out = append(out, "core")
		rev("send")
		rev("exit")
	}
	return out
}

func c16Run(k c16Case) (got []string, flat []int, err error, g GuardResult) {
	got, _, flat, err, g = c16RunTwice(k)
	return
}

// c16RunTwice builds the option values once and constructs two clients /
// handlers from the SAME values (as generated code does for every procedure of
// a service); it returns the event log of a call through each.
func c16RunTwice(k c16Case) (first, second []string, flat []int, err error, g GuardResult) {
	var log []string
	copts, hopts, flat := k.build(&log)
	cfg := Cfg{Proto: k.Proto, Comp: CompNone, Kind: k.Kind, HTTP: 2}
	impl := func(ctx context.Context, s HStream) error {
		for {
			if _, err := s.Receive(); err != nil {
				if !errors.Is(err, io.EOF) {
					return err
				}
				break
			}
		}
		if !k.Client {
			log = append(log, "core")
		}
		return s.Send(&BV{Value: []byte{9}})
	}
	for round := 0; round < 2; round++ {
		log = nil
		var h *connect.Handler
		if k.Client {
			h = NewHandler(k.Kind, func(ctx context.Context, s HStream) error {
				if k.Kind == KUnary {
					log = append(log, "core")
				}
				return impl(ctx, s)
			})
		} else {
			h = NewHandler(k.Kind, impl, hopts...)
		}
		tr := &memhttp.Transport{Handler: h, Proto: 2, SyncCloseReq: true}
		var cl *connect.Client[BV, BV]
		if k.Client {
			cl = NewClient(tr, cfg, copts...)
		} else {
			cl = NewClient(tr, cfg)
		}
		var res CallResult
		g = Guarded(func() {
			if k.Client && k.Kind != KUnary {
				// streaming client: Send, then the boundary marker, then Receive
				res = c16StreamCall(cl, k.Kind, &log)
			} else {
				res = RunCall(context.Background(), cl, k.Kind, [][]byte{{1}}, nil)
			}
		}, tr)
		if g.Hung || g.Panicked || res.Err != nil {
			return log, log, flat, res.Err, g
		}
		if round == 0 {
			first = append([]string(nil), log...)
		} else {
			second = append([]string(nil), log...)
		}
	}
	return first, second, flat, nil, g
}

// c16StreamCall performs Send(s), marks "core", then Receives, so that the
// log separates the outgoing from the incoming direction.
func c16StreamCall(cl *connect.Client[BV, BV], kind Kind, log *[]string) CallResult {
	ctx := context.Background()
	var out CallResult
	switch kind {
	case KClient:
		s := cl.CallClientStream(ctx)
		_ = s.Send(&BV{Value: []byte{1}})
		*log = append(*log, "core")
		_, out.Err = s.CloseAndReceive()
	case KServer:
		s, err := cl.CallServerStream(ctx, connect.NewRequest(&BV{Value: []byte{1}}))
		*log = append(*log, "core")
		if err != nil {
			out.Err = err
			return out
		}
		for s.Receive() {
		}
		out.Err = s.Err()
		_ = s.Close()
	case KBidi:
		s := cl.CallBidiStream(ctx)
		_ = s.Send(&BV{Value: []byte{1}})
		_ = s.CloseRequest()
		*log = append(*log, "core")
		for {
			if _, err := s.Receive(); err != nil {
				if !errors.Is(err, io.EOF) {
					out.Err = err
				}
				break
			}
		}
		_ = s.CloseResponse()
	}
	return out
}

func c16Cases(thorough bool) []c16Case {
	maxN := 4
	var out []c16Case
	for n := 0; n <= maxN; n++ {
		for mask := 0; mask < 1<<n; mask++ {
			maxCuts := 1
			if n > 1 {
				maxCuts = 1 << (n - 1)
			}
			for cuts := 0; cuts < maxCuts; cuts++ {
				groups := 1 + popcount(cuts)
				if n == 0 {
					groups = 0
				}
				for empty := -1; empty <= groups; empty++ {
					g := groups
					if empty >= 0 {
						g++
					}
					if g == 0 {
						continue
					}
					maxB := 1
					if g > 1 {
						maxB = 1 << (g - 1)
					}
					for b := 0; b < maxB; b++ {
						nb := 1 + popcount(b)
						var wraps [][]int
						if nb <= 2 && (thorough || n < 4) {
							for w1 := 0; w1 < 5; w1++ {
								if nb == 1 {
									wraps = append(wraps, []int{w1})
									continue
								}
								for w2 := 0; w2 < 5; w2++ {
									wraps = append(wraps, []int{w1, w2})
								}
							}
						} else {
							for w := 0; w < 5; w++ {
								wraps = append(wraps, []int{w})
							}
						}
						if empty >= 0 && !thorough && (b != 0 || n > 2) {
							continue
						}
						if !thorough && n == 4 && popcount(b) > 1 {
							continue
						}
						for _, w := range wraps {
							out = append(out, c16Case{N: n, NilMask: mask, Cuts: cuts, Empty: empty, Bundles: b, Wrap: w})
						}
					}
				}
			}
		}
	}
	return out
}

func popcount(x int) int {
	n := 0
	for ; x != 0; x &= x - 1 {
		n++
	}
	return n
}

func c16Check(c *ev.Collector, k c16Case) {
	got, second, flat, err, g := c16RunTwice(k)
	want := c16Model(flat, k.Kind, k.Client)
	tags := []string{"kind=" + k.Kind.String(), map[bool]string{true: "side=client", false: "side=handler"}[k.Client]}
	c.AddTransitions(int64(len(got) + len(second)))
	c.AddStates(int64(len(got)+len(second)) + 1)
	c.AddTraces(2)
	switch {
	case g.Hung || g.Panicked:
		c.Violation("TestC16", "terminates", "hang-or-panic", tags, k, "%s: hung=%v panic=%v\n%s", k.key(), g.Hung, g.Panic, g.Stack)
		c.Outcome("violation")
		BailIfStuck(c, g)
	case err != nil:
		c.Violation("TestC16", "call-succeeds", "error", tags, k, "%s: call failed: %v", k.key(), err)
		c.Outcome("violation")
	case strings.Join(got, " ") != strings.Join(want, " "):
		c.Violation("TestC16", "onion-order", "mismatch", tags, k, "%s: event log\n    %v\n  reference onion of the flat list %v\n    %v", k.key(), got, flat, want)
		c.Outcome("violation")
	case strings.Join(second, " ") != strings.Join(want, " "):
		c.Violation("TestC16", "onion-order", "mismatch-on-reuse", append(tags, "options-reused"), k, "%s: a second client/handler built from the same option values logs\n    %v\n  reference onion of the flat list %v\n    %v", k.key(), second, flat, want)
		c.Outcome("violation")
	default:
		c.Outcome("ok")
	}
}

// c16CtxEnds: the request context ends (cancel at the last byte of the request
// body, or a deadline expiring during a slow upload) after dispatch but before
// the handler's first Receive returns.  Whatever the library then does with the
// call, every interceptor must still have wrapped it exactly once, in
// declaration order.
func c16CtxEnds(t *testing.T, c *ev.Collector) {
	idx := 0
	for _, p := range AllProtos {
		for _, kind := range AllKinds {
			for _, how := range []string{"cancel-at-last-byte", "deadline-during-upload"} {
				for _, grouping := range []string{"one-group", "two-groups"} {
					idx++
					if !ev.Mine(idx) {
						continue
					}
					key := fmt.Sprintf("ctx-ends/%s/%s/%s/%s", p, kind, how, grouping)
					c.Case(key, true)
					Bubble(t, func() {
						var log []string
						a, b, d := &logI{id: 1, log: &log}, &logI{id: 2, log: &log}, &logI{id: 3, log: &log}
						opts := []connect.HandlerOption{connect.WithInterceptors(a, b, d)}
						if grouping == "two-groups" {
							opts = []connect.HandlerOption{connect.WithInterceptors(a, b), connect.WithOptions(connect.WithInterceptors(d))}
						}
						h := NewHandler(kind, func(ctx context.Context, s HStream) error {
							log = append(log, "core")
							_, _ = s.Receive()
							return nil
						}, opts...)
						ctx, cancel := context.WithCancel(context.Background())
						defer cancel()
						body := &endingReader{data: RawBody(p, kind, false, []byte{7})}
						req := RawRequest(ctx, p, kind, false, body)
						if how == "cancel-at-last-byte" {
							body.atEnd = cancel
						} else {
							body.pause = 200 * time.Millisecond
							if p == PConnect {
								req.Header.Set("Connect-Timeout-Ms", "50")
							} else {
								req.Header.Set("Grpc-Timeout", "50m")
							}
						}
						rec := httptest.NewRecorder()
						g := GuardedFor(time.Hour, func() { h.ServeHTTP(rec, req) })
						c.AddTransitions(int64(len(log)) + 1)
						c.AddStates(int64(len(log)) + 1)
						c.AddTraces(1)
						tags := []string{"kind=" + kind.String(), "side=handler", "ctx-ends-during-request"}
						if g.Hung || g.Panicked {
							c.Violation("TestC16", "terminates", "hang-or-panic", tags, key, "%s: hung=%v panic=%v", key, g.Hung, g.Panic)
							c.Outcome("violation")
							BailIfStuck(c, g)
							return
						}
						var enters []string
						for _, e := range log {
							if strings.HasPrefix(e, "enter:") {
								enters = append(enters, e)
							}
						}
						if strings.Join(enters, " ") != "enter:1 enter:2 enter:3" {
							c.Violation("TestC16", "wraps-once", "mismatch", tags, key, "%s: the interceptors that wrapped the call: %v (full log %v); want each of 1 2 3 once, in order; response %d %q", key, enters, log, rec.Code, clip(rec.Body.String(), 120))
							c.Outcome("violation")
							return
						}
						c.Outcome("ok")
					})
				}
			}
		}
	}
}

func TestC16(t *testing.T) {
	c := ev.New("C16")
	defer func() { _ = c.Finish() }()
	c.SetRule("configuration enumeration: interceptor lists of length 0..n with nil at any subset of positions x every composition into consecutive WithInterceptors groups x an optional empty group at every position x every bundling of the groups into wrapper bundles x wrappers {flat, WithOptions, With{Client,Handler}Options, Side(WithOptions), WithOptions(WithOptions)} (all combinations for <=2 bundles, uniform for more), and every option tree (direct groups and nested WithOptions / With{Client,Handler}Options composites as siblings, nesting depth per bounds) over 2..4 single-interceptor groups, x {unary, client, server, bidi} x {client, handler} x protocols (rotating); an option that is not an interceptor list (WithRecover, WithCompressMinBytes, WithReadMaxBytes, WithCodec) at every top-level position among 1..3 interceptors in every grouping; each configuration is built with the real option constructors, one real call is made and the interceptor event log is compared with the reference onion of the flat non-nil list; non-trivial = at least one non-nil interceptor")
	c.Assume("interceptors observe only their own first Send/Receive per call", "one protocol per configuration (rotating): ordering logic is protocol independent")
	if ev.ReplayFile() != "" {
		var sk c16SchedCase
		if _, err := ev.LoadReplay(&sk); err == nil && sk.Bound > 0 {
			c16SchedReplay(t, c, sk)
			return
		}
		var k c16Case
		if _, err := ev.LoadReplay(&k); err != nil {
			t.Fatal(err)
		}
		Bubble(t, func() { c16Check(c, k) })
		return
	}
	thorough := ev.Thorough()
	c.Bound("max_list_length", 4)
	cases := c16Cases(thorough)
	idx := 0
	for _, base := range cases {
		for _, kind := range AllKinds {
			for _, client := range []bool{true, false} {
				idx++
				if !ev.Mine(idx) {
					continue
				}
				if c.Expired() {
					return
				}
				k := base
				k.Kind, k.Client = kind, client
				k.Proto = AllProtos[idx%3]
				nonNil := k.N - popcount(k.NilMask)
				c.Case(k.key(), nonNil > 0)
				Bubble(t, func() { c16Check(c, k) })
				if k.Empty < 0 && len(k.Wrap) == 1 && k.Wrap[0] == 0 && k.N >= 2 {
					if kind == KUnary {
						kf := k
						kf.FuncTypes = true
						c.Case(kf.key(), nonNil > 0)
						Bubble(t, func() { c16Check(c, kf) })
					}
					// an interceptor that is the zero value of a struct type, at every position
					for zp := 1; zp <= k.N; zp++ {
						if k.NilMask&(1<<(zp-1)) != 0 {
							continue
						}
						kz := k
						kz.ZeroPos = zp
						c.Case(kz.key(), true)
						Bubble(t, func() { c16Check(c, kz) })
					}
					// every mix of the two interceptor types, on every kind of call
					for fm := 1; fm < (1<<k.N)-1; fm++ {
						km := k
						km.FuncMask = fm
						c.Case(km.key(), nonNil > 0)
						Bubble(t, func() { c16Check(c, km) })
					}
					if k.Cuts != 0 {
						ks := k
						ks.SharedLast = true
						c.Case(ks.key(), nonNil > 0)
						Bubble(t, func() { c16Check(c, ks) })
					}
				}
				// an option that is not an interceptor list at every top-level position among the groups
				if k.Empty < 0 && k.N >= 1 && k.N <= 3 && k.NilMask == 0 && len(k.Wrap) == 1 && (k.Wrap[0] == 0 || (k.Wrap[0] == 1 && k.Bundles != 0)) {
					top := 1 + popcount(k.Cuts)
					if k.Wrap[0] == 1 {
						top = 1 + popcount(k.Bundles)
					}
					for _, extra := range []string{"recover", "minbytes", "readmax", "codec"} {
						if extra == "recover" && client {
							continue
						}
						for pos := 0; pos <= top; pos++ {
							ke := k
							ke.Extra, ke.ExtraPos = extra, pos
							c.Case(ke.key(), true)
							Bubble(t, func() { c16Check(c, ke) })
						}
					}
				}
				if idx%9973 == 0 {
					c.Sample(map[string]any{"case": k.key(), "wrappers": c16WrapNames})
				}
			}
		}
	}
	c16CtxEnds(t, c)
	c16Sched(t, c, thorough)
	// option trees: every bracket expression (mixed direct groups and nested
	// composites as siblings) over single-interceptor groups
	type treeDim struct{ n, depth int }
	dims := []treeDim{{2, 3}, {3, 2}, {4, 1}}
	if thorough {
		dims = []treeDim{{2, 3}, {3, 3}, {4, 2}}
	}
	var trees int64
	for _, d := range dims {
		for _, tree := range c16Forests(0, d.n, d.depth, true) {
			trees++
			for _, kind := range AllKinds {
				for _, client := range []bool{true, false} {
					idx++
					if !ev.Mine(idx) {
						continue
					}
					if c.Expired() {
						return
					}
					k := c16Case{N: d.n, Cuts: 1<<(d.n-1) - 1, Empty: -1, Tree: tree, Kind: kind, Client: client, Proto: AllProtos[idx%3]}
					c.Case(k.key(), true)
					Bubble(t, func() { c16Check(c, k) })
				}
			}
		}
	}
	if sh, _ := ev.Shard(); sh == 0 {
		c.AddExtra("option_trees", trees)
	}
	c.Bound("option_tree_leaves", 4)
	c.Bound("option_tree_depth_at_2_3_4_leaves", dims[0].depth*100+dims[1].depth*10+dims[2].depth)
	c.Sample(map[string]any{"cases_per_shard_base": len(cases), "option_trees": trees})
}
