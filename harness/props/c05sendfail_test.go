package props

import (
	"context"
	"errors"
	"fmt"
	"testing"

	connect "github.com/bufbuild/connect-go"
	"google.golang.org/protobuf/proto"

	"verifharness/ev"
	"verifharness/memhttp"
	"verifharness/refwire"
)

// failingCodec is the proto codec except that marshalling the marker message
// fails (as an application message with invalid contents, or a broken custom
// codec, would).
type failingCodec struct{ name string }

var errMarshalMarker = errors.New("marshal: message rejected by the codec")

func (f failingCodec) Name() string { return f.name }
func (f failingCodec) Marshal(m any) ([]byte, error) {
	if bv, ok := m.(*BV); ok && string(bv.Value) == "FAIL-MARSHAL" {
		return nil, errMarshalMarker
	}
	pm, ok := m.(proto.Message)
	if !ok {
		return nil, errors.New("not proto")
	}
	return proto.Marshal(pm)
}
func (f failingCodec) Unmarshal(b []byte, m any) error {
	pm, ok := m.(proto.Message)
	if !ok {
		return errors.New("not proto")
	}
	return proto.Unmarshal(b, pm)
}

// c05SendFails: the handler's k-th Send fails inside the codec (nothing of that
// message reaches the wire) and the handler returns the Send's error.  The
// recorded response must still be well-formed for the protocol - in particular
// carry exactly one grpc-status / end-of-stream / JSON error - and the client
// must see a coded error, never success.
func c05SendFails(t *testing.T, c *ev.Collector) {
	idx := 0
	for _, p := range AllProtos {
		for _, kind := range AllKinds {
			for failAt := 0; failAt <= 2; failAt++ {
				if !kind.ServerStreams() && failAt > 0 {
					continue
				}
				for _, withMeta := range []bool{false, true} {
					idx++
					if !ev.Mine(idx) {
						continue
					}
					key := fmt.Sprintf("send-fails/%s/%s/at%d/meta=%v", p, kind, failAt, withMeta)
					c.Case(key, true)
					Bubble(t, func() {
						h := NewHandler(kind, func(ctx context.Context, s HStream) error {
							for {
								if _, err := s.Receive(); err != nil {
									break
								}
							}
							if withMeta {
								s.ResponseHeader().Set("X-H", "hv")
								s.ResponseTrailer().Set("X-T", "tv")
							}
							for i := 0; i < failAt; i++ {
								if err := s.Send(&BV{Value: Payload(20+i, byte('a'+i))}); err != nil {
									return err
								}
							}
							return s.Send(&BV{Value: []byte("FAIL-MARSHAL")})
						}, connect.WithCodec(failingCodec{"proto"}), connect.WithCompressMinBytes(1<<20))
						tr := &memhttp.Transport{Handler: h, Proto: 2, SyncCloseReq: true}
						cl := NewClient(tr, Cfg{Proto: p, Comp: CompNone, Kind: kind, HTTP: 2})
						var res CallResult
						g := Guarded(func() { res = RunCall(context.Background(), cl, kind, [][]byte{{1}}, nil) }, tr)
						c.AddTransitions(4)
						c.AddStates(4)
						c.AddTraces(1)
						tags := []string{"proto=" + p.String(), "kind=" + kind.String(), "send-fails-in-codec"}
						viol := func(clause, outcome, format string, args ...any) {
							c.Violation("TestC05", clause, outcome, tags, key, "%s: "+format, append([]any{key}, args...)...)
						}
						if g.Hung || g.Panicked {
							viol("terminates", "hang-or-panic", "hung=%v panic=%v", g.Hung, g.Panic)
							c.Outcome("violation")
							BailIfStuck(c, g)
							return
						}
						ex := tr.Last()
						if ex == nil {
							c.HarnessError("%s: no exchange recorded", key)
							return
						}
						bad := false
						rs := refwire.DecodeResponse(wireProto(p), kind == KUnary, ex.ReqHeader.Get("Content-Type"), ex.Status, ex.RespHeader, ex.RespBody, ex.RespTrail, AnyDecompress)
						if len(rs.Problems) > 0 {
							bad = true
							viol("response-conforms", "problems", "status %d headers %v body %x trailers %v: %v", ex.Status, ex.RespHeader, clipBytes(ex.RespBody, 80), ex.RespTrail, rs.Problems)
						} else if !rs.End.Present || rs.End.Code == 0 {
							bad = true
							viol("response-conforms", "no-error-status", "the failed Send's error is not on the wire: end present=%v code=%d", rs.End.Present, rs.End.Code)
						}
						if res.Err == nil || connect.CodeOf(res.Err) == 0 {
							bad = true
							viol("error-not-success", "success", "client observed %v with %d messages", res.Err, len(res.Msgs))
						}
						if len(res.Msgs) > failAt {
							bad = true
							viol("yields-supplied-values", "messages", "client received %d messages, the handler sent %d before the failing one", len(res.Msgs), failAt)
						}
						if bad {
							c.Outcome("violation")
						} else {
							c.Outcome("conforms")
						}
					})
				}
			}
		}
	}
}
