package props

import (
	"bytes"
	"context"
	"errors"
	"fmt"
	"io"
	"net/http"
	"net/http/httptest"
	"strings"
	"sync"
	"testing"

	connect "github.com/bufbuild/connect-go"

	"verifharness/bsched"
	"verifharness/ev"
	"verifharness/memhttp"
	"verifharness/refwire"
)

// C13 — concurrent calls on shared clients and handlers never interfere.
//
// Engine: two (thorough: up to three) driver threads run complete calls with
// pairwise distinct payloads on ONE shared Client and ONE shared Handler
// (shared deterministic LIFO pools that poison released buffers) under the
// controlled scheduler; every schedule within the delay bound is executed and
// each call's full observation is compared with the same call run alone.

type c13Call struct {
	Sizes   []int `json:"sizes"`    // encoded sizes of the request messages
	ErrCode int   `json:"err_code"` // handler returns this code (0 = success) with a per-call message
}

type c13Case struct {
	Name    string    `json:"name"`
	Cfg     Cfg       `json:"cfg"`
	Calls   []c13Call `json:"calls"`
	OneBidi bool      `json:"one_bidi"` // sender || receiver on one bidi stream instead
	// Pre: a call made through the shared handler before the concurrent calls start ("corrupt-crc": gzip with intact deflate data and a wrong CRC trailer; "corrupt-trunc": truncated gzip data).
	Pre string `json:"pre,omitempty"`
	// RR: explore around the round-robin default scheduler instead of run-to-block.
	RR bool `json:"rr,omitempty"`
	// Early: the handler answers after the first request message without
	// waiting for the end of the request stream (calls send one message).
	Early bool `json:"early,omitempty"`
	// DuplexHandler: the bidi handler answers each request from a second
	// goroutine while its main loop is already receiving the next one.
	DuplexHandler bool `json:"duplex_handler,omitempty"`
	// RecvFirst (one bidi stream): the receiver goroutine starts on its own, not
	// after the sender's first Send, and the sender fills in the request headers
	// just before that Send ("headers are sent with the first call to Send").
	RecvFirst bool  `json:"recv_first,omitempty"`
	Bound     int   `json:"bound"`
	Sub       int   `json:"sub"`  // sub-shard of the root's children
	Subs      int   `json:"subs"` //
	Prefix    []int `json:"prefix,omitempty"`
}

func (k c13Case) key() string {
	pol := "rtb"
	if k.RR {
		pol = "rr"
	}
	if k.Bound > 1 {
		pol += fmt.Sprintf("/d%d", k.Bound)
	}
	return fmt.Sprintf("%s/%s/%s/%d-of-%d", k.Name, k.Cfg, pol, k.Sub, k.Subs)
}

func c13Payloads(call int, sizes []int) [][]byte {
	out := make([][]byte, len(sizes))
	for i, sz := range sizes {
		p := Payload(sz, byte(0x10+call*0x40+i*5))
		// tag every payload with the call it belongs to
		if len(p) >= 2 {
			p[0], p[1] = byte('A'+call), byte('0'+i)
		}
		out[i] = p
	}
	return out
}

// c13Handler: receive everything, then answer.  Streaming-response kinds get
// one response per request ('r' + request); single-response kinds get 'r' +
// concatenation.  Headers and trailers echo the call id.
func c13Handler(kind Kind, rec *c13Recorder, opts ...connect.HandlerOption) *connect.Handler {
	return c13HandlerEarly(kind, rec, false, opts...)
}

// c13HandlerEarly: with early set, the handler answers after the first request
// message without waiting for the end of the request stream.
func c13HandlerEarly(kind Kind, rec *c13Recorder, early bool, opts ...connect.HandlerOption) *connect.Handler {
	// one error value returned by every call that asks for it (X-Fail: -1), as a handler returning a
	// package-level error does; it carries metadata from the start, the library only ever reads it
	shared := connect.NewError(connect.CodeFailedPrecondition, errors.New("the shared failure"))
	shared.Meta().Set("X-Err", "shared")
	return NewHandler(kind, func(ctx context.Context, s HStream) error {
		id := s.RequestHeader().Get("X-Call")
		var got [][]byte
		for {
			m, err := s.Receive()
			if err != nil {
				if !errors.Is(err, io.EOF) {
					return err
				}
				break
			}
			got = append(got, cloneBytes(m.Value))
			rec.retain("handler-recv:"+id, m.Value)
			rec.retainMsg("handler-recv-message:"+id, m)
			if early {
				break
			}
		}
		s.ResponseHeader().Set("X-Echo", id)
		s.ResponseTrailer().Set("X-Tr", id)
		if code := s.RequestHeader().Get("X-Fail"); code != "" {
			var c int
			fmt.Sscan(code, &c)
			if c < 0 {
				return shared
			}
			e := connect.NewError(connect.Code(c), errors.New("failure of call "+id+" "+strings.Repeat(id, 40)))
			e.Meta().Set("X-Err", id)
			return e
		}
		if kind.ServerStreams() {
			for _, g := range got {
				if err := s.Send(&BV{Value: append([]byte{'r'}, g...)}); err != nil {
					return err
				}
			}
			return nil
		}
		return s.Send(&BV{Value: append([]byte{'r'}, bytes.Join(got, nil)...)})
	}, opts...)
}

// c13DuplexHandler: full-duplex bidi handler - the receive loop hands every
// request to a second goroutine, which answers it while the loop is already
// inside the next Receive.
func c13DuplexHandler(rec *c13Recorder, opts ...connect.HandlerOption) *connect.Handler {
	return NewHandler(KBidi, func(ctx context.Context, s HStream) error {
		id := s.RequestHeader().Get("X-Call")
		s.ResponseHeader().Set("X-Echo", id)
		s.ResponseTrailer().Set("X-Tr", id)
		work := make(chan []byte, 16)
		sendErr := make(chan error, 1)
		go func() {
			var err error
			for g := range work {
				if err == nil {
					err = s.Send(&BV{Value: append([]byte{'r'}, g...)})
				}
			}
			sendErr <- err
		}()
		var recvErr error
		for {
			m, err := s.Receive()
			if err != nil {
				if !errors.Is(err, io.EOF) {
					recvErr = err
				}
				break
			}
			rec.retain("handler-recv:"+id, m.Value)
			work <- cloneBytes(m.Value)
		}
		close(work)
		if err := <-sendErr; err != nil {
			return err
		}
		return recvErr
	}, opts...)
}

// c13Recorder keeps live references handed to user code next to deep copies
// taken on receipt; they must still agree at the end.
type c13Recorder struct {
	mu       sync.Mutex
	live     [][]byte
	copies   [][]byte
	labels   []string
	msgs     []*BV    // message objects handed to user code ...
	msgCopy  [][]byte // ... and what they held on receipt
	msgLabel []string
	errs     []error  // error values handed to user code ...
	errMeta  []string // ... and what their metadata said on receipt
	errLabel []string
}

func errMetaString(err error) string {
	var ce *connect.Error
	if !errors.As(err, &ce) {
		return "(not a connect error)"
	}
	return fmt.Sprintf("echo=%v tr=%v err=%v", ce.Meta().Values("X-Echo"), ce.Meta().Values("X-Tr"), ce.Meta().Values("X-Err"))
}

func (r *c13Recorder) retainErr(label string, err error) {
	if err == nil {
		return
	}
	r.mu.Lock()
	defer r.mu.Unlock()
	r.errs = append(r.errs, err)
	r.errMeta = append(r.errMeta, errMetaString(err))
	r.errLabel = append(r.errLabel, label)
}

// retainMsg keeps the message object itself (not only its bytes): a library
// that recycles message objects changes it under the user's feet.
func (r *c13Recorder) retainMsg(label string, m *BV) {
	if m == nil {
		return
	}
	r.mu.Lock()
	defer r.mu.Unlock()
	r.msgs = append(r.msgs, m)
	r.msgCopy = append(r.msgCopy, cloneBytes(m.Value))
	r.msgLabel = append(r.msgLabel, label)
}

func (r *c13Recorder) retain(label string, b []byte) {
	r.mu.Lock()
	defer r.mu.Unlock()
	r.live = append(r.live, b)
	r.copies = append(r.copies, cloneBytes(b))
	r.labels = append(r.labels, label)
}

func (r *c13Recorder) check() string {
	for i := range r.live {
		if !bytes.Equal(r.live[i], r.copies[i]) {
			return fmt.Sprintf("%s: value handed to user code changed afterwards: was %s, now %s", r.labels[i], shortBytes(r.copies[i]), shortBytes(r.live[i]))
		}
	}
	for i, m := range r.msgs {
		if !bytes.Equal(m.Value, r.msgCopy[i]) {
			return fmt.Sprintf("%s: message object handed to user code changed afterwards: held %s, now holds %s", r.msgLabel[i], shortBytes(r.msgCopy[i]), shortBytes(m.Value))
		}
	}
	for i, e := range r.errs {
		if now := errMetaString(e); now != r.errMeta[i] {
			return fmt.Sprintf("%s: metadata of an error handed to user code changed afterwards: was %s, now %s", r.errLabel[i], r.errMeta[i], now)
		}
	}
	return ""
}

var poisonSeq = bytes.Repeat([]byte{0xDB}, 4)

// c13TestName is the test that replays violations found by c13Explore (C08
// reuses the concurrent after-corruption scenarios under its own name).
var c13TestName = "TestC13"

// c13AfterCorrupt: two valid compressed calls run concurrently after a corrupt
// compressed call went through the same handler.
func c13AfterCorrupt() []c13Case {
	var out []c13Case
	for _, pre := range []string{"corrupt-crc", "corrupt-trunc"} {
		for _, sc := range []struct {
			name  string
			cfg   Cfg
			calls []c13Call
		}{
			{"after-" + pre, Cfg{Proto: PConnect, Comp: CompSendGzip, Kind: KUnary, HTTP: 2}, []c13Call{{Sizes: []int{90}}, {Sizes: []int{120}}}},
			{"after-" + pre + "-grpc", Cfg{Proto: PGRPC, Comp: CompSendGzip, Kind: KClient, HTTP: 2}, []c13Call{{Sizes: []int{90, 70}}, {Sizes: []int{120}}}},
		} {
			for sub := 0; sub < 4; sub++ {
				for _, rr := range []bool{false, true} {
					out = append(out, c13Case{Name: sc.name, Cfg: sc.cfg, Calls: sc.calls, Bound: 1, Sub: sub, Subs: 4, Pre: pre, RR: rr})
				}
			}
		}
	}
	return out
}

func obsString(res CallResult) string {
	var sb strings.Builder
	for _, m := range res.Msgs {
		fmt.Fprintf(&sb, "%x|", m)
	}
	if res.Err != nil {
		var ce *connect.Error
		if errors.As(res.Err, &ce) {
			fmt.Fprintf(&sb, " err=%v:%s meta=%v/%v/%v", ce.Code(), ce.Message(), ce.Meta().Values("X-Err"), ce.Meta().Values("X-Tr"), ce.Meta().Values("X-Echo"))
		} else {
			fmt.Fprintf(&sb, " err=%v", res.Err)
		}
	}
	fmt.Fprintf(&sb, " echo=%v tr=%v", res.Header.Values("X-Echo"), res.Trailer.Values("X-Tr"))
	if res.EndErr != nil {
		fmt.Fprintf(&sb, " end-of-stream-error-meta{%s}", errMetaString(res.EndErr))
	}
	return sb.String()
}

func c13RunOne(ctx context.Context, cl *connect.Client[BV, BV], kind Kind, call int, spec c13Call, rec *c13Recorder) CallResult {
	hdr := http.Header{"X-Call": []string{fmt.Sprint(call)}}
	if spec.ErrCode != 0 {
		hdr.Set("X-Fail", fmt.Sprint(spec.ErrCode))
	}
	res := RunCall(ctx, cl, kind, c13Payloads(call, spec.Sizes), hdr)
	for _, m := range res.Msgs {
		rec.retain(fmt.Sprintf("client-recv:%d", call), m)
	}
	rec.retainErr(fmt.Sprintf("client-end-of-stream:%d", call), res.EndErr)
	rec.retainErr(fmt.Sprintf("client-error:%d", call), res.Err)
	return res
}

type c13Obs struct {
	Wrong    string // a call's result differs from what the handler program must answer
	Results  []string
	Retained string
	Poison   string
	Stacks   string
	Leaked   []string
}

// c13Pre sends the preparatory (corrupt) request straight into the shared handler.
func c13Pre(k c13Case, h http.Handler) {
	if k.Pre == "" {
		return
	}
	payload := codecMarshal(k.Cfg.JSON, &BV{Value: Payload(80, 0x7e)})
	z := Gzip(payload)
	switch k.Pre {
	case "corrupt-crc":
		z[len(z)-6] ^= 0xff // inside the CRC32 of the gzip trailer
	case "corrupt-trunc":
		z = z[:len(z)/2]
	}
	body := z
	ct := contentType(k.Cfg.Proto, k.Cfg.Kind, k.Cfg.JSON)
	if !(k.Cfg.Proto == PConnect && k.Cfg.Kind == KUnary) {
		body = refwire.Envelope(1, z)
	}
	req := httptest.NewRequest("POST", "http://mem.test"+Procedure, bytes.NewReader(body))
	req.ProtoMajor, req.ProtoMinor, req.Proto = 2, 0, "HTTP/2.0"
	req.Header.Set("Content-Type", ct)
	encH, _ := encHeaders(k.Cfg.Proto, k.Cfg.Kind)
	req.Header.Set(encH, "gzip")
	req.Header.Set("X-Call", "pre")
	h.ServeHTTP(httptest.NewRecorder(), req)
}

func c13Body(k c13Case, s *bsched.Sched) any {
	obs := &c13Obs{}
	rec := &c13Recorder{}
	h := c13HandlerEarly(k.Cfg.Kind, rec, k.Early, k.Cfg.HandlerOptions()...)
	if k.DuplexHandler {
		h = c13DuplexHandler(rec, append(k.Cfg.HandlerOptions(), connect.WithCompressMinBytes(1))...)
	}
	c13Pre(k, h)
	tr := &memhttp.Transport{Handler: h, Proto: 2, ReqMode: k.Cfg.ReqMode, MutateURL: true}
	if s != nil {
		tr.Gate = s.Gate
	} else {
		tr.SyncCloseReq = true
	}
	cl := NewClient(tr, k.Cfg)
	ctx := context.Background()
	results := make([]CallResult, len(k.Calls))
	if k.OneBidi {
		results = make([]CallResult, 1)
	}
	switch {
	case s == nil:
		// solo reference runs: the calls one after the other on fresh shared instances
		panic("solo runs use c13Solo")
	case k.OneBidi:
		stream := cl.CallBidiStream(ctx)
		if !k.RecvFirst {
			stream.RequestHeader().Set("X-Call", "0")
		}
		pay := c13Payloads(0, k.Calls[0].Sizes)
		first := make(chan struct{})
		sender := "a.send"
		if k.RecvFirst {
			sender = "z.send" // sorts after the receiver and the goroutines it starts: the default schedule lets the receiver go first
		}
		s.Go(sender, func() {
			if k.RecvFirst {
				stream.RequestHeader().Set("X-Call", "0")
			}
			for i, p := range pay {
				_ = stream.Send(&BV{Value: p})
				if i == 0 {
					close(first)
				}
			}
			if len(pay) == 0 {
				close(first)
			}
			_ = stream.CloseRequest()
		})
		s.Go("b.recv", func() {
			if !k.RecvFirst {
				<-first
			}
			s.Gate("b.go")
			for {
				m, err := stream.Receive()
				if err != nil {
					if !errors.Is(err, io.EOF) {
						results[0].Err = err
					} else {
						results[0].EndErr = err
						rec.retainErr("client-end-of-stream:0", err)
					}
					break
				}
				results[0].Msgs = append(results[0].Msgs, cloneBytes(m.Value))
				rec.retain("client-recv:0", m.Value)
			}
			results[0].Header, results[0].Trailer = stream.ResponseHeader(), stream.ResponseTrailer()
			_ = stream.CloseResponse()
		})
	default:
		for i := range k.Calls {
			i := i
			s.Go(fmt.Sprintf("t%d", i), func() {
				results[i] = c13RunOne(ctx, cl, k.Cfg.Kind, i, k.Calls[i], rec)
			})
		}
	}
	s.Run()
	if s.Deadlock || s.Horizon {
		obs.Stacks = bsched.AllStacks()
	} else if s.Diverged == "" {
		obs.Leaked = bsched.LibraryGoroutines()
	}
	for i, r := range results {
		if i < len(k.Calls) {
			want, failed := c13Expected(k.Cfg.Kind, i, k.Calls[i])
			switch {
			case failed && r.Err == nil:
				obs.Wrong = fmt.Sprintf("call %d must fail but succeeded with %s", i, shortMsgs(r.Msgs))
			case !failed && r.Err != nil:
				obs.Wrong = fmt.Sprintf("call %d failed: %v", i, r.Err)
			case !failed && !equalMsgs(r.Msgs, want):
				obs.Wrong = fmt.Sprintf("call %d received %s, the handler program answers %s", i, shortMsgs(r.Msgs), shortMsgs(want))
			}
		}
		obs.Results = append(obs.Results, obsString(r))
		for _, m := range r.Msgs {
			if bytes.Contains(m, poisonSeq) {
				obs.Poison = "client received a message containing bytes of a released buffer: " + shortBytes(m)
			}
		}
	}
	for i, ex := range tr.Exchanges {
		if ex.URL != BaseURL+Procedure && obs.Wrong == "" {
			obs.Wrong = fmt.Sprintf("request %d was sent to %q, the client was built for %q (another call's request state leaked into it)", i, ex.URL, BaseURL+Procedure)
		}
	}
	obs.Retained = rec.check()
	for i, c := range rec.copies {
		if bytes.Contains(c, poisonSeq) && obs.Poison == "" {
			obs.Poison = rec.labels[i] + ": message contains bytes of a released buffer: " + shortBytes(c)
		}
	}
	tr.AbortAll()
	s.Release()
	return obs
}

// c13Solo computes the reference observation of every call run alone.
func c13Solo(t *testing.T, k c13Case) []string {
	var out []string
	Bubble(t, func() {
		if k.OneBidi {
			rec := &c13Recorder{}
			h := c13Handler(k.Cfg.Kind, rec, k.Cfg.HandlerOptions()...)
			if k.DuplexHandler {
				h = c13DuplexHandler(rec, append(k.Cfg.HandlerOptions(), connect.WithCompressMinBytes(1))...)
			}
			tr := &memhttp.Transport{Handler: h, Proto: 2, ReqMode: k.Cfg.ReqMode, SyncCloseReq: true}
			cl := NewClient(tr, k.Cfg)
			var res CallResult
			Guarded(func() { res = c13RunOne(context.Background(), cl, KBidi, 0, k.Calls[0], rec) }, tr)
			out = append(out, obsString(res))
			return
		}
		for i, call := range k.Calls {
			rec := &c13Recorder{}
			h := c13HandlerEarly(k.Cfg.Kind, rec, k.Early, k.Cfg.HandlerOptions()...)
			c13Pre(k, h)
			tr := &memhttp.Transport{Handler: h, Proto: 2, ReqMode: k.Cfg.ReqMode, SyncCloseReq: true}
			cl := NewClient(tr, k.Cfg)
			var res CallResult
			Guarded(func() { res = c13RunOne(context.Background(), cl, k.Cfg.Kind, i, call, rec) }, tr)
			out = append(out, obsString(res))
		}
	})
	return out
}

// c13Expected is the reference observation of a call computed from the
// scenario alone (what the handler program must answer).
func c13Expected(kind Kind, call int, spec c13Call) (msgs [][]byte, failed bool) {
	pay := c13Payloads(call, spec.Sizes)
	if spec.ErrCode != 0 {
		return nil, true
	}
	if !kind.ClientStreams() && len(pay) > 1 {
		pay = pay[:1] // single-request kinds send only the first payload
	}
	if kind.ServerStreams() {
		for _, p := range pay {
			msgs = append(msgs, append([]byte{'r'}, p...))
		}
		return msgs, false
	}
	return [][]byte{append([]byte{'r'}, bytes.Join(pay, nil)...)}, false
}

func c13Judge(c *ev.Collector, k c13Case, x *bsched.Exec, solo []string) string {
	obs := x.Obs.(*c13Obs)
	kk := k
	kk.Prefix = x.TrimmedChoices()
	tags := append(k.Cfg.Tags(), "scenario="+k.Name)
	viol := func(clause, outcome, format string, args ...any) {
		c.Violation(c13TestName, clause, outcome, tags, kk, "%s [%s]: "+format+"\n  schedule: %v", append(append([]any{k.key(), schedLine(x)}, args...), traceOf(x, 500))...)
	}
	if x.Horizon {
		c.NotExhaustive("step horizon reached in " + k.key())
		return "horizon"
	}
	if x.Deadlock {
		viol("terminates", "deadlock", "blocked threads %v\n%s", x.Blocked, trimStacks(obs.Stacks))
		return "deadlock"
	}
	bad := false
	for i := range obs.Results {
		if i < len(solo) && obs.Results[i] != solo[i] {
			bad = true
			viol("same-as-solo", "differs", "call %d observed\n    %s\n  alone it observes\n    %s", i, clip(obs.Results[i], 600), clip(solo[i], 600))
		}
	}
	if obs.Wrong != "" {
		bad = true
		viol("result-correct", "wrong", "%s", obs.Wrong)
	}
	if obs.Poison != "" {
		bad = true
		viol("no-released-buffer-visible", "poison", "%s", obs.Poison)
	}
	if obs.Retained != "" {
		bad = true
		viol("retained-values-intact", "changed", "%s", obs.Retained)
	}
	if len(obs.Leaked) > 0 {
		bad = true
		viol("no-leak", "goroutine-leak", "%s", strings.Join(obs.Leaked, "\n\n"))
	}
	if bad {
		return "violation"
	}
	return "ok"
}

func clip(s string, n int) string {
	if len(s) > n {
		return s[:n] + "..."
	}
	return s
}

func c13Scenarios(thorough bool) []c13Case {
	var out []c13Case
	add := func(name string, cfg Cfg, onebidi bool, calls ...c13Call) {
		cfg.HTTP = 2
		subs := 4
		for sub := 0; sub < subs; sub++ {
			out = append(out, c13Case{Name: name, Cfg: cfg, Calls: calls, OneBidi: onebidi, Bound: 1, Sub: sub, Subs: subs})
			out = append(out, c13Case{Name: name, Cfg: cfg, Calls: calls, OneBidi: onebidi, Bound: 1, Sub: sub, Subs: subs, RR: true})
		}
		if thorough && !strings.HasPrefix(name, "t-") {
			// every pair of delays for the base scenarios
			subs2 := 32
			for sub := 0; sub < subs2; sub++ {
				out = append(out, c13Case{Name: name + "@d2", Cfg: cfg, Calls: calls, OneBidi: onebidi, Bound: 2, Sub: sub, Subs: subs2})
			}
		}
	}
	small := c13Call{Sizes: []int{3}}
	mid := c13Call{Sizes: []int{600}}
	two := c13Call{Sizes: []int{5, 40}}
	fail := c13Call{Sizes: []int{4}, ErrCode: int(connect.CodeAborted)}
	fail2 := c13Call{Sizes: []int{6}, ErrCode: int(connect.CodeNotFound)}
	add("unary-unary", Cfg{Proto: PConnect, Comp: CompDefault, Kind: KUnary}, false, small, mid)
	add("unary-unary-gzip", Cfg{Proto: PGRPC, Comp: CompSendGzip, Kind: KUnary}, false, small, mid)
	add("unary-errors", Cfg{Proto: PGRPCWeb, Comp: CompDefault, Kind: KUnary}, false, fail, fail2)
	add("json-unary", Cfg{Proto: PConnect, JSON: true, Comp: CompSendGzip, Kind: KUnary}, false, small, mid)
	add("client-client", Cfg{Proto: PGRPC, Comp: CompDefault, Kind: KClient}, false, two, c13Call{Sizes: []int{7}})
	add("server-server", Cfg{Proto: PConnect, Comp: CompSendGzip, Kind: KServer}, false, small, fail)
	add("bidi-bidi", Cfg{Proto: PGRPCWeb, Comp: CompDefault, Kind: KBidi}, false, two, small)
	// both calls fail with the same error value (the handler's own, with metadata), each with its own trailers
	sharedFail := c13Call{Sizes: []int{4}, ErrCode: -1}
	add("server-shared-error", Cfg{Proto: PConnect, Comp: CompDefault, Kind: KServer}, false, sharedFail, sharedFail)
	add("one-bidi-send-recv", Cfg{Proto: PGRPC, Comp: CompDefault, Kind: KBidi}, true, two)
	// ... with the receiver started on its own and the headers set by the sender just before its first Send
	for _, p := range AllProtos {
		for sub := 0; sub < 4; sub++ {
			for _, rr := range []bool{false, true} {
				out = append(out, c13Case{Name: "one-bidi-recv-first", Cfg: Cfg{Proto: p, Comp: CompDefault, Kind: KBidi, HTTP: 2}, Calls: []c13Call{two}, OneBidi: true, RecvFirst: true, Bound: 1, Sub: sub, Subs: 4, RR: rr})
			}
		}
	}
	// one bidi stream, client sends and receives concurrently, full-duplex handler, compressed both ways
	for _, p := range AllProtos {
		for sub := 0; sub < 4; sub++ {
			for _, rr := range []bool{false, true} {
				out = append(out, c13Case{Name: "one-bidi-duplex-handler", Cfg: Cfg{Proto: p, Comp: CompSendGzip, Kind: KBidi, HTTP: 2}, Calls: []c13Call{{Sizes: []int{30, 50, 40}}}, OneBidi: true, DuplexHandler: true, Bound: 1, Sub: sub, Subs: 4, RR: rr})
			}
		}
	}
	out = append(out, c13AfterCorrupt()...)
	if thorough {
		big := c13Call{Sizes: []int{5000}}
		for _, p := range AllProtos {
			add("t-unary-big", Cfg{Proto: p, Comp: CompSendGzip, Kind: KUnary}, false, big, mid)
			add("t-unary-lazy", Cfg{Proto: p, Comp: CompDefault, Kind: KUnary, ReqMode: memhttp.ReqLazy}, false, small, mid)
			add("t-server-err", Cfg{Proto: p, Comp: CompDefault, Kind: KServer}, false, fail, two)
			add("t-one-bidi", Cfg{Proto: p, Comp: CompSendGzip, Kind: KBidi}, true, c13Call{Sizes: []int{5, 600, 0}})
			add("t-custom", Cfg{Proto: p, Comp: CompCustom, Kind: KUnary}, false, small, mid)
			add("t-shared-error", Cfg{Proto: p, Comp: CompDefault, Kind: KBidi}, false, sharedFail, sharedFail)
			add("t-shared-error-unary", Cfg{Proto: p, Comp: CompDefault, Kind: KUnary}, false, sharedFail, small, sharedFail)
		}
		add("t-three-unary", Cfg{Proto: PConnect, Comp: CompSendGzip, Kind: KUnary}, false, small, mid, c13Call{Sizes: []int{40}})
	}
	return out
}

func c13Explore(t *testing.T, c *ev.Collector, k c13Case) {
	schedRoundRobin = false
	solo := c13Solo(t, k)
	schedRoundRobin = k.RR
	defer func() { schedRoundRobin = false }()
	c.Case(k.key(), true)
	outcomes := map[string]int{}
	e := &bsched.Explorer{
		Delay: true,
		Bound: k.Bound,
		Shard: k.Sub, Shards: k.Subs,
		Run: func(prefix []int, expect []bsched.Point) *bsched.Exec {
			return runSched(t, prefix, expect, 20000, func(s *bsched.Sched) any { return c13Body(k, s) }, func(x *bsched.Exec) {
				c13Judge(c, k, x, solo)
				c.NotExhaustive("a deadlocked call could not be torn down; the worker stopped after recording it")
				_ = c.Finish()
			})
		},
		Stop: c.Expired,
	}
	var sample *bsched.Exec
	e.OnExec = func(x *bsched.Exec) {
		outcomes[c13Judge(c, k, x, solo)]++
		if sample == nil || len(x.TrimmedChoices()) > len(sample.TrimmedChoices()) {
			sample = x
		}
	}
	e.Explore()
	c.AddExtra("replay_deviations_recovered", int64(len(e.Recovered)))
	for _, d := range e.Divergences {
		c.HarnessError("replay divergence in %s: %s", k.key(), d)
	}
	if e.Capped {
		c.NotExhaustive("exploration of " + k.key() + " stopped by the time budget")
	}
	c.AddStates(e.States)
	c.AddTransitions(e.Transitions)
	c.AddTraces(e.Executions)
	c.AddExtra("executions", e.Executions)
	for o, n := range outcomes {
		c.Outcome(o)
		c.AddExtra("executions_"+o, int64(n))
	}
	if sample != nil && k.Sub == 0 {
		c.Sample(map[string]any{"scenario": k.key(), "executions": e.Executions, "max_depth": e.MaxDepth, "solo": solo, "one_schedule": traceOf(sample, 40)})
	}
}

func TestC13(t *testing.T) {
	c := ev.New("C13")
	defer func() { _ = c.Finish() }()
	c.SetRule("stateless model checking under the controlled scheduler: G driver threads each run one complete call (pairwise distinct, call-tagged payloads of 3 B..5 kB, success and error outcomes, identity/gzip/custom compression, proto/json) on ONE shared Client and ONE shared Handler whose pools are deterministic LIFO stacks that poison released buffers; plus sender||receiver on a single bidi stream; plus sequential families (mixed peers, handler end-of-stream, truncated-after-honest, late-delivery: a response body that hands its bytes over late while the caller gives up and a second call is inside its payload read on the recycled buffer); yield points: every statement of duplex_http_call.go, every pool/compressor/codec/IO operation elsewhere in the library, every membrane operation; every schedule within the delay bound of two default schedulers (non-preemptive run-to-block, and round-robin at every yield point) is executed; oracle: each call's observation (messages, error code+text+metadata, echoed header and trailer) equals the same call run alone, no poisoned byte is user-visible, values handed to user code are unchanged at the end")
	c.Assume("sequentially consistent interleavings at statement / visible-operation granularity (memory-model-level races are outside this technique; see DESIGN 7)",
		"memhttp models net/http; deterministic LIFO pool maximises buffer reuse between the calls")
	if ev.ReplayFile() != "" {
		var k c13Case
		if _, err := ev.LoadReplay(&k); err != nil {
			// the sequential families record their case as a plain key: they are
			// cheap and deterministic, so the replay runs them again as a whole
			var key string
			if _, err2 := ev.LoadReplay(&key); err2 != nil {
				t.Fatal(err)
			}
			c13MixedPeers(t, c)
			c13HandlerEndOfStream(t, c)
			c13UnusableClient(t, c)
			c13TruncatedAfterHonest(t, c)
			return
		}
		solo := c13Solo(t, k)
		schedRoundRobin = k.RR
		x := runSched(t, k.Prefix, nil, 20000, func(s *bsched.Sched) any { return c13Body(k, s) })
		fmt.Println("replay:", c13Judge(c, k, x, solo), schedLine(x))
		return
	}
	thorough := ev.Thorough()
	c.Bound("delay_bound", map[bool]string{false: "1", true: "1 for all scenarios, 2 for the eight base scenarios"}[thorough])
	c.Bound("threads", map[bool]string{false: "2", true: "2 (one scenario with 3)"}[thorough])
	c13MixedPeers(t, c)
	c13HandlerEndOfStream(t, c)
	c13UnusableClient(t, c)
	c13TruncatedAfterHonest(t, c)
	c13LateDelivery(t, c)
	c13ClientEndOfStream(t, c)
	cases := c13Scenarios(thorough)
	for i, k := range cases {
		if !ev.Mine(i) {
			continue
		}
		if c.Expired() {
			break
		}
		c13Explore(t, c, k)
	}
}

// c13MixedPeers: peers with different compression habits use one shared
// handler one after the other (every ordered pair over the menu, then the
// first again): what each of them gets must be what it gets from a fresh
// handler of its own.
func c13MixedPeers(t *testing.T, c *ev.Collector) {
	mixedPeers(t, c, "TestC13", nil, []mixedPeer{{enc: "", accept: "gzip"}, {enc: "gzip", accept: ""}, {enc: "gzip", accept: "gzip"}, {enc: "", accept: ""}, {enc: "", accept: "identity"}, {enc: "identity", accept: "gzip"}})
}

type mixedPeer struct {
	enc, accept string
	// httpAccept: a plain HTTP Accept-Encoding header (what net/http's own
	// transport adds to every request).  For everything but unary Connect it is
	// not the protocol's advertisement.
	httpAccept string
}

// mixedPeers runs every ordered pair of peers of the menu (then the first
// again) through one shared handler built with opts and compares each answer
// with the answer of a handler of its own.
func mixedPeers(t *testing.T, c *ev.Collector, test string, opts []connect.HandlerOption, menu []mixedPeer) {
	type peer = mixedPeer
	serve := func(h http.Handler, p Proto, kind Kind, pe peer, tag byte) string {
		payload := codecMarshal(false, &BV{Value: Payload(60, tag)})
		var body []byte
		if pe.enc != "" && pe.enc != "identity" {
			var z []byte
			switch pe.enc {
			case "gzip":
				z = Gzip(payload)
			case "alg1":
				z = XorEncode(0xA1, payload)
			}
			if p == PConnect && kind == KUnary {
				body = z
			} else {
				body = refwire.Envelope(1, z)
			}
		} else if p == PConnect && kind == KUnary {
			body = payload
		} else {
			body = refwire.Envelope(0, payload)
		}
		req := RawRequest(context.Background(), p, kind, false, bytes.NewReader(body))
		encH, accH := encHeaders(p, kind)
		if pe.enc != "" {
			req.Header.Set(encH, pe.enc)
		}
		if pe.accept != "" {
			req.Header.Set(accH, pe.accept)
		}
		if pe.httpAccept != "" && accH != "Accept-Encoding" {
			req.Header.Set("Accept-Encoding", pe.httpAccept)
		}
		rec := httptest.NewRecorder()
		g := Guarded(func() { h.ServeHTTP(rec, req) })
		if g.Hung || g.Panicked {
			return fmt.Sprintf("hung=%v panic=%v", g.Hung, g.Panic)
		}
		status, header, rbody, trailer := recParts(rec)
		rs := refwire.DecodeResponse(wireProto(p), kind == KUnary, req.Header.Get("Content-Type"), status, header, rbody, trailer, AnyDecompress)
		var msgs []string
		for _, m := range rs.Msgs {
			msgs = append(msgs, fmt.Sprintf("%x", m))
		}
		// the response may be compressed only with what the peer used or advertised in the protocol's own headers
		unadvertised := ""
		if re := header.Get(encH); re != "" && re != "identity" && re != pe.enc {
			named := false
			for _, a := range strings.FieldsFunc(pe.accept, func(r rune) bool { return r == ',' || r == ' ' }) {
				if a == re {
					named = true
				}
			}
			if !named {
				unadvertised = " UNADVERTISED-RESPONSE-ENCODING"
			}
		}
		return fmt.Sprintf("status=%d enc=%q code=%d msg=%q msgs=%v problems=%v%s", status, header.Get(encH), rs.End.Code, rs.End.Message, msgs, rs.Problems, unadvertised)
	}
	mk := func(kind Kind) http.Handler {
		return NewHandler(kind, func(ctx context.Context, s HStream) error {
			var got []byte
			for {
				m, err := s.Receive()
				if err != nil {
					break
				}
				got = append(got, m.Value...)
			}
			return s.Send(&BV{Value: append([]byte{'r'}, got...)})
		}, opts...)
	}
	idx := 0
	for _, p := range AllProtos {
		for _, kind := range []Kind{KUnary, KServer, KClient} {
			for i, first := range menu {
				for j, second := range menu {
					idx++
					if !ev.Mine(idx) {
						continue
					}
					key := fmt.Sprintf("mixed-peers/%s/%s/%d-then-%d", p, kind, i, j)
					c.Case(key, true)
					Bubble(t, func() {
						soloFirst := serve(mk(kind), p, kind, first, 'A')
						soloSecond := serve(mk(kind), p, kind, second, 'B')
						shared := mk(kind)
						got1 := serve(shared, p, kind, first, 'A')
						got2 := serve(shared, p, kind, second, 'B')
						got3 := serve(shared, p, kind, first, 'A')
						c.AddTransitions(5)
						c.AddStates(5)
						c.AddTraces(5)
						tags := []string{"proto=" + p.String(), "kind=" + kind.String(), "scenario=mixed-peers"}
						bad := false
						for n, pair := range [][2]string{{got1, soloFirst}, {got2, soloSecond}, {got3, soloFirst}} {
							if pair[0] != pair[1] {
								bad = true
								c.Violation(test, "same-as-solo", "differs", tags, key, "%s: request #%d through the shared handler (peers: first enc=%q accept=%q, second enc=%q accept=%q) observed\\n    %s\\n  from a handler of its own it observes\\n    %s", key, n+1, first.enc, first.accept, second.enc, second.accept, pair[0], pair[1])
							}
						}
						for n, got := range []string{got1, got2, got3} {
							if strings.Contains(got, "UNADVERTISED-RESPONSE-ENCODING") {
								bad = true
								c.Violation(test, "only-advertised-encodings", "unadvertised", tags, key, "%s: request #%d: the response is compressed with an algorithm the peer neither used nor named in the protocol's accept header: %s", key, n+1, got)
								break
							}
						}
						if bad {
							c.Outcome("violation")
						} else {
							c.Outcome("ok")
						}
					})
				}
			}
		}
	}
}

// c13HandlerEndOfStream: request streams that end with a flagged envelope (a
// Connect end-of-stream message, a gRPC-Web trailer frame: clients normally
// do not send them, a peer can) through one bidi handler, one call after the
// other.  The handler tags the error its Receive returned; no call may find
// another call's tag on the error it is handed.
func c13HandlerEndOfStream(t *testing.T, c *ev.Collector) {
	if s, _ := ev.Shard(); s != 0 {
		return
	}
	type frame struct {
		name, ct string
		last     []byte
	}
	frames := []frame{
		{"connect", "application/connect+proto", refwire.Envelope(2, []byte("{}"))},
		{"grpcweb", "application/grpc-web+proto", refwire.Envelope(0x80, []byte("x: y\r\n"))},
	}
	Bubble(t, func() {
		found := map[string][]string{}
		h := NewHandler(KBidi, func(ctx context.Context, s HStream) error {
			id := s.RequestHeader().Get("X-Call")
			for {
				_, err := s.Receive()
				if err != nil {
					var ce *connect.Error
					if errors.As(err, &ce) {
						found[id] = append([]string{}, ce.Meta().Values("X-Failed-Request")...)
						ce.Meta().Set("X-Failed-Request", id)
					}
					return nil
				}
			}
		})
		var order []string
		for round := 0; round < 2; round++ {
			for _, f := range frames {
				id := fmt.Sprintf("%s-%d", f.name, round)
				order = append(order, id)
				body := append(refwire.Envelope(0, codecMarshal(false, &BV{Value: []byte(id)})), f.last...)
				req := httptest.NewRequest("POST", "http://mem.test"+Procedure, bytes.NewReader(body))
				req.ProtoMajor, req.ProtoMinor, req.Proto = 2, 0, "HTTP/2.0"
				req.Header.Set("Content-Type", f.ct)
				req.Header.Set("X-Call", id)
				g := Guarded(func() { h.ServeHTTP(httptest.NewRecorder(), req) })
				if g.Hung || g.Panicked {
					c.Violation(c13TestName, "terminates", "hang-or-panic", []string{"handler-end-of-stream"}, id, "%s: hung=%v panic=%v", id, g.Hung, g.Panic)
					BailIfStuck(c, g)
					return
				}
			}
		}
		c.Case("handler-end-of-stream", true)
		c.AddStates(int64(len(order)))
		c.AddTransitions(int64(len(order)))
		for _, id := range order {
			if tags := found[id]; len(tags) > 0 {
				c.Violation(c13TestName, "no-cross-talk", "foreign-metadata", []string{"handler-end-of-stream"}, id, "the error that Receive handed to call %s at the end of its request stream already carried metadata set by call(s) %v: one *connect.Error value is shared by the calls", id, tags)
				c.Outcome("violation")
				return
			}
		}
		c.Outcome("ok")
	})
}

// c13TruncatedAfterHonest: honest calls with distinct payloads go through a
// shared handler, then a peer posts an envelope that promises more bytes than
// it sends.  The truncated request must be refused, and whatever the handler is
// handed for it (if anything) must not contain bytes of the earlier calls nor
// of released buffers (the pool shim poisons them).
func c13TruncatedAfterHonest(t *testing.T, c *ev.Collector) {
	if s, _ := ev.Shard(); s != 0 {
		return
	}
	for _, p := range AllProtos {
		ct := map[Proto]string{PConnect: "application/connect+proto", PGRPC: "application/grpc+proto", PGRPCWeb: "application/grpc-web+proto"}[p]
		key := fmt.Sprintf("truncated-after-honest/%s", p)
		c.Case(key, true)
		Bubble(t, func() {
			var got [][]byte
			h := NewHandler(KBidi, func(ctx context.Context, s HStream) error {
				for {
					m, err := s.Receive()
					if err != nil {
						if !errors.Is(err, io.EOF) {
							return err
						}
						return nil
					}
					got = append(got, cloneBytes(m.Value))
					if err := s.Send(&BV{Value: m.Value}); err != nil {
						return err
					}
				}
			})
			tr := &memhttp.Transport{Handler: h, Proto: 2, SyncCloseReq: true}
			cl := NewClient(tr, Cfg{Proto: p, Comp: CompNone})
			secret := bytes.Repeat([]byte("<secret of the honest caller>"), 60) // 1740 bytes
			for i := 0; i < 3; i++ {
				g := Guarded(func() { _ = RunCall(context.Background(), cl, KBidi, [][]byte{secret}, nil) }, tr)
				if g.Hung || g.Panicked {
					c.HarnessError("%s: honest call hung or panicked", key)
					BailIfStuck(c, g)
					return
				}
			}
			honest := len(got)
			// promises 1203 payload bytes, delivers 163
			full := refwire.Envelope(0, codecMarshal(false, &BV{Value: bytes.Repeat([]byte{'t'}, 1200)}))
			req := httptest.NewRequest("POST", "http://mem.test"+Procedure, bytes.NewReader(full[:5+163]))
			req.ProtoMajor, req.ProtoMinor, req.Proto = 2, 0, "HTTP/2.0"
			req.Header.Set("Content-Type", ct)
			rec := httptest.NewRecorder()
			g := Guarded(func() { h.ServeHTTP(rec, req) })
			c.AddStates(5)
			c.AddTransitions(5)
			tags := []string{"proto=" + p.String(), "truncated-after-honest"}
			if g.Hung || g.Panicked {
				c.Violation(c13TestName, "terminates", "hang-or-panic", tags, key, "%s: hung=%v panic=%v", key, g.Hung, g.Panic)
				BailIfStuck(c, g)
				return
			}
			for _, m := range got[honest:] {
				if bytes.Contains(m, []byte("secret")) || bytes.Contains(m, poisonSeq) {
					c.Violation(c13TestName, "no-cross-talk", "foreign-bytes", tags, key, "%s: for an envelope that promised 1203 bytes and delivered 163 the handler was handed a %d-byte message holding bytes of an earlier call or of a released buffer: %s", key, len(m), shortBytes(m))
					c.Outcome("violation")
					return
				}
			}
			if len(got) != honest {
				c.Violation(c13TestName, "no-cross-talk", "phantom-message", tags, key, "%s: the truncated envelope was delivered to the handler as a message of %d bytes", key, len(got[honest]))
				c.Outcome("violation")
				return
			}
			c.Outcome("ok")
		})
	}
}

// c13UnusableClient: a client whose construction failed (a URL that cannot be
// parsed, a send compression nobody registered) reports that failure from every
// call.  Callers tag the errors they are handed (Error.Meta is a mutable map
// that user code owns once it has the error); no call of any kind may find
// another call's tag, and no two calls may be handed one error value.
func c13UnusableClient(t *testing.T, c *ev.Collector) {
	if s, _ := ev.Shard(); s != 0 {
		return
	}
	builds := map[string]func() *connect.Client[BV, BV]{
		"bad-url": func() *connect.Client[BV, BV] {
			return connect.NewClient[BV, BV](&memhttp.Transport{}, "http://mem.test/%zz"+Procedure)
		},
		"unknown-send-compression": func() *connect.Client[BV, BV] {
			return connect.NewClient[BV, BV](&memhttp.Transport{}, BaseURL+Procedure, connect.WithSendCompression("nobody-registered-this"))
		},
	}
	for _, name := range []string{"bad-url", "unknown-send-compression"} {
		key := "unusable-client/" + name
		c.Case(key, true)
		Bubble(t, func() {
			cl := builds[name]()
			ctx := context.Background()
			type got struct {
				id  string
				err error
			}
			var errs []got
			call := func(id string, kind Kind) {
				var err error
				switch kind {
				case KUnary:
					_, err = cl.CallUnary(ctx, connect.NewRequest(&BV{}))
				case KServer:
					_, err = cl.CallServerStream(ctx, connect.NewRequest(&BV{}))
				case KClient:
					_, err = cl.CallClientStream(ctx).CloseAndReceive()
				default:
					_, err = cl.CallBidiStream(ctx).Receive()
				}
				errs = append(errs, got{id, err})
			}
			g := Guarded(func() {
				for round := 0; round < 2; round++ {
					for _, kind := range AllKinds {
						call(fmt.Sprintf("%s-%d", kind, round), kind)
					}
				}
			})
			tags := []string{"unusable-client", name}
			c.AddStates(int64(len(errs)))
			c.AddTransitions(int64(len(errs)))
			if g.Hung || g.Panicked {
				c.Violation(c13TestName, "terminates", "hang-or-panic", tags, key, "%s: hung=%v panic=%v", key, g.Hung, g.Panic)
				c.Outcome("violation")
				BailIfStuck(c, g)
				return
			}
			seen := map[*connect.Error]string{}
			for _, e := range errs {
				var ce *connect.Error
				if e.err == nil || !errors.As(e.err, &ce) {
					c.HarnessError("%s: call %s returned %v, expected the construction failure", key, e.id, e.err)
					return
				}
				if other := ce.Meta().Values("X-Tagged-By"); len(other) > 0 {
					c.Violation(c13TestName, "no-cross-talk", "foreign-metadata", tags, key, "%s: the error handed to call %s already carried metadata set by call(s) %v: one *connect.Error value is shared by all calls of the client", key, e.id, other)
					c.Outcome("violation")
					return
				}
				if first, dup := seen[ce]; dup {
					c.Violation(c13TestName, "no-cross-talk", "shared-error-value", tags, key, "%s: calls %s and %s were handed the same *connect.Error", key, first, e.id)
					c.Outcome("violation")
					return
				}
				seen[ce] = e.id
				ce.Meta().Set("X-Tagged-By", e.id)
			}
			c.Outcome("ok")
		})
	}
}
