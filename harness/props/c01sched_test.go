package props

import (
	"fmt"
	"testing"

	"verifharness/bsched"
	"verifharness/ev"
	"verifharness/memhttp"
)

// C01 under the controlled scheduler: one complete call of every RPC kind in
// every protocol against a handler that either drains the request stream or
// answers after the first message (so the response can end while the transport
// is still sending the request), every schedule within the delay bound of both
// default schedulers.  The environment threads (the transport's request-body
// reader and its late wake-ups, the handler, the transport closing the request
// body after the handler returned) are scheduled like library threads.  Oracle:
// the call delivers exactly what the handler program answers and ends cleanly.
func c01SchedCases(thorough bool) []c13Case {
	var out []c13Case
	bound := 2
	subs := 2
	if thorough {
		bound = 3
		subs = 8
	}
	for _, p := range AllProtos {
		for _, kind := range AllKinds {
			for _, early := range []bool{true, false} {
				for _, rr := range []bool{false, true} {
					name := "sched-drain"
					if early {
						name = "sched-early"
					}
					for sub := 0; sub < subs; sub++ {
						out = append(out, c13Case{
							Name:  name,
							Cfg:   Cfg{Proto: p, Comp: CompDefault, Kind: kind, HTTP: 2, ReqMode: memhttp.ReqEager},
							Calls: []c13Call{{Sizes: []int{30}}},
							Early: early, RR: rr, Bound: bound, Sub: sub, Subs: subs,
						})
					}
				}
			}
		}
	}
	return out
}

func c01Sched(t *testing.T, c *ev.Collector, thorough bool) {
	c13TestName = "TestC01"
	defer func() { c13TestName = "TestC13" }()
	c.Bound("scheduled_single_call_delay_bound", map[bool]int{false: 2, true: 3}[thorough])
	for i, k := range c01SchedCases(thorough) {
		if !ev.Mine(i) || c.Expired() {
			continue
		}
		c13Explore(t, c, k)
	}
}

// c01SchedReplay replays a violation of the scheduled family.
func c01SchedReplay(t *testing.T, c *ev.Collector, k c13Case) {
	c13TestName = "TestC01"
	defer func() { c13TestName = "TestC13" }()
	solo := c13Solo(t, k)
	schedRoundRobin = k.RR
	x := runSched(t, k.Prefix, nil, 20000, func(s *bsched.Sched) any { return c13Body(k, s) })
	fmt.Println("replay:", c13Judge(c, k, x, solo), schedLine(x))
}
