package props

// Deviations calls f with every assignment of len(sizes) dimensions in which
// at most maxDev dimensions differ from their default (index 0), ordered by
// the number of deviations (so the first counterexample has the fewest).
func Deviations(sizes []int, maxDev int, f func(choice []int) bool) {
	choice := make([]int, len(sizes))
	var rec func(start, left int) bool
	for d := 0; d <= maxDev && d <= len(sizes); d++ {
		rec = func(start, left int) bool {
			if left == 0 {
				cp := append([]int(nil), choice...)
				return f(cp)
			}
			for i := start; i <= len(sizes)-left; i++ {
				for v := 1; v < sizes[i]; v++ {
					choice[i] = v
					if !rec(i+1, left-1) {
						choice[i] = 0
						return false
					}
				}
				choice[i] = 0
			}
			return true
		}
		if !rec(0, d) {
			return
		}
	}
}

// Strings calls f with every string of length 0..maxLen over alphabet.
func Strings(alphabet []byte, maxLen int, f func(s []byte) bool) {
	var rec func(prefix []byte) bool
	rec = func(prefix []byte) bool {
		if !f(append([]byte(nil), prefix...)) {
			return false
		}
		if len(prefix) == maxLen {
			return true
		}
		for _, a := range alphabet {
			if !rec(append(prefix, a)) {
				return false
			}
		}
		return true
	}
	rec(nil)
}
