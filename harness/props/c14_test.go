package props

import (
	"bytes"
	"context"
	"crypto/sha256"
	"errors"
	"fmt"
	"io"
	"strings"
	"sync"
	"testing"

	connect "github.com/bufbuild/connect-go"

	"verifharness/bsched"
	"verifharness/ev"
	"verifharness/memhttp"
)

// C14 — every call terminates and releases what it acquired.
//
// Engine: stateless model checking of the real client (duplex call, pipe,
// makeRequest goroutine) against the real handler under the controlled
// scheduler; every schedule with at most B preemptions is enumerated for every
// admissible (client program, handler program, protocol, request window).

type hprog struct {
	Recv  int  `json:"recv"`  // receive this many messages first
	Send  int  `json:"send"`  // then send this many
	Drain bool `json:"drain"` // then receive until the end of the request stream
	Err   bool `json:"err"`   // return an error (resource_exhausted "boom") instead of nil
}

func (h hprog) String() string {
	s := fmt.Sprintf("r%ds%d", h.Recv, h.Send)
	if h.Drain {
		s += "d"
	}
	if h.Err {
		s += "E"
	}
	return s
}

type c14Case struct {
	Proto   Proto           `json:"proto"`
	ReqMode memhttp.ReqMode `json:"req_mode"`
	Client  string          `json:"client"` // word over S Q R P X
	Split   bool            `json:"split"`  // sender and receiver on two goroutines
	Handler hprog           `json:"handler"`
	Bound   int             `json:"bound"`
	// Limit: the client carries a read limit smaller than the handler's
	// messages, so Receive fails with a non-EOF error while the stream is open.
	Limit bool `json:"limit,omitempty"`
	// RR: explore around the round-robin default scheduler instead of run-to-block.
	RR bool `json:"rr,omitempty"`
	// Ideal: idealised transport that notices the end of the request context
	// at once in every state (default: HTTP/2 semantics as measured on net/http).
	Ideal bool `json:"ideal,omitempty"`
	// Chunk: the transport takes the request body in pieces of this many bytes
	// (0 = 32 KiB), so a close can land in the middle of a Send.
	Chunk int `json:"chunk,omitempty"`
	// Expire: the program's X is the expiry of the call's context, not a
	// cancellation (ctx.Err() = context.DeadlineExceeded), at the same program
	// point; the server is not told any timeout, so nothing but the client's
	// own context ends the call.
	Expire bool `json:"expire,omitempty"`
	// BigResp: the handler's messages are 5000 bytes (more than the 4 KiB buffer
	// net/http keeps between a handler and the connection, less than two of them).
	BigResp bool  `json:"big_resp,omitempty"`
	Prefix  []int `json:"prefix,omitempty"` // schedule (replay)
}

// expiringCtx is a context that ends, when expire is called, the way a
// deadline does (Err() = context.DeadlineExceeded) without announcing a
// deadline beforehand.
type expiringCtx struct {
	context.Context
	done chan struct{}
	once sync.Once
}

func newExpiringCtx() *expiringCtx {
	return &expiringCtx{Context: context.Background(), done: make(chan struct{})}
}
func (e *expiringCtx) Done() <-chan struct{} { return e.done }
func (e *expiringCtx) Err() error {
	select {
	case <-e.done:
		return context.DeadlineExceeded
	default:
		return nil
	}
}
func (e *expiringCtx) expire() { e.once.Do(func() { close(e.done) }) }

func (k c14Case) key() string {
	sp := ""
	if k.Split {
		sp = "/split"
	}
	if k.Limit {
		sp += "/limit"
	}
	if k.Bound > 1 {
		sp += fmt.Sprintf("/d%d", k.Bound)
	}
	if k.RR {
		sp += "/rr"
	}
	if k.Ideal {
		sp += "/ideal"
	}
	if k.Chunk > 0 {
		sp += fmt.Sprintf("/chunk%d", k.Chunk)
	}
	if k.Expire {
		sp += "/expire"
	}
	if k.BigResp {
		sp += "/bigresp"
	}
	return fmt.Sprintf("%s/%s/%s%s/%s", k.Proto, k.ReqMode, k.Client, sp, k.Handler)
}

func (k c14Case) tags() []string {
	t := []string{"proto=" + k.Proto.String(), "mode=" + k.ReqMode.String()}
	if strings.Contains(k.Client, "X") {
		t = append(t, "cancel")
	}
	if k.Split {
		t = append(t, "split")
	}
	if k.Limit {
		t = append(t, "oversize-response")
	}
	return t
}

// c14Words enumerates the client programs of length <= maxLen admitted by the
// property: the request side (S or Q) is used before the response side (R, P), a cancel may come at any position including first; at most one Q, P, X; no S after Q; no R after
// P; either contains X or ends with P preceded by Q.
func c14Words(maxLen int) []string {
	var out []string
	var rec func(w string)
	rec = func(w string) {
		if len(w) > 0 {
			hasX := strings.Contains(w, "X")
			okEnd := strings.HasSuffix(w, "P") && strings.Contains(w, "Q")
			if hasX || okEnd {
				out = append(out, w)
			}
		}
		if len(w) == maxLen {
			return
		}
		started := strings.ContainsAny(w, "SQ") // the request side has been started
		for _, op := range "SQRPX" {
			switch op {
			case 'S':
				if strings.Contains(w, "Q") {
					continue
				}
			case 'Q':
				if strings.Contains(w, "Q") {
					continue
				}
			case 'R':
				if !started || strings.Contains(w, "P") {
					continue
				}
			case 'P':
				if !started || strings.Contains(w, "P") {
					continue
				}
				// without cancellation the response side is closed after the request side
				if !strings.Contains(w, "Q") && !strings.Contains(w, "X") {
					continue
				}
			case 'X':
				if strings.Contains(w, "X") {
					continue
				}
			}
			if strings.HasSuffix(w, "P") && !strings.Contains(w, "X") && op != 'X' {
				// after Q..P only a late cancel may follow
				continue
			}
			rec(w + string(op))
		}
	}
	rec("")
	return out
}

func c14Handlers(all bool) []hprog {
	var out []hprog
	for _, recv := range []int{0, 1, 2} {
		for _, send := range []int{0, 1, 2} {
			for _, drain := range []bool{true, false} {
				for _, e := range []bool{false, true} {
					h := hprog{recv, send, drain, e}
					if !all {
						// quick subset: 12 programs
						if recv == 2 || (send == 2 && !drain) || (send == 0 && recv == 1 && !drain) {
							continue
						}
						if e && send == 2 {
							continue
						}
					}
					out = append(out, h)
				}
			}
		}
	}
	return out
}

// c14Model is the boring reference: client and handler as two sequential
// processes over two unbounded FIFO queues with blocking receives (a Kahn
// network: whether it deadlocks, and what each side observes, does not depend
// on the schedule).
type c14Prediction struct {
	Admissible bool
	// Recv[i] is the expected class of the i-th R of a program without X:
	// "msg:<k>", "eof" or "err".
	Recv []string
}

func c14Model(word string, h hprog) c14Prediction {
	type hstate struct {
		phase int // 0 recv, 1 send, 2 drain, 3 done
		got   int
	}
	var (
		reqQ, respQ       int
		reqClosed, cancel bool
		handlerDone       bool
		hs                hstate
		pc                int
		sent              int
		pred              c14Prediction
	)
	stepHandler := func() bool {
		switch hs.phase {
		case 0:
			if hs.got >= h.Recv {
				hs.phase = 1
				return true
			}
			if reqQ > 0 {
				reqQ--
				hs.got++
				return true
			}
			if reqClosed || cancel {
				hs.phase = 1
				return true
			}
			return false
		case 1:
			respQ += h.Send
			sent += h.Send
			if h.Drain {
				hs.phase = 2
			} else {
				hs.phase = 3
				handlerDone = true
			}
			return true
		case 2:
			if reqQ > 0 {
				reqQ--
				return true
			}
			if reqClosed || cancel {
				hs.phase = 3
				handlerDone = true
				return true
			}
			return false
		}
		return false
	}
	delivered := 0
	stepClient := func() bool {
		if pc >= len(word) {
			return false
		}
		switch word[pc] {
		case 'S':
			reqQ++
		case 'Q':
			reqClosed = true
		case 'X':
			cancel = true
		case 'R':
			if cancel {
				pred.Recv = append(pred.Recv, "err")
				break
			}
			if respQ > 0 {
				respQ--
				pred.Recv = append(pred.Recv, fmt.Sprintf("msg:%d", delivered))
				delivered++
				break
			}
			if handlerDone {
				if h.Err {
					pred.Recv = append(pred.Recv, "err")
				} else {
					pred.Recv = append(pred.Recv, "eof")
				}
				break
			}
			return false
		case 'P':
			if !cancel && !handlerDone {
				return false
			}
		}
		pc++
		return true
	}
	for {
		a := stepClient()
		b := stepHandler()
		if !a && !b {
			break
		}
	}
	pred.Admissible = pc >= len(word) && (handlerDone || cancel)
	if pc >= len(word) && !handlerDone && !cancel {
		// client finished (Q..P needs the handler to finish, so this cannot happen) – be safe
		pred.Admissible = false
	}
	return pred
}

type opObs struct {
	Op    byte
	Start int64
	End   int64
	Class string // ok | eof | err:<code> | msg:<k> | badmsg
	Err   string
}

type c14Obs struct {
	Completed    int // operations that had returned when the system went quiescent
	Ops          []opObs
	HandlerRecv  []string // classes of the handler's Receive results
	HandlerDone  bool
	ReqClosedSeq int64 // when the transport closed the request body after the handler returned (0 = never)
	BodyCloses   int
	GotResponse  bool
	Leaked       []string
	HandlerStuck bool
	Stacks       string
	// CancelDeferred: the transport did not notice the cancellation at the
	// moment it happened (HTTP/2, body sender blocked on an idle request body)
	CancelDeferred bool
}

func classifyErr(err error) string {
	if err == nil {
		return "ok"
	}
	if errors.Is(err, io.EOF) {
		return "eof"
	}
	return fmt.Sprintf("err:%v", CodeOfErr(err))
}

// c14Noise: 5000 bytes no compressor shrinks (a SHA-256 chain), so that the
// enveloped message stays between one and two response buffers on the wire
// whatever the negotiated compression.
var c14Noise = func() []byte {
	var out []byte
	h := sha256.Sum256([]byte("c14"))
	for len(out) < 5000 {
		out = append(out, h[:]...)
		h = sha256.Sum256(h[:])
	}
	return out[:5000]
}()

func payloadIndex(b []byte, prefix byte) int {
	if len(b) == 2 && b[0] == prefix {
		return int(b[1])
	}
	// BigResp payloads: the two bytes followed by the 5000 bytes of c14Noise
	if len(b) == 2+len(c14Noise) && b[0] == prefix && bytes.Equal(b[2:], c14Noise) {
		return int(b[1])
	}
	return -1
}

// c14Body builds and runs one execution.
func c14Body(k c14Case, s *bsched.Sched) any {
	obs := &c14Obs{}
	closedSeq := int64(0)
	h := NewHandler(KBidi, func(ctx context.Context, st HStream) error {
		recv := func() bool {
			m, err := st.Receive()
			if err != nil {
				obs.HandlerRecv = append(obs.HandlerRecv, classifyErr(err))
				return false
			}
			obs.HandlerRecv = append(obs.HandlerRecv, fmt.Sprintf("msg:%d", payloadIndex(m.Value, 'c')))
			return true
		}
		for i := 0; i < k.Handler.Recv; i++ {
			if !recv() {
				break
			}
		}
		for j := 0; j < k.Handler.Send; j++ {
			payload := []byte{'h', byte(j)}
			if k.Limit {
				payload = append(payload, "0123456789"...)
			}
			if k.BigResp {
				payload = append(payload, c14Noise...)
			}
			_ = st.Send(&BV{Value: payload})
		}
		if k.Handler.Drain {
			for recv() {
			}
		}
		if k.Handler.Err {
			return connect.NewError(connect.CodeResourceExhausted, errors.New("boom"))
		}
		return nil
	})
	tr := &memhttp.Transport{Handler: h, Proto: 2, ReqMode: k.ReqMode, Gate: s.Gate, PromptCancel: k.Ideal, ReqChunk: k.Chunk}
	tr.OnReqClosed = func(who string) {
		if who == "handler-done" && closedSeq == 0 {
			closedSeq = tick()
		}
	}
	var copts []connect.ClientOption
	if k.Limit {
		copts = append(copts, connect.WithReadMaxBytes(6))
	}
	cl := NewClient(tr, Cfg{Proto: k.Proto, Comp: CompNone}, copts...)
	ctx, cancel := context.WithCancel(context.Background())
	if k.Expire {
		ec := newExpiringCtx()
		ctx, cancel = ec, ec.expire
	}
	stream := cl.CallBidiStream(ctx)
	sendIdx := 0
	doOp := func(op byte) {
		// Every operation of the client program starts at a yield point.  Without
		// it an operation that is not a library call (cancel) ran in the same
		// scheduler step as the tail of the previous one, and what a goroutine
		// woken by that tail observed depended on the Go runtime (a replay
		// divergence, i.e. a harness error, about once in five runs of the check
		// on some trees).
		s.Gate("op." + string(op))
		o := opObs{Op: op, Start: tick()}
		switch op {
		case 'S':
			err := stream.Send(&BV{Value: []byte{'c', byte(sendIdx)}})
			sendIdx++
			o.Class = classifyErr(err)
			if err != nil {
				o.Err = err.Error()
			}
		case 'Q':
			err := stream.CloseRequest()
			o.Class = classifyErr(err)
		case 'R':
			m, err := stream.Receive()
			if err != nil {
				o.Class = classifyErr(err)
				o.Err = err.Error()
			} else if i := payloadIndex(m.Value, 'h'); i >= 0 {
				o.Class = fmt.Sprintf("msg:%d", i)
			} else {
				o.Class = "badmsg"
			}
		case 'P':
			err := stream.CloseResponse()
			o.Class = classifyErr(err)
		case 'X':
			cancel()
			o.Class = "ok"
		}
		o.End = tick()
		obs.Ops = append(obs.Ops, o)
	}
	if !k.Split {
		s.Go("c", func() {
			for i := 0; i < len(k.Client); i++ {
				doOp(k.Client[i])
			}
		})
	} else {
		first := make(chan struct{})
		qDone := make(chan struct{})
		s.Go("c.send", func() {
			n := 0
			for i := 0; i < len(k.Client); i++ {
				if op := k.Client[i]; op == 'S' || op == 'Q' {
					doOp(op)
					if n == 0 {
						close(first)
					}
					n++
					if op == 'Q' {
						close(qDone)
					}
				}
			}
		})
		s.Go("c.recv", func() {
			<-first
			s.Gate("c.recv.go")
			for i := 0; i < len(k.Client); i++ {
				if op := k.Client[i]; op == 'R' || op == 'P' {
					if op == 'P' {
						<-qDone
						s.Gate("c.recv.p")
					}
					doOp(op)
				}
			}
		})
	}
	s.Run()
	obs.Completed = len(obs.Ops)
	if s.Deadlock || s.Horizon {
		obs.Stacks = bsched.AllStacks()
	}
	// end state, before any tear-down
	if ex := tr.Last(); ex != nil {
		obs.HandlerDone = ex.IsDone()
		obs.CancelDeferred = ex.WasCancelDeferred()
		obs.BodyCloses = ex.Closes()
		obs.GotResponse = ex.GotResponse()
	} else {
		obs.HandlerDone = true
	}
	obs.ReqClosedSeq = closedSeq
	if !s.Deadlock && !s.Horizon && s.Diverged == "" {
		for _, g := range bsched.LibraryGoroutines() {
			if strings.Contains(g, "memhttp.(*call).serve") {
				obs.HandlerStuck = true
				continue
			}
			obs.Leaked = append(obs.Leaked, g)
		}
	}
	// tear down
	cancel()
	tr.AbortAll()
	s.Release()
	return obs
}

func c14Judge(c *ev.Collector, k c14Case, x *bsched.Exec, pred c14Prediction) string {
	obs := x.Obs.(*c14Obs)
	kk := k
	kk.Prefix = x.TrimmedChoices()
	tags := k.tags()
	if obs.CancelDeferred {
		tags = append(tags, "cancel-unnoticed-by-h2-transport")
	}
	viol := func(clause, outcome, format string, args ...any) {
		c.Violation("TestC14", clause, outcome, tags, kk, "%s [%s]: "+format+"\n  schedule: %v", append(append([]any{k.key(), schedLine(x)}, args...), traceOf(x, 400))...)
	}
	if x.Horizon {
		c.NotExhaustive("step horizon reached in " + k.key())
		return "horizon"
	}
	if x.Deadlock {
		viol("terminates", "deadlock", "blocked threads %v; operations completed before the deadlock: %s\n%s", x.Blocked, opsString(obs.Ops[:obs.Completed]), trimStacks(obs.Stacks))
		return "deadlock"
	}
	hasX := strings.Contains(k.Client, "X")
	bad := false
	if len(obs.Leaked) > 0 {
		bad = true
		viol("no-leak", "goroutine-leak", "library goroutines remain after the program ended:\n%s", strings.Join(obs.Leaked, "\n\n"))
	}
	if obs.HandlerStuck {
		bad = true
		viol("handler-finishes", "handler-stuck", "the handler has not returned although the client program is complete; handler receives: %v", obs.HandlerRecv)
	}
	if strings.Contains(k.Client, "P") && obs.GotResponse && obs.BodyCloses == 0 {
		bad = true
		viol("body-closed", "not-closed", "client called CloseResponse but the HTTP response body was never closed")
	}
	// handler sees end-of-request once the client closed its side
	if !hasX && !k.Limit && k.Handler.Drain && len(obs.HandlerRecv) > 0 {
		if last := obs.HandlerRecv[len(obs.HandlerRecv)-1]; last != "eof" {
			bad = true
			viol("handler-eof", "no-eof", "draining handler's last Receive was %q, not an error wrapping io.EOF; receives: %v", last, obs.HandlerRecv)
		}
	}
	// Sends that start after the transport closed the request body (handler finished) or after a failed Receive
	firstRecvErrEnd := int64(0)
	for _, o := range obs.Ops {
		if o.Op == 'R' && !strings.HasPrefix(o.Class, "msg:") && firstRecvErrEnd == 0 {
			firstRecvErrEnd = o.End
		}
	}
	cancelled := false
	for _, o := range obs.Ops {
		if o.Op == 'X' {
			cancelled = true
		}
		if o.Op != 'S' || cancelled {
			continue
		}
		after := (obs.ReqClosedSeq > 0 && o.Start > obs.ReqClosedSeq) || (firstRecvErrEnd > 0 && o.Start > firstRecvErrEnd)
		if after && o.Class != "eof" {
			bad = true
			viol("send-after-finish", "send-"+o.Class, "Send started after the call was over but returned %s (%s), not an error wrapping io.EOF; ops %s", o.Class, o.Err, opsString(obs.Ops))
		}
	}
	// without cancellation a Send either succeeds or reports the end of the call
	if !hasX && !k.Limit {
		for _, o := range obs.Ops {
			if o.Op == 'S' && o.Class != "ok" && o.Class != "eof" {
				bad = true
				viol("send-outcome", "send-"+o.Class, "Send returned %s (%s): without cancellation a Send succeeds or fails with an error wrapping io.EOF; ops %s", o.Class, o.Err, opsString(obs.Ops))
			}
		}
	}
	// Receive sequence and stickiness
	ri := 0
	failed := false
	for _, o := range obs.Ops {
		if o.Op != 'R' {
			continue
		}
		isMsg := strings.HasPrefix(o.Class, "msg:")
		if failed && (isMsg || o.Class == "ok") {
			bad = true
			viol("recv-sticky", "recv-after-error", "Receive succeeded after an earlier Receive had failed; ops %s", opsString(obs.Ops))
		}
		if !isMsg {
			failed = true
		}
		if !hasX && !k.Limit && !failedBefore(obs.Ops, ri) && ri < len(pred.Recv) {
			want := pred.Recv[ri]
			got := o.Class
			switch {
			case want == "err" && got != "err:resource_exhausted":
				bad = true
				viol("recv-seq", "wrong-outcome", "Receive #%d returned %s (%s), handler returned resource_exhausted; ops %s", ri, got, o.Err, opsString(obs.Ops))
			case want != "err" && got != want:
				bad = true
				viol("recv-seq", "mismatch", "Receive #%d returned %s (%s), reference model expects %s; ops %s", ri, got, o.Err, want, opsString(obs.Ops))
			}
		}
		ri++
	}
	if bad {
		return "violation"
	}
	return "ok:" + opsClasses(obs.Ops)
}

// failedBefore: an earlier Receive already reported the end/an error, after
// which only "some error" is required.
func failedBefore(ops []opObs, recvIdx int) bool {
	ri := 0
	for _, o := range ops {
		if o.Op != 'R' {
			continue
		}
		if ri >= recvIdx {
			return false
		}
		if !strings.HasPrefix(o.Class, "msg:") {
			return true
		}
		ri++
	}
	return false
}

func opsString(ops []opObs) string {
	var parts []string
	for _, o := range ops {
		parts = append(parts, fmt.Sprintf("%c=%s", o.Op, o.Class))
	}
	return strings.Join(parts, " ")
}

func opsClasses(ops []opObs) string { return opsString(ops) }

func trimStacks(s string) string {
	// keep goroutines that mention the library or the membrane
	var keep []string
	for _, g := range strings.Split(s, "\n\n") {
		if strings.Contains(g, "connect-go") || strings.Contains(g, "memhttp") {
			lines := strings.Split(g, "\n")
			if len(lines) > 24 {
				lines = lines[:24]
			}
			keep = append(keep, strings.Join(lines, "\n"))
		}
	}
	out := strings.Join(keep, "\n\n")
	if len(out) > 6000 {
		out = out[:6000] + "\n..."
	}
	return out
}

func c14Cases(thorough bool) []c14Case {
	maxLen := 4
	if thorough {
		maxLen = 5
	}
	words := c14Words(maxLen)
	handlers := c14Handlers(thorough)
	var out []c14Case
	if thorough {
		// every pair of delays for the short programs against the quick handler subset
		for _, p := range AllProtos {
			for _, m := range []memhttp.ReqMode{memhttp.ReqEager, memhttp.ReqLazy} {
				for _, w := range c14Words(3) {
					for _, h := range c14Handlers(false) {
						out = append(out, c14Case{Proto: p, ReqMode: m, Client: w, Handler: h, Bound: 2})
					}
				}
			}
		}
	}
	for _, p := range AllProtos {
		for _, m := range []memhttp.ReqMode{memhttp.ReqEager, memhttp.ReqLazy} {
			for _, w := range words {
				for _, h := range handlers {
					out = append(out, c14Case{Proto: p, ReqMode: m, Client: w, Handler: h, Bound: 1})
					if m == memhttp.ReqEager && (len(w) <= 3 || thorough) {
						out = append(out, c14Case{Proto: p, ReqMode: m, Client: w, Handler: h, Bound: 1, RR: true})
					}
					if strings.Contains(w, "R") && !strings.Contains(w, "X") && len(w) <= 4 {
						out = append(out, c14Case{Proto: p, ReqMode: m, Client: w, Split: true, Handler: h, Bound: 1})
					}
					if strings.Contains(w, "R") && h.Send > 0 && len(w) <= 4 && m == memhttp.ReqEager {
						out = append(out, c14Case{Proto: p, ReqMode: m, Client: w, Handler: h, Bound: 1, Limit: true})
					}
				}
			}
		}
	}
	// the transport takes the request in 3-byte pieces (a close can land inside a Send)
	for _, p := range AllProtos {
		for _, w := range words {
			if !strings.Contains(w, "S") || strings.Contains(w, "X") || (len(w) > 3 && !thorough) {
				continue
			}
			for _, h := range handlers {
				if h.Drain {
					continue
				}
				out = append(out, c14Case{Proto: p, ReqMode: memhttp.ReqEager, Client: w, Handler: h, Bound: 1, Chunk: 3})
			}
		}
	}
	// programs that receive, against handlers whose messages exceed net/http's response buffer
	for _, k := range append([]c14Case(nil), out...) {
		if k.ReqMode == memhttp.ReqEager && strings.Contains(k.Client, "R") && !strings.Contains(k.Client, "X") && k.Handler.Send > 0 && len(k.Client) <= 4 && !k.RR && !k.Limit && !k.Split && k.Chunk == 0 && k.Bound == 1 {
			k.BigResp = true
			out = append(out, k)
		}
	}
	// the short cancelling programs once more with X = expiry of the context instead of a cancellation
	for _, k := range append([]c14Case(nil), out...) {
		if k.ReqMode == memhttp.ReqEager && strings.Contains(k.Client, "X") && len(k.Client) <= 3 && !k.RR && !k.Limit && !k.Split && k.Chunk == 0 && k.Bound == 1 {
			k.Expire = true
			out = append(out, k)
		}
	}
	// cancelling programs additionally against the idealised transport
	for _, k := range append([]c14Case(nil), out...) {
		if k.ReqMode == memhttp.ReqEager && strings.Contains(k.Client, "X") {
			k.Ideal = true
			out = append(out, k)
		}
	}
	return out
}

func c14Explore(t *testing.T, c *ev.Collector, k c14Case) {
	schedRoundRobin = k.RR
	defer func() { schedRoundRobin = false }()
	pred := c14Model(k.Client, k.Handler)
	if !pred.Admissible {
		c.AddExtra("inadmissible_pairs_filtered", 1)
		return
	}
	c.Case(k.key(), true)
	outcomes := map[string]bool{}
	e := &bsched.Explorer{
		Delay: true,
		Bound: k.Bound,
		Run: func(prefix []int, expect []bsched.Point) *bsched.Exec {
			return runSched(t, prefix, expect, 3000, func(s *bsched.Sched) any { return c14Body(k, s) }, func(x *bsched.Exec) {
				c14Judge(c, k, x, pred)
				c.NotExhaustive("a deadlocked call could not be torn down; the worker stopped after recording it")
				_ = c.Finish()
			})
		},
		Stop: c.Expired,
	}
	var sample *bsched.Exec
	e.OnExec = func(x *bsched.Exec) {
		o := c14Judge(c, k, x, pred)
		outcomes[o] = true
		if sample == nil || x.Preemptions() > sample.Preemptions() {
			sample = x
		}
	}
	e.Explore()
	c.AddExtra("replay_deviations_recovered", int64(len(e.Recovered)))
	for _, d := range e.Divergences {
		c.HarnessError("replay divergence in %s: %s", k.key(), d)
	}
	c.AddStates(e.States)
	c.AddTransitions(e.Transitions)
	c.AddTraces(e.Executions)
	c.AddExtra("executions", e.Executions)
	c.AddExtra("distinct_outcomes_per_scenario_sum", int64(len(outcomes)))
	for o := range outcomes {
		if strings.HasPrefix(o, "ok:") {
			c.Outcome("ok")
		} else {
			c.Outcome(o)
		}
	}
	if sample != nil {
		c.Sample(map[string]any{"scenario": k.key(), "executions": e.Executions, "distinct_outcomes": len(outcomes), "one_schedule": traceOf(sample, 60)})
	}
}

func TestC14(t *testing.T) {
	c := ev.New("C14")
	defer func() { _ = c.Finish() }()
	c.SetRule("stateless model checking under the controlled scheduler: for every admissible (client program over {Send,CloseRequest,Receive,CloseResponse,cancel}, handler program {receive i, send j, drain?, nil|error}, protocol, request window) every schedule within the delay bound of the non-preemptive run-to-block default scheduler (and, for eager-window scenarios with short programs, of the round-robin default scheduler) is executed on the real client/handler; yield points = every statement of duplex_http_call.go, every visible operation elsewhere in the library, every membrane operation; handler writes pass through a 4 KiB buffered writer as with net/http (handler messages of 2 bytes, and of 5002 incompressible bytes for receiving programs of length <= 4); a scenario is distinct by (protocol, window, client word, split, handler program, variant); states = DFS-tree nodes, transitions = scheduler steps")
	c.Assume("memhttp models net/http's RoundTripper/Handler contract (DESIGN 2.3); interleavings inside the real net/http stack are not explored",
		"statement-granular sequentially consistent interleavings only",
		"inadmissible pairs (application-level deadlock in the two-process FIFO reference model) are filtered, not judged")
	if ev.ReplayFile() != "" {
		var tk c14TypedCase
		if _, err := ev.LoadReplay(&tk); err == nil && tk.Typed {
			Bubble(t, func() { c14TypedCheck(c, tk) })
			return
		}
		var k c14Case
		if _, err := ev.LoadReplay(&k); err != nil {
			t.Fatal(err)
		}
		pred := c14Model(k.Client, k.Handler)
		schedRoundRobin = k.RR
		x := runSched(t, k.Prefix, nil, 3000, func(s *bsched.Sched) any { return c14Body(k, s) })
		fmt.Println("replay:", c14Judge(c, k, x, pred), schedLine(x))
		fmt.Println("trace:", traceOf(x, 400))
		return
	}
	thorough := ev.Thorough()
	c.Bound("delay_bound", map[bool]string{false: "1", true: "1 for all scenarios, 2 for programs of length <= 3 against 16 handler programs"}[thorough])
	if thorough {
		c.Bound("max_client_program_length", 5)
		c.Bound("handler_programs", 36)
	} else {
		c.Bound("max_client_program_length", 4)
		c.Bound("handler_programs", len(c14Handlers(false)))
	}
	c14Typed(t, c)
	cases := c14Cases(thorough)
	for i, k := range cases {
		if !ev.Mine(i) {
			continue
		}
		if c.Expired() {
			break
		}
		c14Explore(t, c, k)
	}
}
