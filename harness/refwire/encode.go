package refwire

import (
	"bytes"
	"compress/gzip"
	"encoding/base64"
	"encoding/json"
	"fmt"
	"net/http"
	"sort"
	"strconv"
	"strings"
)

// RespSpec describes a conformant response with the legal degrees of freedom
// the protocol documents leave to a peer.
type RespSpec struct {
	P           Protocol
	Unary       bool   // Connect unary format
	ContentType string // echoed request content type
	Msgs        [][]byte
	Compress    []bool // per message (streaming formats); Compress[0] for Connect unary
	Alg         string // "", "gzip"
	Header      http.Header
	End         End

	// legal variations
	TrailersOnly bool // gRPC / gRPC-Web: no body, status in the HTTP headers
	HexLower     bool // lower-case hex digits in grpc-message
	PadDetails   bool // padded base64 in grpc-status-details-bin
	TrailerCase  int  // gRPC-Web trailer block: names 0 lower, 1 canonical, 2 upper; 3 lower without a blank after the colon, 4 lower with a tab
	OmitMessage  bool // Connect error JSON without "message" when it is empty
	MetaInEnd    bool // Connect streaming: send an (empty) "metadata" object even without metadata
	CompressEnd  bool // compress the terminator frame too (Connect end-of-stream, gRPC-Web trailer frame) when Alg is set
}

func gz(p []byte) []byte {
	var buf bytes.Buffer
	w := gzip.NewWriter(&buf)
	_, _ = w.Write(p)
	_ = w.Close()
	return buf.Bytes()
}

func (s *RespSpec) compress(p []byte) []byte {
	if s.Alg == "gzip" {
		return gz(p)
	}
	return p
}

// connectErrorJSON renders the Connect error object.
func connectErrorJSON(e End, omitEmptyMessage bool) []byte {
	m := map[string]any{"code": CodeNames[e.Code]}
	if e.Message != "" || !omitEmptyMessage {
		m["message"] = e.Message
	}
	if len(e.Details) > 0 {
		var ds []json.RawMessage
		for _, d := range e.Details {
			ds = append(ds, json.RawMessage(d.Value)) // protojson Any (caller supplies it)
		}
		m["details"] = ds
	}
	b, _ := json.Marshal(m)
	return b
}

// Build renders status, headers, body and HTTP trailers.
func (s *RespSpec) Build() (status int, header http.Header, body []byte, trailer http.Header) {
	header = http.Header{}
	for k, vs := range s.Header {
		header[k] = append([]string{}, vs...)
	}
	trailer = http.Header{}
	status = 200
	switch {
	case s.P == Connect && s.Unary:
		for k, vs := range s.End.Meta {
			header["Trailer-"+k] = vs
		}
		if s.End.Code != 0 {
			status = ConnectHTTPStatus[s.End.Code]
			header.Set("Content-Type", "application/json")
			body = connectErrorJSON(s.End, s.OmitMessage)
			return
		}
		header.Set("Content-Type", s.ContentType)
		body = s.Msgs[0]
		if len(s.Compress) > 0 && s.Compress[0] && s.Alg != "" {
			header.Set("Content-Encoding", s.Alg)
			body = s.compress(body)
		}
		return
	case s.P == Connect:
		header.Set("Content-Type", s.ContentType)
		if s.Alg != "" {
			header.Set("Connect-Content-Encoding", s.Alg)
		}
		for i, m := range s.Msgs {
			if i < len(s.Compress) && s.Compress[i] && s.Alg != "" {
				body = append(body, Envelope(1, s.compress(m))...)
			} else {
				body = append(body, Envelope(0, m)...)
			}
		}
		end := map[string]any{}
		if s.End.Code != 0 {
			end["error"] = json.RawMessage(connectErrorJSON(s.End, s.OmitMessage))
		}
		if len(s.End.Meta) > 0 || s.MetaInEnd {
			md := map[string][]string{}
			for k, vs := range s.End.Meta {
				md[k] = vs
			}
			end["metadata"] = md
		}
		eb, _ := json.Marshal(end)
		if s.CompressEnd && s.Alg != "" {
			body = append(body, Envelope(3, s.compress(eb))...)
		} else {
			body = append(body, Envelope(2, eb)...)
		}
		return
	}
	// gRPC family
	header.Set("Content-Type", s.ContentType)
	if s.Alg != "" {
		header.Set("Grpc-Encoding", s.Alg)
	}
	tr := http.Header{}
	for k, vs := range s.End.Meta {
		tr[k] = append([]string{}, vs...)
	}
	tr.Set("Grpc-Status", strconv.Itoa(s.End.Code))
	if s.End.Code != 0 {
		tr.Set("Grpc-Message", PercentEncode(s.End.Message, !s.HexLower))
		st := EncodeStatus(s.End.Code, s.End.Message, s.End.Details)
		if s.PadDetails {
			tr.Set("Grpc-Status-Details-Bin", base64.StdEncoding.EncodeToString(st))
		} else {
			tr.Set("Grpc-Status-Details-Bin", base64.RawStdEncoding.EncodeToString(st))
		}
	}
	if s.TrailersOnly && len(s.Msgs) == 0 {
		for k, vs := range tr {
			header[k] = vs
		}
		return
	}
	for i, m := range s.Msgs {
		if i < len(s.Compress) && s.Compress[i] && s.Alg != "" {
			body = append(body, Envelope(1, s.compress(m))...)
		} else {
			body = append(body, Envelope(0, m)...)
		}
	}
	if s.P == GRPC {
		trailer = tr
		return
	}
	// gRPC-Web trailer frame
	keys := make([]string, 0, len(tr))
	for k := range tr {
		keys = append(keys, k)
	}
	sort.Strings(keys)
	var lines []string
	for _, k := range keys {
		name := k
		sep := ": "
		switch s.TrailerCase {
		case 0:
			name = strings.ToLower(k)
		case 2:
			name = strings.ToUpper(k)
		case 3: // field-name ":" OWS field-value: the optional whitespace may be absent (Envoy writes it so)
			name, sep = strings.ToLower(k), ":"
		case 4: // ... or a tab
			name, sep = strings.ToLower(k), ":\t"
		}
		for _, v := range tr[k] {
			lines = append(lines, name+sep+v)
		}
	}
	// an HTTP/1 field block: every line ends with CRLF, no terminating empty line
	block := strings.Join(lines, "\r\n") + "\r\n"
	if s.CompressEnd && s.Alg != "" {
		body = append(body, Envelope(0x81, s.compress([]byte(block)))...)
	} else {
		body = append(body, Envelope(0x80, []byte(block))...)
	}
	return
}

// Handler serves a fixed (status, headers, body, trailers) response.
func Handler(status int, header http.Header, body []byte, trailer http.Header) http.Handler {
	return http.HandlerFunc(func(w http.ResponseWriter, r *http.Request) {
		for k, vs := range header {
			w.Header()[k] = vs
		}
		w.WriteHeader(status)
		if len(body) > 0 {
			_, _ = w.Write(body)
		}
		for k, vs := range trailer {
			for _, v := range vs {
				w.Header().Add(http.TrailerPrefix+k, v)
			}
		}
	})
}

// Request is the strict decoding of a request written by a client.
type Request struct {
	Msgs       [][]byte
	Compressed []bool
	Timeout    string
	Problems   []string
}

func (r *Request) problem(format string, args ...any) {
	r.Problems = append(r.Problems, fmt.Sprintf(format, args...))
}

// DecodeRequest checks a recorded request against the protocol documents.
func DecodeRequest(p Protocol, unary bool, method string, header http.Header, body []byte, sawEOF bool, dec Decompressor) *Request {
	return decodeRequest(p, unary, method, header, body, sawEOF, dec, false)
}

// DecodeRequestAsReceiver is DecodeRequest with the one leniency a receiver may
// show (and this library's handlers, like later upstream releases, do show): an
// EMPTY unary Connect body is the empty message whatever Content-Encoding says.
// What a client WRITES is judged by DecodeRequest: zero bytes are not a
// compressed stream of any algorithm.
func DecodeRequestAsReceiver(p Protocol, unary bool, method string, header http.Header, body []byte, sawEOF bool, dec Decompressor) *Request {
	return decodeRequest(p, unary, method, header, body, sawEOF, dec, true)
}

func decodeRequest(p Protocol, unary bool, method string, header http.Header, body []byte, sawEOF bool, dec Decompressor, lenientEmpty bool) *Request {
	if dec == nil {
		dec = DefaultDecompress
	}
	r := &Request{}
	h := canon(header)
	if method != "POST" {
		r.problem("method %q, want POST", method)
	}
	ct := h.Get("Content-Type")
	switch {
	case p == Connect && unary:
		if !strings.HasPrefix(ct, "application/") || strings.HasPrefix(ct, "application/connect+") || strings.HasPrefix(ct, "application/grpc") {
			r.problem("unary Connect Content-Type %q", ct)
		}
	case p == Connect:
		if !strings.HasPrefix(ct, "application/connect+") {
			r.problem("streaming Connect Content-Type %q", ct)
		}
	case p == GRPC:
		if ct != "application/grpc" && !strings.HasPrefix(ct, "application/grpc+") {
			r.problem("gRPC Content-Type %q", ct)
		}
		if h.Get("Te") != "trailers" {
			r.problem("gRPC request without Te: trailers")
		}
	default:
		if ct != "application/grpc-web" && !strings.HasPrefix(ct, "application/grpc-web+") {
			r.problem("gRPC-Web Content-Type %q", ct)
		}
	}
	// timeout grammar
	if p == Connect {
		if t := h.Get("Connect-Timeout-Ms"); t != "" {
			r.Timeout = t
			if len(t) > 10 || strings.Trim(t, "0123456789") != "" {
				r.problem("Connect-Timeout-Ms %q is not 1-10 digits", t)
			}
		}
	} else if t := h.Get("Grpc-Timeout"); t != "" {
		r.Timeout = t
		if len(t) < 2 || len(t) > 9 || !strings.ContainsRune("HMSmun", rune(t[len(t)-1])) || strings.Trim(t[:len(t)-1], "0123456789") != "" {
			r.problem("Grpc-Timeout %q is not 1-8 digits and a unit", t)
		}
	}
	encH := "Grpc-Encoding"
	if p == Connect && unary {
		encH = "Content-Encoding"
	} else if p == Connect {
		encH = "Connect-Content-Encoding"
	}
	alg := h.Get(encH)
	if p == Connect && unary {
		payload := body
		compressed := alg != "" && alg != "identity"
		if compressed && !(lenientEmpty && len(body) == 0) {
			var err error
			payload, err = dec(alg, body)
			if err != nil {
				r.problem("body does not decompress with %q: %v", alg, err)
				return r
			}
		}
		r.Msgs = append(r.Msgs, payload)
		r.Compressed = append(r.Compressed, compressed)
		return r
	}
	frames, err := SplitEnvelopes(body)
	if err != nil {
		r.problem("body: %v", err)
	}
	for i, f := range frames {
		if f.Flags&^0x01 != 0 {
			r.problem("request frame %d has flag bits %#x", i, f.Flags)
			continue
		}
		payload := f.Payload
		if f.Flags&1 != 0 && len(f.Payload) > 0 { // a zero-length payload is the empty message whatever the flag says
			if alg == "" || alg == "identity" {
				r.problem("request frame %d flagged compressed but %s names no algorithm", i, encH)
				continue
			}
			{
				payload, err = dec(alg, f.Payload)
				if err != nil {
					r.problem("request frame %d does not decompress with %q: %v", i, alg, err)
					continue
				}
			}
		}
		r.Msgs = append(r.Msgs, payload)
		r.Compressed = append(r.Compressed, f.Flags&1 != 0)
	}
	return r
}
