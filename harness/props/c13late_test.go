package props

import (
	"bytes"
	"context"
	"errors"
	"fmt"
	"io"
	"net/http"
	"os"
	"testing"
	"testing/synctest"

	connect "github.com/bufbuild/connect-go"

	"verifharness/ev"
	"verifharness/memhttp"
	"verifharness/refwire"
)

// c13LateDelivery — data that arrives just as the caller gives up.
//
// The HTTPClient contract lets a response body be anything (a proxy, a
// metrics or throttling wrapper).  Call A's body has taken the bytes of A's
// message from the transport and hands them over late: the copy into the slice
// the library supplied happens only when the harness says so.  In between A's
// context ends.  Whatever the library does then, the slice it gave to that
// Read is lent out until the Read returns: call B, started on the same client
// while A's read is still pending and itself paused in the middle of its
// payload, must see its own message.
//
// Alphabet: protocol x size of A's message x order (A's late copy lands before
// / while / after B reads its payload).  One deterministic history each; the
// deterministic LIFO pools make B draw the buffer A released most recently.
var dbgLate = os.Getenv("VERIF_DBGLATE") != ""

type holdBody struct {
	inner   io.ReadCloser
	mode    string // "late": read into a private slice, copy when released; "slow": read into the caller's slice, return when released
	held    bool
	holding chan struct{}
	release chan struct{}
}

func (b *holdBody) Read(p []byte) (int, error) {
	if dbgLate {
		fmt.Printf("READ mode=%s len=%d addr=%p held=%v\n", b.mode, len(p), &p[0], b.held)
	}
	if b.held || len(p) <= 5 {
		return b.inner.Read(p)
	}
	switch b.mode {
	case "late":
		b.held = true
		tmp := make([]byte, len(p))
		n, err := b.inner.Read(tmp)
		close(b.holding)
		<-b.release
		copy(p, tmp[:n])
		return n, err
	case "slow":
		// the bytes are in the caller's slice; the call returns when released
		b.held = true
		n, err := b.inner.Read(p)
		close(b.holding)
		<-b.release
		return n, err
	}
	return b.inner.Read(p)
}

func (b *holdBody) Close() error { return b.inner.Close() }

type holdClient struct {
	inner  connect.HTTPClient
	bodies []*holdBody
	modes  []string
}

func (h *holdClient) Do(req *http.Request) (*http.Response, error) {
	resp, err := h.inner.Do(req)
	if err != nil {
		return resp, err
	}
	mode := ""
	if len(h.bodies) < len(h.modes) {
		mode = h.modes[len(h.bodies)]
	}
	hb := &holdBody{inner: resp.Body, mode: mode, holding: make(chan struct{}), release: make(chan struct{})}
	h.bodies = append(h.bodies, hb)
	resp.Body = hb
	return resp, nil
}

func c13LateDelivery(t *testing.T, c *ev.Collector) {
	if s, _ := ev.Shard(); s != 0 {
		return
	}
	for _, p := range AllProtos {
		for _, sizeA := range []int{40, 700} {
			for _, order := range []string{"copy-while-B-reads", "copy-before-B", "copy-after-B"} {
				key := fmt.Sprintf("late-delivery/%s/a%d/%s", p, sizeA, order)
				c.Case(key, true)
				Bubble(t, func() {
					nth := 0
					h := NewHandler(KBidi, func(ctx context.Context, s HStream) error {
						nth++
						payload := bytes.Repeat([]byte{'A'}, sizeA)
						if nth > 1 {
							payload = bytes.Repeat([]byte{'B'}, 300)
						}
						if err := s.Send(&BV{Value: payload}); err != nil {
							return err
						}
						for {
							if _, err := s.Receive(); err != nil {
								return nil
							}
						}
					})
					tr := &memhttp.Transport{Handler: h, Proto: 2}
					hc := &holdClient{inner: tr, modes: []string{"late", "slow"}}
					cl := NewClient(hc, Cfg{Proto: p, Comp: CompNone})
					tags := []string{"proto=" + p.String(), "late-delivery"}
					type recv struct {
						m   *BV
						err error
					}
					ctxA, cancelA := context.WithCancel(context.Background())
					defer cancelA()
					a := cl.CallBidiStream(ctxA)
					aDone := make(chan recv, 1)
					go func() {
						_ = a.CloseRequest()
						m, err := a.Receive()
						aDone <- recv{m, err}
					}()
					synctest.Wait()
					if len(hc.bodies) != 1 {
						c.HarnessError("%s: call A did not reach the transport", key)
						return
					}
					bodyA := hc.bodies[0]
					select {
					case <-bodyA.holding:
					default:
						c.HarnessError("%s: call A is not inside its payload read", key)
						close(bodyA.release)
						return
					}
					cancelA()
					synctest.Wait()
					released := false
					releaseA := func() {
						if !released {
							released = true
							close(bodyA.release)
							synctest.Wait()
						}
					}
					if order == "copy-before-B" {
						releaseA()
					}
					b := cl.CallBidiStream(context.Background())
					bDone := make(chan recv, 1)
					go func() {
						_ = b.CloseRequest()
						m, err := b.Receive()
						bDone <- recv{m, err}
					}()
					synctest.Wait()
					var got recv
					select {
					case got = <-bDone:
						// B could not start or finished early: only possible if it failed
					default:
						if len(hc.bodies) < 2 {
							// B's request waits for something A still holds: let A go
							releaseA()
						}
						if len(hc.bodies) < 2 {
							c.Violation(c13TestName, "independent", "second-call-blocked", tags, key, "%s: a second call on the client makes no progress while the first one's body read is pending", key)
							c.Outcome("violation")
							releaseA()
							return
						}
						bodyB := hc.bodies[1]
						if order == "copy-while-B-reads" {
							releaseA()
						}
						select {
						case <-bodyB.holding:
							close(bodyB.release)
						default:
							bodyB.held = true
						}
						synctest.Wait()
						if order == "copy-after-B" {
							releaseA()
						}
						select {
						case got = <-bDone:
						default:
							releaseA()
							c.Violation(c13TestName, "terminates", "hang", tags, key, "%s: call B's Receive does not return", key)
							c.Outcome("violation")
							return
						}
					}
					releaseA()
					c.AddStates(6)
					c.AddTransitions(6)
					want := bytes.Repeat([]byte{'B'}, 300)
					switch {
					case got.err != nil:
						c.Violation(c13TestName, "independent", "foreign-failure", tags, key, "%s: call B, whose response was delivered intact, failed with %v while call A's abandoned read was pending", key, got.err)
						c.Outcome("violation")
					case !bytes.Equal(got.m.Value, want):
						c.Violation(c13TestName, "no-cross-talk", "foreign-bytes", tags, key, "%s: call B received %s instead of its own 300 x 'B': bytes of call A's response (or of a released buffer) landed in it", key, shortBytes(got.m.Value))
						c.Outcome("violation")
					default:
						c.Outcome("ok")
					}
					<-aDone
					_ = a.CloseResponse()
					_ = b.CloseResponse()
					tr.AbortAll()
					synctest.Wait()
				})
			}
		}
	}
}

// c13ClientEndOfStream mirrors c13HandlerEndOfStream on the client: responses
// that end in the ways a peer can end them (flagged frames, trailers-only
// headers, a status mirrored into the headers of a response that also has a
// trailers frame) reach one client per protocol, call after call.  The caller
// tags whatever error value the call ended with; no call may find another
// call's tag on the value it is handed.
func c13ClientEndOfStream(t *testing.T, c *ev.Collector) {
	if s, _ := ev.Shard(); s != 0 {
		return
	}
	type peer struct {
		name    string
		p       Proto
		header  http.Header
		body    []byte
		trailer http.Header
	}
	msg := refwire.Envelope(0, codecMarshal(false, &BV{Value: []byte("m")}))
	webTrailer := refwire.Envelope(0x80, []byte("grpc-status: 0\r\n"))
	webFail := refwire.Envelope(0x80, []byte("grpc-status: 9\r\ngrpc-message: no\r\n"))
	peers := []peer{
		{"grpcweb/message-then-trailers", PGRPCWeb, http.Header{"Content-Type": {"application/grpc-web+proto"}}, append(cloneBytes(msg), webTrailer...), nil},
		{"grpcweb/status-in-headers-and-trailers-frame", PGRPCWeb, http.Header{"Content-Type": {"application/grpc-web+proto"}, "Grpc-Status": {"0"}}, cloneBytes(webTrailer), nil},
		{"grpcweb/status-in-headers-message-and-trailers-frame", PGRPCWeb, http.Header{"Content-Type": {"application/grpc-web+proto"}, "Grpc-Status": {"0"}}, append(cloneBytes(msg), webTrailer...), nil},
		{"grpcweb/trailers-only-error", PGRPCWeb, http.Header{"Content-Type": {"application/grpc-web+proto"}, "Grpc-Status": {"9"}, "Grpc-Message": {"no"}}, nil, nil},
		{"grpcweb/error-in-trailers-frame", PGRPCWeb, http.Header{"Content-Type": {"application/grpc-web+proto"}}, cloneBytes(webFail), nil},
		{"grpc/message-then-trailers", PGRPC, http.Header{"Content-Type": {"application/grpc+proto"}}, cloneBytes(msg), http.Header{"Grpc-Status": {"0"}}},
		{"grpc/trailers-only-ok", PGRPC, http.Header{"Content-Type": {"application/grpc+proto"}, "Grpc-Status": {"0"}}, nil, nil},
		{"grpc/flagged-frame", PGRPC, http.Header{"Content-Type": {"application/grpc+proto"}}, cloneBytes(webTrailer), http.Header{"Grpc-Status": {"0"}}},
		{"connect/message-then-end", PConnect, http.Header{"Content-Type": {"application/connect+proto"}}, append(cloneBytes(msg), refwire.Envelope(2, []byte("{}"))...), nil},
		{"connect/end-with-error", PConnect, http.Header{"Content-Type": {"application/connect+proto"}}, refwire.Envelope(2, []byte(`{"error":{"code":"failed_precondition","message":"no"}}`)), nil},
	}
	for _, pr := range peers {
		for _, kind := range []Kind{KBidi, KServer, KUnary, KClient} {
			if pr.p == PConnect && (kind == KUnary) {
				continue // unary Connect has no envelopes
			}
			key := fmt.Sprintf("client-end-of-stream/%s/%s", pr.name, kind)
			c.Case(key, true)
			Bubble(t, func() {
				tr := &memhttp.Transport{Handler: refwire.Handler(200, pr.header, pr.body, pr.trailer), Proto: 2, SyncCloseReq: true}
				cl := NewClient(tr, Cfg{Proto: pr.p, Comp: CompNone, Kind: kind})
				tags := []string{"proto=" + pr.p.String(), "client-end-of-stream"}
				for round := 0; round < 3; round++ {
					id := fmt.Sprintf("call-%d", round)
					var res CallResult
					g := Guarded(func() { res = RunCall(context.Background(), cl, kind, [][]byte{{1}}, nil) }, tr)
					if g.Hung || g.Panicked {
						c.Violation(c13TestName, "terminates", "hang-or-panic", tags, key, "%s: hung=%v panic=%v", key, g.Hung, g.Panic)
						c.Outcome("violation")
						BailIfStuck(c, g)
						return
					}
					for _, e := range []error{res.Err, res.EndErr} {
						var ce *connect.Error
						if e == nil || !errors.As(e, &ce) {
							continue
						}
						if found := ce.Meta().Values("X-Tagged-By"); len(found) > 0 {
							c.Violation(c13TestName, "no-cross-talk", "foreign-metadata", tags, key, "%s: the error value %s ended with (%v) already carries metadata that %v attached to the error of an earlier call: one *connect.Error value is shared by the calls", key, id, e, found)
							c.Outcome("violation")
							return
						}
						ce.Meta().Set("X-Tagged-By", id)
					}
				}
				c.AddStates(3)
				c.AddTransitions(3)
				c.Outcome("ok")
			})
		}
	}
}
