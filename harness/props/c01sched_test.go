package props

import (
	"context"
	"errors"
	"fmt"
	"io"
	"strings"
	"testing"
	"time"

	"verifharness/bsched"
	"verifharness/ev"
	"verifharness/memhttp"
)

// C01 under the controlled scheduler: one complete call of every RPC kind in
// every protocol against a handler that either drains the request stream or
// answers after the first message (so the response can end while the transport
// is still sending the request), every schedule within the delay bound of both
// default schedulers.  The environment threads (the transport's request-body
// reader and its late wake-ups, the handler, the transport closing the request
// body after the handler returned) are scheduled like library threads.  Oracle:
// the call delivers exactly what the handler program answers and ends cleanly.
func c01SchedCases(thorough bool) []c13Case {
	var out []c13Case
	bound := 2
	subs := 8
	if thorough {
		bound = 3
		subs = 8
	}
	for _, p := range AllProtos {
		for _, kind := range AllKinds {
			for _, early := range []bool{true, false} {
				for _, rr := range []bool{false, true} {
					name := "sched-drain"
					if early {
						name = "sched-early"
					}
					for sub := 0; sub < subs; sub++ {
						b := bound
						if !early && !thorough {
							b = 1 // a draining handler waits for the end of the request: fewer races to look for
						}
						out = append(out, c13Case{
							Name:  name,
							Cfg:   Cfg{Proto: p, Comp: CompDefault, Kind: kind, HTTP: 2, ReqMode: memhttp.ReqEager},
							Calls: []c13Call{{Sizes: []int{30}}},
							Early: early, RR: rr, Bound: b, Sub: sub, Subs: subs,
						})
					}
				}
			}
		}
	}
	return out
}

func c01Sched(t *testing.T, c *ev.Collector, thorough bool) {
	c13TestName = "TestC01"
	defer func() { c13TestName = "TestC13" }()
	c.Bound("scheduled_single_call_delay_bound", map[bool]int{false: 2, true: 3}[thorough])
	for i, k := range c01SchedCases(thorough) {
		if !ev.Mine(i) || c.Expired() {
			continue
		}
		c13Explore(t, c, k)
	}
}

// c01SchedReplay replays a violation of the scheduled family.
func c01SchedReplay(t *testing.T, c *ev.Collector, k c13Case) {
	c13TestName = "TestC01"
	defer func() { c13TestName = "TestC13" }()
	solo := c13Solo(t, k)
	schedRoundRobin = k.RR
	x := runSched(t, k.Prefix, nil, 20000, func(s *bsched.Sched) any { return c13Body(k, s) })
	fmt.Println("replay:", c13Judge(c, k, x, solo), schedLine(x))
}

// c01RealEarly replays the scheduled family's early-answer scenario on the
// real net/http stack (TLS HTTP/2 on loopback): the handler answers after the
// first request message, the client sends one message, receives to the end of
// the stream and only then closes its request side.  Real schedules are
// whatever the runtime produces (repeated, not enumerated): this is the
// conformance run that keeps memhttp's abort / wake-up rules bound to net/http.
func c01RealEarly(c *ev.Collector) {
	const reps = 300
	idx := 0
	for _, p := range AllProtos {
		idx++
		if !ev.Mine(idx) {
			continue
		}
		cfg := Cfg{Proto: p, Comp: CompDefault, Kind: KBidi, HTTP: 2, ReqMode: memhttp.ReqEager}
		h := NewHandler(KBidi, func(ctx context.Context, s HStream) error {
			m, err := s.Receive()
			if err != nil {
				return err
			}
			return s.Send(&BV{Value: append([]byte{'r'}, m.Value...)})
		}, cfg.HandlerOptions()...)
		srv := NewRealServer(h, true)
		cl := NewRealClient(srv, cfg)
		fails := map[string]int{}
		ok := Watchdog(120*time.Second, func() {
			for i := 0; i < reps; i++ {
				stream := cl.CallBidiStream(context.Background())
				if err := stream.Send(&BV{Value: []byte{1, byte(i)}}); err != nil {
					fails["Send: "+err.Error()]++
				}
				if m, err := stream.Receive(); err != nil || len(m.Value) != 3 {
					fails[fmt.Sprintf("Receive#1: %v", err)]++
				}
				if _, err := stream.Receive(); !errors.Is(err, io.EOF) {
					fails[fmt.Sprintf("Receive#2: %v", err)]++
				}
				if err := stream.CloseRequest(); err != nil {
					fails["CloseRequest: "+err.Error()]++
				}
				if err := stream.CloseResponse(); err != nil {
					fails["CloseResponse: "+err.Error()]++
				}
			}
		})
		srv.Close()
		key := fmt.Sprintf("real-early/%s/bidi/x%d", p, reps)
		c.Case(key, true)
		c.AddTraces(reps)
		c.AddTransitions(5 * reps)
		c.AddStates(5 * reps)
		c.AddExtra("real_transport_calls", reps)
		if !ok {
			c.NotExhaustive("calls over the real transport did not return within 120 s: " + key)
			return
		}
		if len(fails) > 0 {
			c.Violation("TestC01", "client-clean-end", "error", []string{"proto=" + p.String(), "kind=bidi", "real-transport", "handler-answers-early"}, key, "real transport %s: %v", key, fails)
			c.Outcome("violation")
		} else {
			c.Outcome("ok")
		}
	}
}

// c01Lockstep: a bidi conversation in lockstep - the client sends message i
// and waits for the handler's answer to it before it sends message i+1; the
// handler answers every message as soon as it has received it.  Every sequence
// over {zero, small, pool-seed-sized} up to length 3 (x compression settings x
// codecs x protocols x request windows): each message, zero-valued ones
// included, must be delivered when Send has returned, or the conversation
// stalls (a stall is decided by bubble quiescence).
func c01Lockstep(t *testing.T, c *ev.Collector) {
	seqs := seqsUpTo([]string{"z", "a", "p"}, 3)
	idx := 0
	for _, p := range AllProtos {
		for _, js := range []bool{false, true} {
			for _, comp := range []Comp{CompDefault, CompNone, CompSendGzip, CompSendMin} {
				for _, mode := range []memhttp.ReqMode{memhttp.ReqEager, memhttp.ReqLazy} {
					idx++
					if !ev.Mine(idx) {
						continue
					}
					cfg := Cfg{Proto: p, JSON: js, Comp: comp, Kind: KBidi, HTTP: 2, ReqMode: mode}
					Bubble(t, func() {
						h := NewHandler(KBidi, func(ctx context.Context, s HStream) error {
							for {
								m, err := s.Receive()
								if err != nil {
									if errors.Is(err, io.EOF) {
										return nil
									}
									return err
								}
								if err := s.Send(&BV{Value: cloneBytes(m.Value)}); err != nil {
									return err
								}
							}
						}, cfg.HandlerOptions()...)
						tr := &memhttp.Transport{Handler: h, Proto: 2, ReqMode: mode, SyncCloseReq: true}
						cl := NewClient(tr, cfg)
						for _, sq := range seqs {
							if len(sq) == 0 {
								continue
							}
							key := cfg.String() + "|lockstep|" + strings.Join(sq, ",")
							c.Case(key, true)
							want := payloads(sq)
							var got [][]byte
							var callErr error
							stalledAt := -1
							g := Guarded(func() {
								stream := cl.CallBidiStream(context.Background())
								for i, m := range want {
									stalledAt = i
									if err := stream.Send(&BV{Value: m}); err != nil {
										callErr = err
										break
									}
									r, err := stream.Receive()
									if err != nil {
										callErr = err
										break
									}
									got = append(got, cloneBytes(r.Value))
								}
								stalledAt = -1
								_ = stream.CloseRequest()
								if callErr == nil {
									if _, err := stream.Receive(); !errors.Is(err, io.EOF) {
										callErr = fmt.Errorf("end of stream: %v", err)
									}
								}
								_ = stream.CloseResponse()
							}, tr)
							c.AddTransitions(int64(2*len(sq) + 3))
							c.AddStates(int64(2*len(sq) + 3))
							c.AddTraces(1)
							tags := append(cfg.Tags(), "lockstep")
							tags = append(tags, seqTags(sq, "req")...)
							switch {
							case g.Hung || g.Panicked:
								c.Violation("TestC01", "handler-recv-seq", "stalled", tags, key, "%s: the conversation stalled at message %d (Send had returned, the answer never came): hung=%v panic=%v", key, stalledAt+1, g.Hung, g.Panic)
								c.Outcome("violation")
								BailIfStuck(c, g)
								return
							case callErr != nil:
								c.Violation("TestC01", "client-clean-end", "error", tags, key, "%s: %v", key, callErr)
								c.Outcome("violation")
							case !equalMsgs(got, want):
								c.Violation("TestC01", "client-recv-seq", "mismatch", tags, key, "%s: echoed %s, sent %s", key, shortMsgs(got), shortMsgs(want))
								c.Outcome("violation")
							default:
								c.Outcome("ok")
							}
						}
					})
				}
			}
		}
	}
}
