#!/usr/bin/env python3
"""Regenerates /verif/MANIFEST.json from the table below (kept in one place so
that claimed checks and not_applicable stay consistent)."""
import json, sys

BASELINE_OFF = "cd /repo && go test -vet=off -count=1 -timeout 25m ./..."

CHECKS = {
 # id: (category, design_ref, technique, text, note)
 "C01": ("model_checking", "DESIGN.md 4/C01",
   "bounded exhaustive operation-sequence exploration of the real Client/Handler against a reference model (the sent slice)",
   "Every message sequence up to the stated length over an alphabet of boundary shapes (zero-value, small, 512 B pool seed +-1, compress-min-bytes +-1, 8 MiB recycle cap +-1) is run through real clients and handlers in every protocol x codec x compression x RPC kind x HTTP version x request-window configuration, with one shared Client/Handler per configuration so earlier calls leave state behind; the oracle is equality with the sent slice plus a clean end of stream and a request that still goes to the client's own URL (the environment rewrites the URL of each request it is handed). Messages with nested sub-messages (structpb.Struct, fresh and re-sent after an in-place update) are echoed through unary and bidi calls. The thorough tier repeats a reduced batch of every configuration over the real net/http stack (HTTP/1.1 and TLS HTTP/2). Exhaustive within the bounds, so it decides the property for all small histories rather than a sample.",
   "memhttp is a legal stand-in for net/http (cross-checked on real loopback h1/h2 in the thorough tier); payload codecs proto/protojson trusted; sequence length and payload sizes bounded"),
 "C14": ("model_checking", "DESIGN.md 4/C14",
   "stateless model checking of the real client/handler under a controlled scheduler (testing/synctest bubble + yield points), delay-bounded exhaustive schedule enumeration, against a two-process FIFO reference model",
   "Every admissible pair of a client program over {Send, CloseRequest, Receive, CloseResponse, cancel} and a handler program {receive i, send j, drain?, nil|error}, in each protocol and request-window mode, is executed on the real library under a scheduler that owns every interleaving decision; every schedule with at most d delays at the library's and the environment's yield points is enumerated (d=1 quick, d=2 for short programs in thorough - the property's 'every single point, every pair'), around the non-preemptive default scheduler and, for eager-window scenarios, around a round-robin one; programs may cancel first; an extra dimension lets Receive fail on a message above the client's read limit while the stream is open (one known finding: gRPC drains to the trailers and deadlocks). Oracles: no deadlock (decided by quiescence, not wall-clock), no library goroutine left, response body closed, handler sees EOF after CloseRequest, Sends after the end fail with io.EOF, Receive sequence equals the reference model, errors are sticky.",
   "memhttp models the RoundTripper/Handler contract; schedules inside the real net/http stack are not explored; statement-granular sequentially consistent interleavings; delay bound and program length bounded"),
 "C15": ("model_checking", "DESIGN.md 4/C15",
   "stateless model checking under a controlled scheduler with cancellation / fake-clock expiry as scheduler choices, delay-bounded exhaustive enumeration of the cancellation instant",
   "The cancel() call (thread ~x) or the deadline expiry (fake clock of the synctest bubble, event ~clock), each also with a caller-supplied cause (WithCancelCause / WithTimeoutCause), is placed at every yield point of every client program - before the call, between operations, and while a Send or Receive is blocked - against handlers that wait for ctx.Done and return ctx.Err. Every operation that fails after the event must carry canceled / deadline_exceeded (Send may return the io.EOF stream-closed error), Send/Receive started afterwards never succeed, the handler's context is cancelled, no goroutine is left. A sequential family checks that handlers returning bare or wrapped context errors convey the same code.",
   "memhttp's cancellation behaviour mirrors net/http's documented contract; transports whose abort error does not wrap the context error are out of scope; delay bound 1 (the event itself) in quick, 2 in thorough"),
 "C13": ("model_checking", "DESIGN.md 4/C13",
   "stateless model checking of concurrent calls on one shared Client/Handler under a controlled scheduler with deterministic poisoned buffer pools, delay-bounded exhaustive schedule enumeration, differential oracle against solo runs",
   "Two (one scenario: three) threads run complete calls with call-tagged payloads on a single shared Client and Handler whose sync.Pools are replaced by deterministic LIFO stacks that poison released buffers, so any sharing of scratch state, use-after-Put or cross-call mix-up becomes a deterministic observable difference; plus sender||receiver on one bidi stream. Every schedule within the delay bound of two deterministic default schedulers (non-preemptive run-to-block and round-robin at every yield point) over ~450 yield points per execution (every statement of the duplex call, every pool/compressor/codec/IO operation, every membrane event) is executed, also after a corrupt compressed call went through the shared handler; each call must observe what the handler program answers and exactly what it observes alone, every request must go to the client's own URL, no poisoned byte may be visible, messages and error metadata handed to user code (including the io.EOF end-of-stream error) must stay intact.",
   "sequentially consistent, statement-granular interleavings only: the clause 'no unsynchronised memory access' is decided only as far as such interleavings make a difference observable; a free-running -race pass is supplementary; delay bound 1 quick / 2 thorough"),
 "C02": ("model_checking", "DESIGN.md 4/C02",
   "bounded exhaustive input/configuration enumeration on the real client and handler (error code x message x details x metadata x position x protocol x codec x RPC kind)",
   "All 17 error kinds x 11 message classes (empty, non-ASCII, NUL/control, '%' forms, CR/LF, blanks, 4 KiB) x detail lists x metadata multimaps x 0..2 messages sent first x handler/interceptor as the origin, in every protocol, codec and RPC kind, run on real handlers and clients; the oracle compares code, byte-identical message, details (proto.Equal, order), metadata (per-key order), never-success and the non-2xx status of failed unary Connect calls. Quick covers the full code x message product and every other dimension around a default (deviation bound 2); thorough the full product (3.6e5 calls).",
   "memhttp instead of real sockets (it strips optional whitespace around field values like an HTTP/1.1 parser); details are Any-wrapped well-known types"),
 "C11": ("model_checking", "DESIGN.md 4/C11",
   "bounded exhaustive enumeration of header/trailer multimaps through real calls plus complete enumeration of short byte strings through the binary-header helpers",
   "Request headers, response headers, response trailers and error metadata multimaps (several values per key, separators, quotes, -Bin values) are pushed through real calls in every protocol and RPC kind for the four outcome shapes; the handler and the client must observe every value unchanged and in per-key order, under headers/trailers when a message was carried and at least in Error.Meta on failure. Every byte string up to length 1 (quick) / 2 (thorough) travels as a -Bin header and trailer value; every byte string up to length 2 (quick) / 3 (thorough, 16.8 M) goes through Encode/DecodeBinaryHeader in padded and unpadded form - a complete enumeration of that domain.",
   "memhttp canonicalises field names and trims optional whitespace like net/http; header names outside the protocol-reserved prefixes"),
 "C16": ("model_checking", "DESIGN.md 4/C16",
   "exhaustive configuration enumeration (interceptor lists x groupings x option nestings x kinds x sides) against a reference onion model",
   "Every interceptor list up to length 3 (quick) / 4 (thorough) with nil at any positions, every composition into WithInterceptors groups, optional empty groups, every bundling into WithOptions / WithClientOptions / WithHandlerOptions wrappers up to depth 2, and every option tree over 2..4 single-interceptor groups (direct groups and nested composites as siblings, depth 3/2/1 quick, 3/3/2 thorough), for all four RPC kinds on clients and on handlers, is built with the real option constructors; one real call is made and the recorded event log must equal the onion computed from the flat non-nil list (first = outermost, each interceptor exactly once per call and direction).",
   "interceptors log their first Send/Receive per call; one protocol per configuration (rotating)"),
 "C19": ("model_checking", "DESIGN.md 4/C19",
   "exhaustive configuration x program enumeration on real handlers (panic value x kind x protocol x panic point x interceptor position x panic(nil) runtime semantics)",
   "Each panic value (nil, error, string, struct, pointer, the http abort sentinel, an error wrapping the sentinel, none) is raised at each point (before anything, after the first response, after the last) in each RPC kind and protocol with WithRecover preceded/followed by 0..2 other interceptors, under both GODEBUG panicnil settings, with the recovery function returning a coded error, an uncoded one, one wrapping a coded error, one wrapping context.DeadlineExceeded or a coded one with multi-valued metadata; the recovery function must run exactly once with the recovered value, the client must receive exactly its error after the messages already sent (identical observation to a handler that returns that error at the same point), the sentinel must leave ServeHTTP untouched with zero recovery calls, and non-panicking calls must equal a handler without WithRecover.",
   "memhttp reports what escapes ServeHTTP as net/http's server would see it"),
 "C08": ("model_checking", "DESIGN.md 4/C08",
   "bounded exhaustive configuration + history enumeration on real clients/handlers with a wire-level oracle (recorded exchange decompressed by reference implementations)",
   "Every registration order of every subset of three custom algorithms (plus the built-in gzip) on the client and on the handler, every send-compression choice including unregistered ones, compress-min-bytes with sizes around the threshold, raw requests with every (encoding, accept-encoding) header pair of a menu, every history of valid/corrupt compressed calls up to length 3 (quick) / 4 (thorough) through one shared Client/Handler, and - under the controlled scheduler, delay bound 1 around two default schedulers - two valid compressed calls running concurrently after a corrupt one (wrong CRC trailer / truncated data) went through the shared handler, in every protocol. The oracle reads the recorded bytes: response algorithm supported and offered, the client's first-listed mutual one when the request was identity, unknown request algorithm -> unimplemented listing the supported set without running user code, small messages unflagged, every flagged message decompresses to the sent bytes, valid calls after corrupt ones are unaffected.",
   "custom algorithms are magic-byte XOR codecs; quick visits a third of the 16x16 order pairs (rotating), thorough all"),
 "C09": ("model_checking", "DESIGN.md 4/C09",
   "bounded exhaustive enumeration of limits x sizes x positions x protocols x sides on real clients/handlers plus hostile raw peers with an allocation probe",
   "For N in {2,3,5,64,512,1024,65536}: messages of size 0, N-1, N, N+1, 64N at positions 1..3 of a stream (identity encoding, so wire size = encoded size), limit on the handler or on the client, all three protocols; hostile peers send gzip with wire <= N < decompressed, gzip inflating to 32 MiB, and length prefixes of 0xFFFFFFFF / 64 MiB with 10 bytes present, with a TotalAlloc probe. A message is delivered iff max(wire, decompressed) <= N, oversize fails the call with invalid_argument, within-limit sequences arrive intact, and the receiver does not buffer the declared / inflated size.",
   "'all N >= 1' is seven values; allocation is bounded through a coarse allowance (8N + 4 MiB vs 32 MiB), not measured exactly; one known finding (limit also applies to the gRPC-Web trailer frame)"),
 "C10": ("model_checking", "DESIGN.md 4/C10",
   "boundary-complete domain enumeration of durations and header strings through real calls inside a fake-clock bubble, plus complete enumeration of a contiguous duration range through the pure encoder/parser, against an independent grammar",
   "Durations at every unit x digit-count boundary (each +-1 ns), Connect's 1 ms and 10-digit limits and 2^63-1 are given to real clients inside a synctest bubble (no time passes, so 'time remaining' is exact); the timeout header actually sent is parsed by an independent grammar and must be <= remaining, within the encoding's granularity, grammatical, absent iff inexpressible, and equal to the handler context's deadline. Every duration 1..2e6 ns (quick) / 1.2e8 ns (thorough) goes through the gRPC encoder and parser. Every header string up to length 3 (quick) / 4 (thorough) over a 12-symbol alphabet plus unit x 1..12-digit and overflow forms is sent to real handlers: grammatical values must be honoured exactly (unbounded beyond time.Duration), malformed ones rejected with invalid_argument without running user code.",
   "signed numbers and zero-padding beyond the digit limit are recorded but not judged (the property lists neither as grammatical nor as malformed); one known finding (Connect client with < 1 ms left sends no timeout)"),
 "C12": ("model_checking", "DESIGN.md 4/C12",
   "exhaustive request enumeration (method x HTTP version x Content-Type near-miss closure x codec sets x RPC kinds) into the real Handler.ServeHTTP against a reference computed from the property text",
   "Eight methods x three HTTP versions x every advertised Content-Type, every single-character deletion / case flip / insertion of each, parameter and whitespace variants, the application/{grpc,grpc-web,connect,}{,+}{names} grid and unrelated types x four registered codec sets x four RPC kinds (1.5e5 requests quick) are served by real handlers; 405+Allow, 505, 415 iff the type is not in the reference set, Accept-Post equal to the reference set, zero runs of user code and interceptors when rejected and exactly one run with the constructor's Spec otherwise (as seen by interceptors and, through Request.Spec(), by unary and server-stream user code). Real calls over six URL shapes check that client and handler interceptors see the same procedure and stream type.",
   "requests are handed to ServeHTTP directly; with a codec literally named grpc the Connect and gRPC types collide and only the run-at-most-once clause is asserted"),
 "C18": ("model_checking", "DESIGN.md 4/C18",
   "complete enumeration of the codec domains themselves (all 2^32 codes in thorough; all byte strings up to length 3; all strings up to length 6 over a decoder alphabet)",
   "Code text round trip and 4xx/5xx status for every value below 2^20, above 2^32-2^20 and around every power of two (quick) or all 2^32 values (thorough); UnmarshalText rejects every string of length <= 3 over 40 symbols and every single-character edit of each name that is neither a name nor code_<number>; the gRPC percent-encoding round-trips every byte string of length <= 3 (16.8 M) with printable-ASCII output, its decoder is total on every string of length <= 6 over {%,0,A,f,G,space,0xFF,a}; Encode/DecodeBinaryHeader round-trip every byte string of length <= 3 in the padded and unpadded spelling with header-safe output, DecodeBinaryHeader is total on every string of length <= 6 over {A,Q,=,-,_,+,/,space,0xFF}; every code returned by a real unary Connect handler reaches the wire as 4xx/5xx; no operation panics.",
   "unexported functions reached through overlay-only exported wrappers; code_<signed or in-range number> forms are not judged"),
 "C05": ("model_checking", "DESIGN.md 4/C05 and appendix A",
   "program enumeration on the real library decoded by an independent strict reference codec (refwire), plus exhaustive enumeration of the reference codec's legal encoding variations replayed against the implementation",
   "(i) Handler programs {0..2 headers, 0..2 trailers, k messages, nil or error with message class and details} and client programs x protocols x codecs x compression settings x RPC kinds run on the real library; the recorded request and response bytes are decoded by refwire, an independent strict implementation of the three protocols: no problem may be reported (HTTP 200 and exactly one grpc-status in the right place, exactly one end-of-stream envelope with nothing after it, JSON error under the code's status, echoed Content-Type, compressed flag only with a named algorithm) and the decoded messages, status, error, details and metadata must equal what the application supplied. (ii) refwire encodes conformant responses with every combination of the applicable legal variations and conformant requests; each such reference trace is replayed against the real client / handler, which must accept it and decode the same values.",
   "refwire encodes the protocol documents as of the pinned commit (appendix A) and is self-checked (encode -> strict decode) on every generated peer; final-spec forms the pinned documents do not define are not generated"),
 "C06": ("model_checking", "DESIGN.md 4/C06",
   "grammar-bounded exhaustive enumeration of hostile HTTP responses (deviation-bounded product of menus plus all short byte strings) served to the real client",
   "A fake peer answers the real client with every combination of at most 2 (quick) / 3 (thorough) simultaneous deviations from a valid response over status, Content-Type, encoding, Grpc-Status in headers and trailers, Grpc-Message, details blob and ~45 body shapes, plus every byte string of length <= 4 (quick) / 6 (thorough) over a framing alphabet as the whole body, in every protocol, codec and RPC kind (8.6e4 quick, 2.5e6 thorough). Each call must terminate (decided by bubble quiescence), not panic, and either succeed or return a *connect.Error with a non-zero code; non-200 responses without a protocol-level error must map to the HTTP-status table; metadata lookups must be case-insensitive whatever casing the peer used.",
   "client runs with a 64 KiB read limit as a memory guard for lying length prefixes; which of several contradictory statuses wins is not asserted"),
 "C07": ("model_checking", "DESIGN.md 4/C07",
   "grammar-bounded exhaustive enumeration of hostile HTTP requests (deviation-bounded product of menus plus all short byte strings) into the real Handler.ServeHTTP, judged by the reference decoder",
   "Every combination of at most 2 (quick) / 3 (thorough) simultaneous deviations from a valid request over method, HTTP version, Content-Type, encoding, accept list, 17 timeout strings, ~20 body shapes and handler read limit, plus every byte string of length <= 4 / 6 over a framing alphabet as the body, for every protocol, codec and RPC kind (6e4 quick, 2.2e6 thorough). ServeHTTP must return, not panic, answer with a response that refwire accepts for the selected protocol or a bare 405/415/505, run user code at most once and only with messages that decode from the request, use the documented codes (unimplemented for unknown compression, invalid_argument for bad timeouts, undecodable payloads and oversize messages) and never answer malformed framing as success.",
   "requests are handed to ServeHTTP directly; unknown request flags, trailing bytes after a unary message and zero-length payloads under any codec/flag are recorded but not judged"),
 "C03": ("fault_enumeration", "DESIGN.md 4/C03",
   "exhaustive enumeration of environment answers (read segmentations) over a corpus of valid bodies replayed to the real client/handler, differential oracle against one-piece delivery",
   "A corpus of valid request and response bodies captured from real peers (the library and the reference encoder) in all three protocols is replayed to the real client and handler under every segmentation into non-empty reads - all 2^(n-1) for bodies up to 12 (quick) / 16 (thorough) bytes; every choice of up to 2 / 3 cut positions and all strides 1..8 for longer ones; every position around each envelope prefix and payload boundary for 70 KiB bodies - each with EOF on a separate read and with EOF returned together with the last data; every body is also replayed under a read limit one below and exactly at its largest frame (oversize / discard path). The observation (messages, end of stream or error code and text, metadata) must equal the one-piece delivery; a stuck read loop is a deterministic deadlock in the bubble.",
   "segmentation is applied at the io.Reader the library reads from; the corpus is finite (about 60 bodies quick, 66 thorough)"),
 "C04": ("fault_enumeration", "DESIGN.md 4/C04",
   "exhaustive crash-point / fault enumeration (every cut offset x terminal answer x placement x trailer presence) over the corpus of valid bodies replayed to the real client/handler",
   "Every body of the corpus is cut at every byte offset 0..len (every offset around prefixes and boundaries for 70 KiB bodies) and ended with a clean EOF, io.ErrUnexpectedEOF or a transport error, delivered on a separate read or together with the last data, with the gRPC HTTP trailers delivered or dropped; the terminal answers include HTTP/2 stream resets by the peer (NO_ERROR, CANCEL, ...). Further families: HTTPClient.Do failing before any response, the k-th ResponseWriter.Write failing (the failing Send must report it), the connection dying after k request bytes. A response cut before its terminator (status trailers, gRPC-Web trailer frame, Connect end-of-stream envelope, complete unary body) must fail the call with a coded non-OK error, the delivered messages must be a prefix of those sent, nothing may hang or panic, and the complete body must give the uncut outcome; a request body that failed or stopped inside an envelope must never give the handler a clean end of stream nor be answered OK.",
   "unary Connect bodies cut with a clean EOF are different complete bodies and are not judged; single-request kinds never read past their one envelope, so later failures are unobservable; write-side faults are covered through C14's transport events, not here"),
 "C17": ("model_checking", "DESIGN.md 4/C17",
   "bounded exhaustive enumeration of service descriptors (programs) through the built plugin binary, against a reference path/constructor model evaluated on the generated AST, with go/parser and the Go compiler as oracles",
   "Descriptors over package {absent, single, dotted} x go_package form x service names x method names (incl. all 25 Go keywords capitalised) x 4 streaming kinds x deprecation options x comment shapes x local/imported message types x 1..2 services x 1..3 methods x files without services are fed as CodeGeneratorRequests to the plugin built from /repo's working tree (quick: dimensions varied one or two at a time, 355 descriptors; thorough: plus the full product with 1..2 methods). The plugin must exit 0 without error, be byte-for-byte deterministic, emit Go that go/parser accepts and that type-checks against /repo in a batch build with protoc-gen-go's output, and on the AST every method's mux pattern, Spec procedure and client URL suffix must equal /<fully-qualified service>/<method> with the constructor and Call* matching the streaming kind and the mount prefix /<fully-qualified service>/. The checked-in ping.connect.go must be reproduced byte for byte from the descriptor embedded in ping.pb.go.",
   "protoc is not installed: descriptors are built programmatically; protoc-gen-go v1.28.0 from the module cache supplies the message types; descriptor space bounded to <= 2 services x <= 3 methods"),
}

PENDING = {
}

def main():
    props = [json.loads(l) for l in open('/verif/properties.jsonl')]
    checks, na = [], []
    for p in props:
        pid = p['id']
        if pid in CHECKS:
            cat, ref, tech, text, note = CHECKS[pid]
            checks.append({
                "property_id": pid,
                "quick_cmd": f"./check {pid} quick",
                "thorough_cmd": f"./check {pid} thorough",
                "evidence_file": f"evidence/{pid}.json",
                "replay_cmd_template": "./check --replay {path}",
                "engine": "harness",
                "level_claimed": {"category": cat, "text": text, "design_ref": ref},
                "level_note": note,
                "technique": tech,
            })
        else:
            na.append({"property_id": pid, "reason": PENDING.get(pid, "check not built yet in this round; design in DESIGN.md section 4 (no claim is made until the explorer exists and passes on the unchanged tree)")})
    m = {
        "version": 1,
        "setup_cmd": "./setup.sh",
        "hooks": {
            "guard": "verif",
            "enable": "no hooks are committed to /repo: tools/instr generates an overlay from /repo's working tree at check time (sync -> deterministic poisoned pool / channel mutex shim, verifGate yield points, verif_hooks.go with //go:build verif) and checks build with `go test -c -tags verif -overlay out/overlay-<profile>/overlay.json`",
            "baseline_off_cmd": BASELINE_OFF,
            "source_commits": [],
            "add_only": True,
        },
        "engines": [
            {"name": "harness", "path": "harness/", "serves_properties": sorted(CHECKS),
             "kind_free_text": "Go (1.26.8) bounded exhaustive explorers over the real library: memhttp in-memory HTTP environment, ev evidence collector, bsched controlled scheduler on testing/synctest, refwire reference codec; cmd/vcheck drives shards and matches known findings"},
            {"name": "instr", "path": "tools/instr/", "serves_properties": sorted(CHECKS),
             "kind_free_text": "AST instrumenter producing the build overlay (sync shim, yield points)"},
        ],
        "checks": checks,
        "not_applicable": na,
        "notes": "All checks rebuild from /repo's working tree on every invocation. Exit 0 = held (or only listed known findings), 1 = VIOLATION, 2 = HARNESS-ERROR (bug of the machinery, never a verdict).",
    }
    json.dump(m, open('/verif/MANIFEST.json', 'w'), indent=1)
    print("checks:", [c['property_id'] for c in checks], "na:", len(na))

main()
