package bsched

// Exec is the record of one complete execution.
type Exec struct {
	Points   []Point
	Obs      any
	Deadlock bool
	Horizon  bool
	Diverged string
	Blocked  []string
	Stacks   string
}

func (x *Exec) Choices() []int {
	out := make([]int, len(x.Points))
	for i, p := range x.Points {
		out[i] = p.Chosen
	}
	return out
}

// Preemptions counts the preemptive switches of the execution.
func (x *Exec) Preemptions() int {
	n := 0
	for _, p := range x.Points {
		if p.Chosen != 0 && p.RunningEnabled {
			n++
		}
	}
	return n
}

// TrimmedChoices drops the trailing default (0) choices: replaying it gives
// the same execution.
func (x *Exec) TrimmedChoices() []int {
	c := x.Choices()
	for len(c) > 0 && c[len(c)-1] == 0 {
		c = c[:len(c)-1]
	}
	return c
}

// Explorer enumerates every schedule with at most Bound preemptions
// (CHESS-style iterative context bounding) by stateless DFS with prefix replay.
type Explorer struct {
	// Delay selects delay bounding: choosing the alternative with index j at a
	// point costs j (that many threads are delayed); the default scheduler is
	// non-preemptive (running thread first, then ascending thread names).
	// Otherwise preemption bounding: any alternative costs 1 where the running
	// thread is still enabled and 0 elsewhere.
	Delay bool
	Bound int
	// Run executes the scenario once in a fresh bubble, replaying prefix
	// (expect = recorded points of the parent execution, for the divergence check).
	Run func(prefix []int, expect []Point) *Exec
	// OnExec is the per-execution oracle.
	OnExec func(x *Exec)
	// Stop, if it returns true, ends the exploration early (Capped is set).
	Stop func() bool
	// Shard/Shards split the children of the root execution between workers
	// (Shards <= 1: everything).
	Shard, Shards int
	// MaxExecutions caps the exploration (0 = none).
	MaxExecutions int64

	Executions  int64
	Transitions int64 // scheduling steps executed
	States      int64 // new DFS-tree nodes visited (steps beyond the replayed prefix)
	Divergences []string
	// Recovered lists replay deviations that did not persist when the same
	// prefix was replayed again.
	Recovered []string
	Horizons  int64
	Capped    bool
	MaxDepth  int
}

type item struct {
	prefix []int
	expect []Point
}

func (e *Explorer) Explore() {
	stack := []item{{}}
	first := true
	for len(stack) > 0 {
		if (e.Stop != nil && e.Stop()) || (e.MaxExecutions > 0 && e.Executions >= e.MaxExecutions) {
			e.Capped = true
			return
		}
		it := stack[len(stack)-1]
		stack = stack[:len(stack)-1]
		x := e.Run(it.prefix, it.expect)
		isRoot := first
		first = false
		// A replayed prefix must reproduce the recorded enabled sets.  What is
		// left of run-time nondeterminism (a goroutine woken in the middle of a
		// scheduler step observes its wake-up a little earlier or later) can make
		// one replay deviate; the same prefix is then replayed again, and only a
		// deviation that persists is reported (as a harness error, never as a
		// verdict on the code).
		for attempt := 0; x.Diverged != "" && attempt < 3; attempt++ {
			e.Recovered = append(e.Recovered, x.Diverged)
			x = e.Run(it.prefix, it.expect)
		}
		if x.Diverged != "" {
			e.Divergences = append(e.Divergences, x.Diverged)
			continue
		}
		if !isRoot || e.Shards <= 1 || e.Shard == 0 {
			e.Executions++
			e.Transitions += int64(len(x.Points))
			e.States += int64(len(x.Points) - len(it.prefix))
			if len(x.Points) > e.MaxDepth {
				e.MaxDepth = len(x.Points)
			}
			if x.Horizon {
				e.Horizons++
			}
			if e.OnExec != nil {
				e.OnExec(x)
			}
		}
		choices := x.Choices()
		cost := 0
		for i := 0; i < len(it.prefix) && i < len(x.Points); i++ {
			cost += e.cost(x.Points[i], x.Points[i].Chosen)
		}
		var children []item
		childIdx := 0
		for i := len(it.prefix); i < len(x.Points); i++ {
			p := x.Points[i]
			for alt := 1; alt < len(p.Enabled); alt++ {
				if cost+e.cost(p, alt) > e.Bound {
					continue
				}
				mine := true
				if isRoot && e.Shards > 1 {
					mine = childIdx%e.Shards == e.Shard
				}
				childIdx++
				if !mine {
					continue
				}
				prefix := append(append(make([]int, 0, i+1), choices[:i]...), alt)
				children = append(children, item{prefix: prefix, expect: x.Points})
			}
		}
		for i := len(children) - 1; i >= 0; i-- {
			stack = append(stack, children[i])
		}
	}
}

func (e *Explorer) cost(p Point, alt int) int {
	if alt == 0 {
		return 0
	}
	if e.Delay {
		// environment events (~clock, ~x: cancellation / expiry) sort last and
		// cost a single delay wherever they are placed
		if alt < len(p.Enabled) && len(p.Enabled[alt]) > 0 && p.Enabled[alt][0] == '~' {
			return 1
		}
		return alt
	}
	if p.RunningEnabled {
		return 1
	}
	return 0
}
