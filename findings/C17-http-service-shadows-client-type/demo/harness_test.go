package verifdemo

import (
	"bytes"
	"fmt"
	"os"
	"os/exec"
	"path/filepath"
	"strings"
	"sync"
	"testing"

	"google.golang.org/protobuf/proto"
	"google.golang.org/protobuf/types/descriptorpb"
	"google.golang.org/protobuf/types/pluginpb"
)

// worktree is the connect-go tree whose plugin is under test.
func worktree() string {
	if wt := os.Getenv("CONNECT_WT"); wt != "" {
		return wt
	}
	return "/tmp/wt/R6C17"
}

var (
	buildOnce sync.Once
	binDir    string
	buildErr  error
)

func goEnv() []string {
	return append(os.Environ(),
		"GOFLAGS=-mod=mod", "GOPROXY=off", "GOSUMDB=off", "GOTOOLCHAIN=local")
}

// plugins builds protoc-gen-connect-go from the worktree and protoc-gen-go from
// the module cache, once per test binary.
func plugins(t *testing.T) (connectGo, protocGenGo string) {
	t.Helper()
	buildOnce.Do(func() {
		binDir, buildErr = os.MkdirTemp("", "verifdemo-bin")
		if buildErr != nil {
			return
		}
		cmd := exec.Command("go", "build", "-o", filepath.Join(binDir, "protoc-gen-connect-go"),
			"./cmd/protoc-gen-connect-go")
		cmd.Dir = worktree()
		cmd.Env = goEnv()
		if out, err := cmd.CombinedOutput(); err != nil {
			buildErr = fmt.Errorf("build protoc-gen-connect-go: %v\n%s", err, out)
			return
		}
		cmd = exec.Command("go", "build", "-o", filepath.Join(binDir, "protoc-gen-go"),
			"google.golang.org/protobuf/cmd/protoc-gen-go")
		cmd.Env = goEnv()
		if out, err := cmd.CombinedOutput(); err != nil {
			buildErr = fmt.Errorf("build protoc-gen-go: %v\n%s", err, out)
		}
	})
	if buildErr != nil {
		t.Fatal(buildErr)
	}
	return filepath.Join(binDir, "protoc-gen-connect-go"), filepath.Join(binDir, "protoc-gen-go")
}

// runPlugin runs a plugin the way protoc does: request on stdin, response on
// stdout. It fails the test when the process fails, stdout is not a response,
// or the response carries an error.
func runPlugin(t *testing.T, bin string, req *pluginpb.CodeGeneratorRequest) map[string]string {
	t.Helper()
	in, err := proto.Marshal(req)
	if err != nil {
		t.Fatal(err)
	}
	cmd := exec.Command(bin)
	cmd.Stdin = bytes.NewReader(in)
	var stdout, stderr bytes.Buffer
	cmd.Stdout, cmd.Stderr = &stdout, &stderr
	if err := cmd.Run(); err != nil {
		t.Fatalf("%s failed on a valid request: %v\n%s", filepath.Base(bin), err, stderr.String())
	}
	var resp pluginpb.CodeGeneratorResponse
	if err := proto.Unmarshal(stdout.Bytes(), &resp); err != nil {
		t.Fatalf("%s: standard output is not a CodeGeneratorResponse: %v", filepath.Base(bin), err)
	}
	if resp.Error != nil {
		t.Fatalf("%s reports: %s", filepath.Base(bin), resp.GetError())
	}
	files := make(map[string]string)
	for _, f := range resp.File {
		if _, dup := files[f.GetName()]; dup {
			t.Fatalf("%s: file %s emitted twice", filepath.Base(bin), f.GetName())
		}
		files[f.GetName()] = f.GetContent()
	}
	return files
}

func request(toGenerate []string, files ...*descriptorpb.FileDescriptorProto) *pluginpb.CodeGeneratorRequest {
	return &pluginpb.CodeGeneratorRequest{
		FileToGenerate: toGenerate,
		ProtoFile:      files,
	}
}

// compile writes the generated files below a throw-away module whose path is
// modulePath and builds it against the library in the worktree.
func compile(t *testing.T, modulePath string, fileSets ...map[string]string) {
	t.Helper()
	dir := t.TempDir()
	for _, files := range fileSets {
		for name, content := range files {
			rel := strings.TrimPrefix(name, modulePath+"/")
			if rel == name {
				t.Fatalf("generated file %s is not below %s", name, modulePath)
			}
			full := filepath.Join(dir, filepath.FromSlash(rel))
			if err := os.MkdirAll(filepath.Dir(full), 0o755); err != nil {
				t.Fatal(err)
			}
			if err := os.WriteFile(full, []byte(content), 0o644); err != nil {
				t.Fatal(err)
			}
		}
	}
	gomod := "module " + modulePath + "\n\ngo 1.18\n\n" +
		"require (\n\tgithub.com/bufbuild/connect-go v0.0.0\n\tgoogle.golang.org/protobuf v1.28.0\n)\n\n" +
		"replace github.com/bufbuild/connect-go => " + worktree() + "\n"
	if err := os.WriteFile(filepath.Join(dir, "go.mod"), []byte(gomod), 0o644); err != nil {
		t.Fatal(err)
	}
	sum, err := os.ReadFile(filepath.Join(worktree(), "go.sum"))
	if err != nil {
		t.Fatal(err)
	}
	if err := os.WriteFile(filepath.Join(dir, "go.sum"), sum, 0o644); err != nil {
		t.Fatal(err)
	}
	cmd := exec.Command("go", "build", "./...")
	cmd.Dir = dir
	cmd.Env = goEnv()
	if out, err := cmd.CombinedOutput(); err != nil {
		t.Errorf("generated code does not compile against the library: %v\n%s", err, out)
	}
}
