#!/bin/bash
# tools/seeded_eval_ns.sh <ID> <change-dir> [tier] : confirm a seeded change in a scratch worktree (patch applies
# to /repo's HEAD, library builds, suite passes with it, demonstration passes without / fails with it), then run
# the property's check against a scratch copy with the patch (tools/ns_try.sh).  /repo is never touched.
set -u
ID=$1; DIR=$2; TIER=${3:-quick}
export GOFLAGS=-mod=mod GOPROXY=off GOSUMDB=off GOTOOLCHAIN=local
WT=$(mktemp -d /tmp/ev.XXXXXX)/wt
git -C /repo worktree add -q --detach $WT HEAD || exit 3
L=$(dirname $WT)
res() { echo "RESULT id=$ID change=$DIR $*"; }
cleanup() { git -C /repo worktree remove --force $WT >/dev/null 2>&1; rm -rf $L; }
if ! git -C $WT apply --check $DIR/patch.diff 2>/dev/null; then res "patch=does-not-apply"; cleanup; exit 0; fi
DEMO=$DIR/verif_demo_test.go; [ -f $DEMO ] || DEMO=$DIR/verif_demo_test.go.txt
demo() { (cd $WT && timeout 600 go test -vet=off -count=1 -timeout 300s -run TestVerifDemo . >$L/demo.log 2>&1); }
cp $DEMO $WT/verif_demo_test.go
if demo; then base=pass; else base=FAIL; cp $L/demo.log /tmp/ev-$ID-base.log; fi
git -C $WT apply $DIR/patch.diff
if (cd $WT && go build ./... >$L/build.log 2>&1); then build=ok; else build=FAIL; fi
rm -f $WT/verif_demo_test.go
if (cd $WT && timeout 1500 go test -vet=off -count=1 -timeout 25m ./... >$L/suite.log 2>&1); then suite=pass; else suite=FAIL; cp $L/suite.log /tmp/ev-$ID-suite.log; fi
cp $DEMO $WT/verif_demo_test.go
if demo; then mut=pass; else mut=fail; fi
cleanup
detected=no
if [ "$build" = ok ]; then
  out=$(timeout 3000 /verif/tools/ns_try.sh $DIR/patch.diff $ID $TIER 2>&1); code=$?
  if [ $code -eq 1 ] && echo "$out" | grep -q "^VIOLATION property=$ID"; then detected=yes; echo "$out" | grep -E "^  clause" | sed 's/^  clause=\([^ ]*\) outcome=\([^ ]*\).*/\1(\2)/' | sort | uniq -c | sort -rn | head -4; fi
  if [ $code -ne 0 ] && [ $code -ne 1 ]; then echo "$out" | tail -5; fi
fi
res "build=$build suite=$suite demo_unchanged=$base demo_changed=$mut detected=$detected exit=$code"
