package props

import (
	"bytes"
	"context"
	"errors"
	"fmt"
	"io"
	"net/http"
	"net/http/httptest"
	"sort"
	"strconv"
	"strings"
	"testing"

	connect "github.com/bufbuild/connect-go"
	"google.golang.org/protobuf/types/known/anypb"

	"verifharness/ev"
	"verifharness/memhttp"
	"verifharness/refwire"
)

// Shared by C03 (segmentation independence) and C04 (cut / fault enumeration):
// a corpus of valid bodies captured from real peers (the library itself and
// the reference encoder), replayed under scripted environment answers.

type wireBody struct {
	Name    string      `json:"name"`
	Proto   Proto       `json:"proto"`
	Kind    Kind        `json:"kind"`
	JSON    bool        `json:"json"`
	Request bool        `json:"request"` // request body (replayed into the handler) instead of a response
	Status  int         `json:"status"`
	Header  http.Header `json:"header"`
	Body    []byte      `json:"body"`
	Trailer http.Header `json:"trailer"`
	// KnownLength: the body is announced with its exact Content-Length (unary
	// Connect bodies from peers that do not stream them), otherwise the length
	// is unknown to the receiver (-1), as with the library's own peers.
	KnownLength bool `json:"known_length,omitempty"`
	// Want: the messages the sending application put into this body, as the
	// receiver must observe them (nil: not recorded; the C04 prefix clause then
	// compares with the uncut delivery).
	Want [][]byte `json:"want,omitempty"`
}

func (w wireBody) key() string {
	dir := "resp"
	if w.Request {
		dir = "req"
	}
	if w.KnownLength {
		dir += "+content-length"
	}
	return fmt.Sprintf("%s/%s/%s/%s(%dB)", w.Proto, w.Kind, dir, w.Name, len(w.Body))
}

// corpusScenario describes what the real peers exchange.
type corpusScenario struct {
	name      string
	kind      Kind
	comp      Comp
	reqSizes  []int
	respSizes []int
	errAfter  bool // handler returns an error (with details and metadata) after its messages
	meta      bool
}

// c03Payload: a negative size asks for the message with an unknown-field tail
// whose encoding has exactly -sz bytes (see TailMark).
func c03Payload(sz int, fill byte) []byte {
	if sz < 0 {
		return TailPayload(-sz)
	}
	return Payload(sz, fill)
}

func captureCorpus(thorough bool) []wireBody {
	var out []wireBody
	scenarios := []corpusScenario{
		{"one", KUnary, CompNone, []int{5}, []int{6}, false, false},
		{"unary-meta", KUnary, CompNone, []int{5}, []int{0}, false, true},
		{"unary-error", KUnary, CompNone, []int{3}, nil, true, true},
		{"a-z-b", KServer, CompNone, []int{3}, []int{3, 0, 4}, false, false},
		{"zero-messages", KServer, CompNone, []int{0}, []int{}, false, true},
		{"error-end", KServer, CompNone, []int{3}, []int{5}, true, true},
		// the largest message comes first: under a read limit below it, what follows is thrown away before the error in the trailers is read
		{"error-after-two", KServer, CompNone, []int{3}, []int{9, 3}, true, true},
		// many small messages, more than a kilobyte in all
		{"many-small", KServer, CompNone, []int{3}, []int{30, 31, 32, 33, 34, 35, 36, 37, 38, 39, 40, 41, 42, 43, 44, 45, 46, 47, 48, 49, 50, 51, 52, 53, 54, 55, 56, 57, 58, 59}, false, false},
		{"client-many-small", KClient, CompNone, []int{30, 31, 32, 33, 34, 35, 36, 37, 38, 39, 40, 41, 42, 43, 44, 45, 46, 47, 48, 49, 50, 51, 52, 53, 54, 55, 56, 57, 58, 59}, []int{3}, false, false},
		{"gzip", KServer, CompSendGzip, []int{40}, []int{40, 3}, false, false},
		{"unary-gzip", KUnary, CompSendGzip, []int{2000}, []int{2000}, false, false},
		{"client-a-z-b", KClient, CompNone, []int{3, 0, 4}, []int{3}, false, false},
		{"client-none", KClient, CompNone, []int{}, []int{3}, false, false},
		{"client-gzip", KClient, CompSendGzip, []int{40, 0}, []int{0}, false, false},
		// payloads that a byte-at-a-time transport delivers in more than a thousand reads
		{"kilobyte", KServer, CompNone, []int{3}, []int{1500, 3}, false, false},
		{"client-kilobyte", KClient, CompNone, []int{1500, 3}, []int{3}, false, false},
	}
	// two small messages, then one of a few KiB, then more (a reader that adapts to the stream's history)
	scenarios = append(scenarios,
		corpusScenario{"small-small-mid-more", KServer, CompNone, []int{3}, []int{10, 20, 2000, 30, 5}, false, true},
		corpusScenario{"client-small-small-mid-more", KClient, CompNone, []int{10, 20, 3000, 30, 5}, []int{3}, false, false},
	)
	// a message of exactly 1 MiB whose every even-length prefix is a valid message, second of its stream
	scenarios = append(scenarios,
		corpusScenario{"mebibyte", KServer, CompNone, []int{3}, []int{3, -1 << 20}, false, false},
		corpusScenario{"client-mebibyte", KClient, CompNone, []int{3, -1 << 20}, []int{3}, false, false},
	)
	// one message above the 8 MiB buffer-recycling cap, followed by another envelope
	scenarios = append(scenarios,
		corpusScenario{"huge", KServer, CompNone, []int{3}, []int{8*1024*1024 + 9, 3}, false, false},
		corpusScenario{"client-huge", KClient, CompNone, []int{8*1024*1024 + 9, 3}, []int{3}, false, false},
	)
	if thorough {
		scenarios = append(scenarios,
			corpusScenario{"large", KServer, CompNone, []int{3}, []int{70000, 3}, false, false},
			corpusScenario{"client-large", KClient, CompNone, []int{70000, 3}, []int{3}, false, false},
		)
	}
	for _, p := range AllProtos {
		for _, js := range []bool{false, true} {
			for _, sc := range scenarios {
				if js && (sc.name != "one" && sc.name != "a-z-b" && sc.name != "error-end") {
					continue
				}
				cfg := Cfg{Proto: p, JSON: js, Comp: sc.comp, Kind: sc.kind, HTTP: 2}
				h := NewHandler(sc.kind, func(ctx context.Context, s HStream) error {
					for {
						if _, err := s.Receive(); err != nil {
							if !errors.Is(err, io.EOF) {
								return err
							}
							break
						}
					}
					if sc.meta {
						s.ResponseHeader().Set("X-Head", "hv")
						s.ResponseTrailer().Set("X-Trail", "tv")
					}
					for i, sz := range sc.respSizes {
						if err := s.Send(MkMsg(c03Payload(sz, byte(0x41+i)))); err != nil {
							return err
						}
					}
					if sc.errAfter {
						e := connect.NewError(connect.CodeDataLoss, errors.New("lost: 100% ☃"))
						a, _ := anypb.New(&BV{Value: []byte("detail")})
						e.AddDetail(a)
						e.Meta().Set("X-Err", "ev")
						return e
					}
					return nil
				}, append(cfg.HandlerOptions(), connect.WithCompressMinBytes(8))...)
				tr := &memhttp.Transport{Handler: h, Proto: 2, SyncCloseReq: true}
				cl := NewClient(tr, cfg, connect.WithCompressMinBytes(8))
				reqs := make([][]byte, len(sc.reqSizes))
				for i, sz := range sc.reqSizes {
					reqs[i] = c03Payload(sz, byte(0x61+i))
				}
				_ = RunCall(context.Background(), cl, sc.kind, reqs, http.Header{"X-Req": {"qv"}})
				ex := tr.Last()
				if ex == nil {
					continue
				}
				var wantResp, wantReq [][]byte
				for i, sz := range sc.respSizes {
					wantResp = append(wantResp, MsgBytes(MkMsg(c03Payload(sz, byte(0x41+i)))))
				}
				for i, r := range reqs {
					if i > 0 && !sc.kind.ClientStreams() {
						break
					}
					wantReq = append(wantReq, MsgBytes(MkMsg(r)))
				}
				if js {
					wantResp, wantReq = nil, nil // JSON cannot carry everything MsgBytes observes: compare with the uncut delivery
				}
				if sc.kind != KClient {
					out = append(out, wireBody{Name: sc.name, Proto: p, Kind: sc.kind, JSON: js, Status: ex.Status, Header: ex.RespHeader.Clone(), Body: cloneBytes(ex.RespBody), Trailer: ex.RespTrail.Clone(), Want: wantResp})
				}
				if sc.kind == KClient || sc.name == "one" || sc.name == "gzip" || sc.name == "unary-gzip" {
					out = append(out, wireBody{Name: sc.name, Proto: p, Kind: sc.kind, JSON: js, Request: true, Header: ex.ReqHeader.Clone(), Body: cloneBytes(ex.ReqBody), Want: wantReq})
				}
			}
		}
		// peers written by the reference encoder
		for _, kind := range []Kind{KUnary, KServer} {
			spec := &refwire.RespSpec{P: wireProto(p), Unary: kind == KUnary, ContentType: contentType(p, kind, false),
				Msgs: [][]byte{codecMarshal(false, &BV{Value: []byte("ref")})}, TrailerCase: 0, HexLower: true, PadDetails: true,
				End: refwire.End{Code: 0, Meta: http.Header{"X-Trail": {"tv"}}}, Header: http.Header{"X-Head": {"hv"}}}
			st, hd, body, trl := spec.Build()
			out = append(out, wireBody{Name: "refwire-ok", Proto: p, Kind: kind, Status: st, Header: hd, Body: body, Trailer: trl})
			if p == PConnect && kind == KUnary {
				// the same as an uncompressed JSON document
				js := &refwire.RespSpec{P: wireProto(p), Unary: true, ContentType: contentType(p, kind, true),
					Msgs: [][]byte{codecMarshal(true, &BV{Value: []byte("ref-json")})}, End: refwire.End{Code: 0}, Header: http.Header{"X-Head": {"hv"}}}
				jst, jhd, jbody, jtrl := js.Build()
				out = append(out, wireBody{Name: "refwire-ok-json", Proto: p, Kind: kind, JSON: true, Status: jst, Header: jhd, Body: jbody, Trailer: jtrl})
			}
			if kind == KServer {
				spec.End = refwire.End{Code: 9, Message: "pre%cond ☃", Meta: http.Header{"X-Trail": {"tv"}}}
				st, hd, body, trl = spec.Build()
				out = append(out, wireBody{Name: "refwire-error", Proto: p, Kind: kind, Status: st, Header: hd, Body: body, Trailer: trl})
			}
		}
	}
	// a Connect stream whose end-of-stream message spells one metadata key in three ways
	{
		body := append(refwire.Envelope(0, codecMarshal(false, &BV{Value: []byte("ref")})),
			refwire.Envelope(2, []byte(`{"metadata":{"x-trail":["1"],"X-trail":["2"],"x-Trail":["3"]}}`))...)
		out = append(out, wireBody{Name: "es-key-spellings", Proto: PConnect, Kind: KServer, Status: 200,
			Header: http.Header{"Content-Type": {"application/connect+proto"}}, Body: body})
	}
	// gRPC responses also as a peer that announces its trailers sends them (net/http then lists the
	// announced names in Response.Trailer, with nil values, before and unless the trailers arrive)
	for _, w := range append([]wireBody(nil), out...) {
		if w.Proto == PGRPC && !w.Request && strings.HasPrefix(w.Name, "refwire") && len(w.Trailer) > 0 {
			w.Header = w.Header.Clone()
			var names []string
			for k := range w.Trailer {
				names = append(names, k)
			}
			sort.Strings(names)
			w.Header.Set("Trailer", strings.Join(names, ", "))
			w.Name += "-announced-trailers"
			out = append(out, w)
		}
	}
	// unary Connect bodies also as a peer with a known Content-Length sends them
	for _, w := range append([]wireBody(nil), out...) {
		if w.Proto == PConnect && w.Kind == KUnary && len(w.Body) > 0 {
			w.KnownLength = true
			out = append(out, w)
		}
	}
	// responses of the enveloped protocols too (a server or proxy that buffers a short response knows
	// its length; over gRPC the status then still arrives in HTTP trailers, after the announced bytes)
	nKnown := map[string]int{}
	for _, w := range append([]wireBody(nil), out...) {
		fam := fmt.Sprintf("%s/%s", w.Proto, w.Kind)
		if !w.Request && !w.KnownLength && !(w.Proto == PConnect && w.Kind == KUnary) && len(w.Body) > 0 && len(w.Body) <= 64 && nKnown[fam] < 2 {
			nKnown[fam]++
			w.KnownLength = true
			out = append(out, w)
		}
	}
	sort.SliceStable(out, func(i, j int) bool { return len(out[i].Body) < len(out[j].Body) })
	return out
}

// wireObs is what the receiving side observed for one scripted delivery.
type wireObs struct {
	Msgs    [][]byte
	End     string // "ok" | "eof" | "err:<code>:<message>"
	Meta    string
	Guard   GuardResult
	UserEnd string // handler side: how the handler's Receive loop ended
}

func (o wireObs) String() string {
	return fmt.Sprintf("msgs=%s end=%s meta=%s user=%s", shortMsgs(o.Msgs), o.End, o.Meta, o.UserEnd)
}

func errString(err error) string {
	if err == nil {
		return "ok"
	}
	var ce *connect.Error
	if errors.As(err, &ce) {
		return fmt.Sprintf("err:%v:%s", ce.Code(), ce.Message())
	}
	return "err:uncoded:" + err.Error()
}

func metaString(h ...http.Header) string {
	var parts []string
	for _, hh := range h {
		for _, k := range []string{"X-Head", "X-Trail", "X-Err"} {
			if v := hh.Values(k); len(v) > 0 {
				parts = append(parts, fmt.Sprintf("%s=%v", k, v))
			}
		}
	}
	sort.Strings(parts)
	return strings.Join(parts, ",")
}

// deliver replays a corpus body under a script and reports the observation.
func deliver(w wireBody, sc memhttp.Script, dropTrailers bool) wireObs {
	return deliverLimited(w, sc, dropTrailers, 0)
}

// deliverLimited is deliver with a read limit on the receiving side (0 = none).
func deliverLimited(w wireBody, sc memhttp.Script, dropTrailers bool, limit int) wireObs {
	var obs wireObs
	cfg := Cfg{Proto: w.Proto, JSON: w.JSON, Comp: CompDefault, Kind: w.Kind, HTTP: 2}
	if !w.Request {
		hdr := w.Header
		if w.KnownLength {
			hdr = w.Header.Clone()
			hdr.Set("Content-Length", strconv.Itoa(len(w.Body)))
		}
		tr := &memhttp.Transport{Handler: refwire.Handler(w.Status, hdr, w.Body, w.Trailer), Proto: 2, SyncCloseReq: true}
		tr.HoldTrailers = true // the scripted reader decides when the client sees the end of the body
		tr.WrapRespBody = func(rc io.ReadCloser) io.ReadCloser {
			r := memhttp.NewScriptReader(rc, nil, sc)
			if dropTrailers {
				r.OnCut = tr.DropTrailers
			}
			r.OnEnd = func(err error) {
				if err == io.EOF {
					tr.PublishTrailers()
				}
			}
			return r
		}
		var copts []connect.ClientOption
		if limit > 0 {
			copts = append(copts, connect.WithReadMaxBytes(limit))
		}
		cl := NewClient(tr, cfg, copts...)
		var res CallResult
		obs.Guard = Guarded(func() { res = RunCall(context.Background(), cl, w.Kind, [][]byte{{1}}, nil) }, tr)
		obs.Msgs = res.Msgs
		obs.End = errString(res.Err)
		var ce *connect.Error
		if errors.As(res.Err, &ce) {
			obs.Meta = metaString(ce.Meta())
		} else {
			obs.Meta = metaString(res.Header, res.Trailer)
		}
		return obs
	}
	h := NewHandler(w.Kind, func(ctx context.Context, s HStream) error {
		for {
			m, err := s.Receive()
			if err != nil {
				obs.UserEnd = "eof"
				if !errors.Is(err, io.EOF) {
					obs.UserEnd = errString(err)
					return err
				}
				break
			}
			obs.Msgs = append(obs.Msgs, MsgBytes(m))
		}
		return s.Send(&BV{Value: []byte{1}})
	}, limitOption(limit)...)
	req := httptest.NewRequest("POST", "http://mem.test"+Procedure, memhttp.NewScriptReader(nil, w.Body, sc))
	req.ProtoMajor, req.ProtoMinor, req.Proto = 2, 0, "HTTP/2.0"
	req.Header = w.Header.Clone()
	req.ContentLength = -1
	if w.KnownLength {
		req.ContentLength = int64(len(w.Body))
		req.Header.Set("Content-Length", strconv.Itoa(len(w.Body)))
	}
	rec := httptest.NewRecorder()
	obs.Guard = Guarded(func() { h.ServeHTTP(rec, req) })
	obs.End = respCode(w.Proto, w.Kind, rec)
	return obs
}

func limitOption(limit int) []connect.HandlerOption {
	if limit > 0 {
		return []connect.HandlerOption{connect.WithReadMaxBytes(limit)}
	}
	return nil
}

// bodyLimits returns the read limits worth trying with a body: one below the
// largest frame (the oversize / discard path) and exactly the largest frame.
func bodyLimits(w wireBody) []int {
	largest := 0
	if w.Proto == PConnect && w.Kind == KUnary {
		largest = len(w.Body)
	} else {
		off := 0
		for off+5 <= len(w.Body) {
			l := int(w.Body[off+1])<<24 | int(w.Body[off+2])<<16 | int(w.Body[off+3])<<8 | int(w.Body[off+4])
			if l > largest {
				largest = l
			}
			off += 5 + l
		}
	}
	if largest < 2 || largest > 4096 {
		return nil
	}
	return []int{largest - 1, largest}
}

// ---------------------------------------------------------------- C03

type c03Case struct {
	Body   wireBody       `json:"body"`
	Script memhttp.Script `json:"script"`
	Limit  int            `json:"limit,omitempty"` // read limit on the receiving side
	// SynthLen: the body is not stored; it is the serialized BV message of
	// exactly this many bytes (threshold family; bodies of many MiB)
	SynthLen int `json:"synth_len,omitempty"`
}

// synthUnary returns a serialized BV message (zero bytes as value) of exactly n bytes.
func synthUnary(n int) []byte {
	body := codecMarshal(false, &BV{Value: make([]byte, n-5)})
	if len(body) != n {
		body = codecMarshal(false, &BV{Value: make([]byte, n-5-(len(body)-n))})
	}
	return body
}

func (k c03Case) body() wireBody {
	w := k.Body
	if k.SynthLen > 0 && w.Kind == KUnary {
		w.Body = synthUnary(k.SynthLen)
	} else if k.SynthLen > 0 {
		// streams: the stored body is the head; one more envelope of SynthLen bytes in all follows
		w.Body = append(cloneBytes(w.Body), refwire.Envelope(0, synthUnary(k.SynthLen-5))...)
	}
	return w
}

func c03Check(c *ev.Collector, k c03Case, baseline wireObs) {
	obs := deliverLimited(k.body(), k.Script, false, k.Limit)
	tags := []string{"proto=" + k.Body.Proto.String(), "kind=" + k.Body.Kind.String(), map[bool]string{true: "dir=request", false: "dir=response"}[k.Body.Request]}
	if k.Limit > 0 {
		tags = append(tags, "read-limit")
	}
	if k.Script.WithLast {
		tags = append(tags, "eof-with-last-data")
	}
	c.AddTransitions(int64(len(k.Script.Chunks) + 2))
	c.AddStates(int64(len(k.Script.Chunks) + 1))
	c.AddTraces(1)
	desc := fmt.Sprintf("%s limit=%d chunks=%v stride=%d eofWithLast=%v", k.Body.key(), k.Limit, k.Script.Chunks, k.Script.Stride, k.Script.WithLast)
	switch {
	case obs.Guard.Panicked:
		c.Violation("TestC03", "no-panic", "panic", tags, k, "%s: panic %v\n%s", desc, obs.Guard.Panic, obs.Guard.Stack)
		c.Outcome("violation")
	case obs.Guard.Hung:
		c.Violation("TestC03", "terminates", "deadlock", tags, k, "%s: did not terminate\n%s", desc, trimStacks(obs.Guard.Stack))
		c.Outcome("violation")
		BailIfStuck(c, obs.Guard)
	case obs.String() != baseline.String():
		c.Violation("TestC03", "same-as-one-piece", "differs", tags, k, "%s:\n    observed  %s\n    one piece %s", desc, clip(obs.String(), 400), clip(baseline.String(), 400))
		c.Outcome("violation")
	default:
		c.Outcome("same")
	}
}

// c03Scripts enumerates the segmentations for a body of n bytes.
func c03Scripts(w wireBody, thorough bool, f func(memhttp.Script) bool) {
	n := len(w.Body)
	full := 12
	maxCuts := 2
	if thorough {
		full, maxCuts = 16, 3
	}
	emit := func(chunks []int, stride int) bool {
		for _, wl := range []bool{false, true} {
			if !f(memhttp.Script{Chunks: chunks, Stride: stride, Cut: -1, End: "eof", WithLast: wl}) {
				return false
			}
		}
		return true
	}
	if n == 0 {
		emit(nil, 0)
		return
	}
	if n <= full {
		for mask := 0; mask < 1<<(n-1); mask++ {
			var chunks []int
			last := 0
			for i := 1; i < n; i++ {
				if mask&(1<<(i-1)) != 0 {
					chunks = append(chunks, i-last)
					last = i
				}
			}
			chunks = append(chunks, n-last)
			if !emit(chunks, 0) {
				return
			}
		}
		return
	}
	// interesting cut positions: everywhere for moderate bodies, around every envelope prefix for large ones
	var positions []int
	if n <= 200 {
		for i := 1; i < n; i++ {
			positions = append(positions, i)
		}
	} else {
		seen := map[int]bool{}
		add := func(i int) {
			if i > 0 && i < n && !seen[i] {
				seen[i] = true
				positions = append(positions, i)
			}
		}
		off := 0
		unaryConnect := w.Proto == PConnect && w.Kind == KUnary
		for !unaryConnect && off+5 <= n {
			for d := -1; d <= 6; d++ {
				add(off + d)
			}
			l := int(w.Body[off+1])<<24 | int(w.Body[off+2])<<16 | int(w.Body[off+3])<<8 | int(w.Body[off+4])
			add(off + 5 + l/2)
			off += 5 + l
		}
		for _, i := range []int{1, 511, 512, 513, 4096, 32768, 65536, n - 1} {
			add(i)
		}
		sort.Ints(positions)
	}
	if n > 1<<20 {
		// bodies of several MiB: single cuts only (around every envelope boundary) and coarse strides
		maxCuts = 1
	}
	var rec func(start int, cuts []int) bool
	rec = func(start int, cuts []int) bool {
		if len(cuts) > 0 {
			var chunks []int
			last := 0
			for _, cpos := range cuts {
				chunks = append(chunks, cpos-last)
				last = cpos
			}
			chunks = append(chunks, n-last)
			if !emit(chunks, 0) {
				return false
			}
		}
		if len(cuts) == maxCuts {
			return true
		}
		for i := start; i < len(positions); i++ {
			if !rec(i+1, append(cuts, positions[i])) {
				return false
			}
		}
		return true
	}
	if !rec(0, nil) {
		return
	}
	strides := []int{1, 2, 3, 4, 5, 6, 7, 8}
	if n > 200 {
		strides = []int{1, 7, 100, 300, 511, 512, 513, 600, 1000, 1024, 4096, 16384, 65536}
	}
	if n > 1<<20 {
		strides = []int{4096, 65536, 1 << 20, 3 << 20}
	}
	for _, s := range strides {
		if !emit(nil, s) {
			return
		}
	}
	emit(nil, 0)
}

func TestC03(t *testing.T) {
	c := ev.New("C03")
	defer func() { _ = c.Finish() }()
	c.SetRule("environment-answer enumeration: a corpus of valid request and response bodies captured from real peers (the library itself and the reference encoder; one message, a-z-b, zero messages, error end with details, gzip, metadata, large) per protocol is replayed to the real client / handler under every segmentation into non-empty reads (all 2^(n-1) for bodies up to 12 (quick) / 16 (thorough) bytes; for longer ones every choice of <= 2 / 3 cut positions, all strides 1..8, for 70 KiB bodies every position around each 5-byte prefix and payload boundary) x {EOF on a separate read, EOF returned with the last data}; each body also under a read limit one below and exactly at its largest frame (every single cut, strides 1..3); refused unary Connect bodies of limit+1+T-1, T, T+1 bytes for every integer constant T in [64 KiB, 64 MiB] named in the source of the working tree, in one piece / 64 KiB / 1 MiB pieces; differential oracle: observation (messages, end of stream or error code and text, metadata) identical to the one-piece delivery; runs in a bubble so a stuck read loop is a deterministic deadlock; distinct = (body, script); non-trivial = more than one read")
	c.Assume("segmentation is applied at the io.Reader the library reads from (Response.Body / Request.Body)")
	thorough := ev.Thorough()
	if ev.ReplayFile() != "" {
		var k c03Case
		if _, err := ev.LoadReplay(&k); err != nil {
			t.Fatal(err)
		}
		Bubble(t, func() {
			base := deliverLimited(k.body(), memhttp.Script{Cut: -1, End: "eof"}, false, k.Limit)
			c03Check(c, k, base)
		})
		return
	}
	c03SourceThresholds(t, c)
	var corpus []wireBody
	Bubble(t, func() { corpus = captureCorpus(thorough) })
	c.Bound("corpus_bodies", len(corpus))
	idx := 0
	for _, w := range corpus {
		var base wireObs
		Bubble(t, func() { base = deliver(w, memhttp.Script{Cut: -1, End: "eof"}, false) })
		if base.Guard.Hung || base.Guard.Panicked {
			c.HarnessError("baseline delivery of %s hung or panicked", w.key())
			continue
		}
		stop := false
		// many scripts per bubble keep the per-case cost low
		var batch []memhttp.Script
		flush := func() {
			if len(batch) == 0 {
				return
			}
			b := batch
			batch = nil
			Bubble(t, func() {
				for _, sc := range b {
					k := c03Case{Body: w, Script: sc}
					c.Case(fmt.Sprintf("%s|%v|%d|%v", w.key(), sc.Chunks, sc.Stride, sc.WithLast), len(sc.Chunks) > 1 || sc.Stride > 0 || sc.WithLast)
					c03Check(c, k, base)
				}
			})
		}
		c03Scripts(w, thorough, func(sc memhttp.Script) bool {
			idx++
			if !ev.Mine(idx) {
				return true
			}
			if c.Expired() {
				stop = true
				return false
			}
			batch = append(batch, sc)
			if len(batch) >= 200 {
				flush()
			}
			if idx%100003 == 0 {
				c.Sample(map[string]any{"body": w.key(), "body_hex": fmt.Sprintf("%x", clipBytes(w.Body, 64)), "script": sc})
			}
			return true
		})
		flush()
		if stop {
			break
		}
		// the same body under a read limit (oversize / discard path and exact fit): every single cut and small strides
		for _, limit := range bodyLimits(w) {
			var lbase wireObs
			Bubble(t, func() { lbase = deliverLimited(w, memhttp.Script{Cut: -1, End: "eof"}, false, limit) })
			var scripts []memhttp.Script
			n := len(w.Body)
			for _, wl := range []bool{false, true} {
				for cut := 1; cut < n; cut++ {
					scripts = append(scripts, memhttp.Script{Chunks: []int{cut, n - cut}, Cut: -1, End: "eof", WithLast: wl})
				}
				for _, stride := range []int{1, 2, 3} {
					scripts = append(scripts, memhttp.Script{Stride: stride, Cut: -1, End: "eof", WithLast: wl})
				}
				scripts = append(scripts, memhttp.Script{Cut: -1, End: "eof", WithLast: wl})
			}
			var mine []memhttp.Script
			for _, sc := range scripts {
				idx++
				if ev.Mine(idx) {
					mine = append(mine, sc)
				}
			}
			if len(mine) == 0 {
				continue
			}
			Bubble(t, func() {
				for _, sc := range mine {
					k := c03Case{Body: w, Script: sc, Limit: limit}
					c.Case(fmt.Sprintf("%s|limit%d|%v|%d|%v", w.key(), limit, sc.Chunks, sc.Stride, sc.WithLast), true)
					c03Check(c, k, lbase)
				}
			})
		}
	}
	_ = bytes.Equal
}

func clipBytes(b []byte, n int) []byte {
	if len(b) > n {
		return b[:n]
	}
	return b
}
