// Package refwire is an independent reference codec for the Connect, gRPC and
// gRPC-Web wire formats, written from the protocol documents (see DESIGN.md
// appendix A), not from the library under test.
package refwire

import (
	"encoding/binary"
	"fmt"
)

// Env is one enveloped message.
type Env struct {
	Flags   byte
	Payload []byte
}

// Envelope encodes one frame.
func Envelope(flags byte, payload []byte) []byte {
	out := make([]byte, 5+len(payload))
	out[0] = flags
	binary.BigEndian.PutUint32(out[1:5], uint32(len(payload)))
	copy(out[5:], payload)
	return out
}

// SplitEnvelopes decodes a body that must consist of complete frames.
func SplitEnvelopes(body []byte) ([]Env, error) {
	var out []Env
	for len(body) > 0 {
		if len(body) < 5 {
			return out, fmt.Errorf("truncated envelope prefix: %d trailing bytes", len(body))
		}
		n := int(binary.BigEndian.Uint32(body[1:5]))
		if len(body)-5 < n {
			return out, fmt.Errorf("envelope declares %d bytes, %d present", n, len(body)-5)
		}
		out = append(out, Env{Flags: body[0], Payload: append([]byte{}, body[5:5+n]...)})
		body = body[5+n:]
	}
	return out, nil
}
