package props

import (
	"bytes"
	"compress/gzip"
	"context"
	"errors"
	"fmt"
	"io"
	"net/http"
	"net/http/httptest"
	"runtime"
	"strings"
	"sync"
	"testing"

	connect "github.com/bufbuild/connect-go"
	"google.golang.org/protobuf/proto"

	"verifharness/ev"
	"verifharness/memhttp"
	"verifharness/refwire"
)

// C09 — read limits are enforced exactly, before a message reaches user code.
//
// Engine: sequence/configuration enumeration on real clients and handlers
// plus hostile raw peers (lying length prefixes, highly compressible bodies)
// with an allocation probe.

type c09Case struct {
	Proto   Proto  `json:"proto"`
	Kind    Kind   `json:"kind"`
	Client  bool   `json:"client"` // limit on the client (responses) instead of the handler (requests)
	N       int    `json:"n"`
	Sizes   []int  `json:"sizes"`             // encoded sizes of the limited direction's messages
	Hostile string `json:"hostile,omitempty"` // "", gzip-bomb, gzip-small, lie-huge, lie-64m
	// Persist: the handler keeps calling Receive after a failed one (a batching
	// loop) and finally returns what the stream itself reports as its error.
	Persist bool `json:"persist,omitempty"`
}

func (k c09Case) key() string {
	side := "handler"
	if k.Client {
		side = "client"
	}
	if k.Persist {
		side += "/receives-again-after-failure"
	}
	return fmt.Sprintf("%s/%s/%s/N%d/%v/%s", k.Proto, k.Kind, side, k.N, k.Sizes, k.Hostile)
}

func c09Sizes(n int) []int {
	var out []int
	for _, s := range []int{0, n - 1, n, n + 1, 64 * n} {
		if s == 1 || s < 0 {
			continue
		}
		out = append(out, s)
	}
	return out
}

// terminatorNeeds: bytes of in-body terminator the protocol appends to a
// successful response (it is subject to the client's limit too).
func c09TerminatorTooBig(p Proto, kind Kind, n int) bool {
	switch {
	case p == PGRPCWeb:
		return n < 40
	case p == PConnect && kind != KUnary:
		return n < 2
	}
	return false
}

var (
	zerosOnce sync.Once
	zeros32M  []byte // gzip of 32 MiB of zeros
)

func gzipZeros(n int) []byte { return Gzip(make([]byte, n)) }

var (
	bombOnce      sync.Once
	bombDecodable []byte
)

// gzipValidMessage compresses a well-formed message whose encoding has a
// little more than n bytes (so that only the size decides its fate).
func gzipValidMessage(n int) []byte {
	b, _ := proto.Marshal(&BV{Value: make([]byte, n)})
	return Gzip(b)
}

func c09Check(c *ev.Collector, k c09Case) {
	tags := []string{"proto=" + k.Proto.String(), "kind=" + k.Kind.String(), map[bool]string{true: "side=client", false: "side=handler"}[k.Client]}
	if k.Client && c09TerminatorTooBig(k.Proto, k.Kind, k.N) {
		tags = append(tags, "terminator-exceeds-limit")
	}
	bad := false
	viol := func(clause, outcome, format string, args ...any) {
		bad = true
		c.Violation("TestC09", clause, outcome, tags, k, "%s: "+format, append([]any{k.key()}, args...)...)
	}
	var userSaw [][]byte // messages delivered to the limited side's application
	payloads := make([][]byte, len(k.Sizes))
	for i, s := range k.Sizes {
		payloads[i] = Payload(s, byte(0x21+i))
	}
	firstBad := -1
	for i, s := range k.Sizes {
		if s > k.N {
			firstBad = i
			break
		}
	}
	var hopts []connect.HandlerOption
	var copts []connect.ClientOption
	if k.Client {
		copts = append(copts, connect.WithReadMaxBytes(k.N))
		// sizing rule: the limit is about wire size, so keep responses in identity encoding
		hopts = append(hopts, connect.WithCompressMinBytes(1<<30))
	} else {
		hopts = append(hopts, connect.WithReadMaxBytes(k.N))
	}
	h := NewHandler(k.Kind, func(ctx context.Context, s HStream) error {
		if k.Persist {
			var first error
			for tries := 0; tries < len(k.Sizes)+3; tries++ {
				m, err := s.Receive()
				if err != nil {
					if errors.Is(err, io.EOF) {
						break
					}
					if first == nil {
						first = err
					}
					continue
				}
				userSaw = append(userSaw, cloneBytes(m.Value))
			}
			if fe, ok := s.(interface{ FinalErr() error }); ok {
				// client stream: `return nil, stream.Err()` at the end of the loop
				if err := fe.FinalErr(); err != nil {
					return err
				}
			} else if first != nil {
				return first
			}
			return s.Send(&BV{Value: []byte{1}})
		}
		for {
			m, err := s.Receive()
			if err != nil {
				if !errors.Is(err, io.EOF) {
					return err
				}
				break
			}
			if !k.Client {
				userSaw = append(userSaw, cloneBytes(m.Value))
			}
		}
		if k.Client {
			for _, p := range payloads {
				if err := s.Send(&BV{Value: p}); err != nil {
					return err
				}
			}
			return nil
		}
		return s.Send(&BV{Value: []byte{1}})
	}, hopts...)
	tr := &memhttp.Transport{Handler: h, Proto: 2, SyncCloseReq: true}
	cl := NewClient(tr, Cfg{Proto: k.Proto, Comp: CompNone}, copts...)
	reqs := [][]byte{{1}}
	if !k.Client {
		reqs = payloads
	}
	var res CallResult
	g := Guarded(func() { res = RunCall(context.Background(), cl, k.Kind, reqs, nil) }, tr)
	c.AddTransitions(int64(2 + len(k.Sizes)))
	c.AddStates(int64(2 + len(k.Sizes)))
	c.AddTraces(1)
	if g.Hung || g.Panicked {
		viol("terminates", "hang-or-panic", "hung=%v panic=%v\n%s", g.Hung, g.Panic, g.Stack)
		c.Outcome("violation")
		BailIfStuck(c, g)
		return
	}
	if k.Client {
		userSaw = res.Msgs
	}
	for i, m := range userSaw {
		if EncSize(m) > k.N {
			viol("oversize-never-delivered", "delivered", "message %d of %d encoded bytes reached the application under limit %d", i, EncSize(m), k.N)
		}
	}
	if firstBad >= 0 {
		var ce *connect.Error
		if res.Err == nil {
			viol("oversize-fails-call", "success", "a message of %d bytes exceeded the limit %d but the call succeeded", k.Sizes[firstBad], k.N)
		} else if !errors.As(res.Err, &ce) || ce.Code() != connect.CodeInvalidArgument {
			// the client of a handler-side limit sees the handler's error
			viol("oversize-fails-call", "code="+classifyErr(res.Err), "oversize message: call failed with %v, want invalid_argument", res.Err)
		}
		if len(userSaw) > firstBad && !k.Persist {
			viol("oversize-never-delivered", "too-many", "application saw %d messages, only the first %d were within the limit", len(userSaw), firstBad)
		}
	} else {
		if res.Err != nil {
			viol("within-limit-accepted", "rejected", "all messages are within the limit %d but the call failed: %v", k.N, res.Err)
		} else if !equalMsgs(userSaw, payloads) {
			viol("within-limit-accepted", "differs", "application saw %s, sent %s", shortMsgs(userSaw), shortMsgs(payloads))
		}
	}
	if bad {
		c.Outcome("violation")
	} else if firstBad >= 0 {
		c.Outcome("rejected")
	} else {
		c.Outcome("accepted")
	}
}

// c09HostileBody builds the limited direction's body for a hostile peer.
func c09HostileBody(k c09Case) (body []byte, encoding string, declaredBig bool) {
	switch k.Hostile {
	case "gzip-small": // wire <= N < decompressed
		return gzipValidMessage(4 * k.N), "gzip", false
	case "gzip-bomb": // decompresses to 32 MiB
		zerosOnce.Do(func() { zeros32M = gzipZeros(32 << 20) })
		return zeros32M, "gzip", true
	case "lie-huge":
		b := refwire.Envelope(0, []byte("0123456789"))
		copy(b[1:5], []byte{0xff, 0xff, 0xff, 0xff})
		return b, "", true
	case "lie-64m":
		b := refwire.Envelope(0, []byte("0123456789"))
		copy(b[1:5], []byte{0x04, 0x00, 0x00, 0x00})
		return b, "", true
	case "lie-64m-flag02", "lie-64m-flag80", "lie-64m-flag04", "lie-64m-flag03":
		// the same false length on an envelope whose flag byte carries protocol-specific bits
		b := refwire.Envelope(0, []byte("0123456789"))
		var fl int
		fmt.Sscanf(strings.TrimPrefix(k.Hostile, "lie-64m-flag"), "%x", &fl)
		b[0] = byte(fl)
		copy(b[1:5], []byte{0x04, 0x00, 0x00, 0x00})
		return b, "", true
	case "gzip-bomb-decodable": // inflates to 8 MiB of which every odd-length prefix (N is even) is itself a valid message
		bombOnce.Do(func() {
			m := &BV{Value: []byte("nine-byte")} // 11 bytes encoded
			u := make([]byte, 0, 8<<20)
			for len(u)+2 <= 8<<20-11 {
				u = append(u, 15<<3, 1)
			}
			m.ProtoReflect().SetUnknown(u)
			raw, _ := proto.Marshal(m)
			bombDecodable = Gzip(raw)
		})
		return bombDecodable, "gzip", true
	case "rle-small": // a dozen bytes on the wire that a custom algorithm without an expansion bound inflates to N+1
		m, _ := proto.Marshal(&BV{Value: bytes.Repeat([]byte{'x'}, k.N)})
		return RLEEncode(m), "rle", false
	case "shared-option": // wire <= N < decompressed, algorithm registered through an option value shared with other constructors
		return gzipValidMessage(4 * k.N), "gz2", false
	case "content-length-lie": // unary Connect: a small valid body announced as 128 MiB
		b, _ := proto.Marshal(&BV{Value: []byte("tiny")})
		return b, "", true
	}
	return nil, "", false
}

func c09HostileCheck(c *ev.Collector, k c09Case) {
	tags := []string{"proto=" + k.Proto.String(), "kind=" + k.Kind.String(), map[bool]string{true: "side=client", false: "side=handler"}[k.Client], "hostile=" + k.Hostile}
	bad := false
	viol := func(clause, outcome, format string, args ...any) {
		bad = true
		c.Violation("TestC09", clause, outcome, tags, k, "%s: "+format, append([]any{k.key()}, args...)...)
	}
	payload, enc, big := c09HostileBody(k)
	unaryConnect := k.Proto == PConnect && k.Kind == KUnary
	var body []byte
	switch {
	case k.Hostile == "content-length-lie":
		if !unaryConnect || k.N < 64 {
			c.Outcome("n/a")
			return
		}
		body = payload
	case k.Hostile == "lie-huge" || strings.HasPrefix(k.Hostile, "lie-64m"):
		if unaryConnect {
			c.Outcome("n/a")
			return
		}
		body = payload
	case unaryConnect:
		body = payload
	default:
		body = refwire.Envelope(1, payload)
	}
	if len(body) > k.N && (k.Hostile == "gzip-small" || k.Hostile == "shared-option" || k.Hostile == "rle-small") {
		c.Outcome("n/a") // wire size already above the limit: covered by the size cases
		return
	}
	encH, _ := encHeaders(k.Proto, k.Kind)
	ct := map[Proto]string{PConnect: "application/connect+proto", PGRPC: "application/grpc+proto", PGRPCWeb: "application/grpc-web+proto"}[k.Proto]
	if unaryConnect {
		ct = "application/proto"
	}
	// a compression option value that several constructors share (C09 "shared-option")
	var shared []connect.HandlerOption
	var sharedClient []connect.ClientOption
	if k.Hostile == "shared-option" {
		newD := func() connect.Decompressor { return &gzip.Reader{} }
		newC := func() connect.Compressor { return gzip.NewWriter(io.Discard) }
		shared = []connect.HandlerOption{connect.WithCompression("gz2", newD, newC)}
		sharedClient = []connect.ClientOption{connect.WithAcceptCompression("gz2", newD, newC)}
	}
	if k.Hostile == "rle-small" {
		newD, newC := RLEAlg()
		shared = []connect.HandlerOption{connect.WithCompression("rle", newD, newC)}
		sharedClient = []connect.ClientOption{connect.WithAcceptCompression("rle", newD, newC)}
	}
	delivered := 0
	var before, after runtime.MemStats
	var errSeen error
	var g GuardResult
	if !k.Client {
		h := NewHandler(k.Kind, func(ctx context.Context, s HStream) error {
			for {
				if _, err := s.Receive(); err != nil {
					if !errors.Is(err, io.EOF) {
						return err
					}
					break
				}
				delivered++
			}
			return s.Send(&BV{Value: []byte{1}})
		}, append(shared, connect.WithReadMaxBytes(k.N))...)
		if k.Hostile == "shared-option" {
			// the same option value is then applied by constructors without a limit
			_ = NewHandler(k.Kind, func(context.Context, HStream) error { return nil }, shared...)
		}
		req := httptest.NewRequest("POST", "http://mem.test"+Procedure, bytes.NewReader(body))
		req.ProtoMajor, req.ProtoMinor, req.Proto = 2, 0, "HTTP/2.0"
		req.Header.Set("Content-Type", ct)
		if enc != "" {
			req.Header.Set(encH, enc)
		}
		if k.Hostile == "content-length-lie" {
			req.ContentLength = 128 << 20
			req.Header.Set("Content-Length", "134217728")
		}
		rec := httptest.NewRecorder()
		runtime.ReadMemStats(&before)
		g = Guarded(func() { h.ServeHTTP(rec, req) })
		runtime.ReadMemStats(&after)
		if code := respCode(k.Proto, k.Kind, rec); code != "ok" {
			errSeen = errors.New(code)
			if code != "invalid_argument" {
				viol("oversize-fails-call", "code="+code, "hostile request answered with %s, want invalid_argument", code)
			}
		}
	} else {
		fake := http.HandlerFunc(func(w http.ResponseWriter, r *http.Request) {
			w.Header().Set("Content-Type", r.Header.Get("Content-Type"))
			if enc != "" {
				w.Header().Set(encH, enc)
			}
			if k.Hostile == "content-length-lie" {
				w.Header().Set("Content-Length", "134217728")
			}
			_, _ = w.Write(body)
			switch k.Proto {
			case PGRPC:
				w.Header().Set(http.TrailerPrefix+"Grpc-Status", "0")
			case PGRPCWeb:
				_, _ = w.Write(refwire.Envelope(0x80, []byte("grpc-status: 0\r\n")))
			case PConnect:
				if k.Kind != KUnary {
					_, _ = w.Write(refwire.Envelope(0x02, []byte("{}")))
				}
			}
		})
		tr := &memhttp.Transport{Handler: fake, Proto: 2, SyncCloseReq: true}
		cl := NewClient(tr, Cfg{Proto: k.Proto, Comp: CompDefault}, append(sharedClient, connect.WithReadMaxBytes(k.N))...)
		if k.Hostile == "shared-option" {
			_ = NewClient(tr, Cfg{Proto: k.Proto, Comp: CompDefault}, sharedClient...)
		}
		var res CallResult
		runtime.ReadMemStats(&before)
		g = Guarded(func() { res = RunCall(context.Background(), cl, k.Kind, [][]byte{{1}}, nil) }, tr)
		runtime.ReadMemStats(&after)
		delivered = len(res.Msgs)
		errSeen = res.Err
		var ce *connect.Error
		if res.Err != nil && (!errors.As(res.Err, &ce) || ce.Code() != connect.CodeInvalidArgument) {
			viol("oversize-fails-call", "code="+classifyErr(res.Err), "hostile response: call failed with %v, want invalid_argument", res.Err)
		}
	}
	c.AddTransitions(3)
	c.AddStates(3)
	c.AddTraces(1)
	if g.Hung || g.Panicked {
		viol("terminates", "hang-or-panic", "hung=%v panic=%v\n%s", g.Hung, g.Panic, g.Stack)
		c.Outcome("violation")
		BailIfStuck(c, g)
		return
	}
	if k.Hostile == "content-length-lie" {
		// the message itself is within the limit: only the buffering clause applies
		if errSeen != nil || delivered != 1 {
			viol("within-limit-accepted", "rejected", "a %d-byte message announced with a false Content-Length was not accepted under limit %d: %v", len(body), k.N, errSeen)
		}
	} else {
		if delivered != 0 {
			viol("oversize-never-delivered", "delivered", "a message exceeding the limit %d (hostile %s) reached the application", k.N, k.Hostile)
		}
		if errSeen == nil {
			viol("oversize-fails-call", "success", "hostile %s under limit %d: the call succeeded", k.Hostile, k.N)
		}
	}
	if big {
		delta := int64(after.TotalAlloc - before.TotalAlloc)
		limit := int64(8*k.N + 4<<20) // a fresh gzip writer alone is ~0.8 MiB
		c.AddExtra("alloc_probes", 1)
		if delta > limit {
			viol("bounded-buffering", "allocated", "peer declared / inflates to >= 32 MiB under limit %d: the receiver allocated %d bytes (allowance %d)", k.N, delta, limit)
		}
	}
	if bad {
		c.Outcome("violation")
	} else {
		c.Outcome("hostile-rejected")
	}
}

func c09Cases(thorough bool) (normal, hostile []c09Case) {
	ns := []int{2, 3, 5, 64, 512, 1024, 65536}
	for _, p := range AllProtos {
		for _, client := range []bool{false, true} {
			for _, n := range ns {
				sizes := c09Sizes(n)
				// single-message kinds
				kinds := []Kind{KUnary}
				streamKind := KClient
				if client {
					streamKind = KServer
				}
				for _, kind := range kinds {
					for _, s := range sizes {
						normal = append(normal, c09Case{Proto: p, Kind: kind, Client: client, N: n, Sizes: []int{s}})
					}
				}
				// positions 1..3 in a stream
				okSize := n
				if okSize == 1 {
					okSize = 0
				}
				for _, badSize := range []int{n + 1, 64 * n} {
					for pos := 0; pos < 3; pos++ {
						seq := []int{okSize, 0, okSize}
						seq[pos] = badSize
						normal = append(normal, c09Case{Proto: p, Kind: streamKind, Client: client, N: n, Sizes: seq})
						if !client {
							normal = append(normal, c09Case{Proto: p, Kind: KClient, N: n, Sizes: seq, Persist: true}, c09Case{Proto: p, Kind: KBidi, N: n, Sizes: seq, Persist: true})
						}
						if thorough {
							normal = append(normal, c09Case{Proto: p, Kind: KBidi, Client: client, N: n, Sizes: seq})
						}
					}
				}
				normal = append(normal, c09Case{Proto: p, Kind: streamKind, Client: client, N: n, Sizes: []int{okSize, 0, okSize}})
				normal = append(normal, c09Case{Proto: p, Kind: streamKind, Client: client, N: n, Sizes: []int{}})
				for _, hk := range []string{"rle-small", "gzip-small", "gzip-bomb", "gzip-bomb-decodable", "lie-huge", "lie-64m", "content-length-lie", "shared-option", "lie-64m-flag02", "lie-64m-flag80", "lie-64m-flag04", "lie-64m-flag03"} {
					for _, kind := range []Kind{KUnary, streamKind} {
						hostile = append(hostile, c09Case{Proto: p, Kind: kind, Client: client, N: n, Hostile: hk})
					}
				}
			}
		}
	}
	return
}

// c09KeepOpen: the peer sends an over-limit message at position pos of a bidi
// stream and then keeps its side open, waiting for the answer.  The receiver's
// Receive must fail with the documented error without waiting for the end of
// the peer's stream (a hang is decided by bubble quiescence).
func c09KeepOpen(t *testing.T, c *ev.Collector) {
	idx := 0
	for _, p := range AllProtos {
		for _, client := range []bool{false, true} {
			if client && p == PGRPC {
				continue // the gRPC client reads on to the HTTP trailers: known finding of C14 (oversize-response)
			}
			for _, n := range []int{64, 1024} {
				for pos := 1; pos <= 2; pos++ {
					for _, extra := range []int{1, 700} {
						idx++
						if !ev.Mine(idx) {
							continue
						}
						key := fmt.Sprintf("keep-open/%s/bidi/client=%v/N%d/pos%d/+%d", p, client, n, pos, extra)
						c.Case(key, true)
						Bubble(t, func() {
							big := Payload(n+extra, 'B')
							small := Payload(n/2, 's')
							var sideErr error
							delivered := 0
							release := make(chan struct{})
							h := NewHandler(KBidi, func(ctx context.Context, s HStream) error {
								if client {
									// the handler is the sender: messages, then wait for the client's reaction
									for i := 1; i <= pos; i++ {
										m := small
										if i == pos {
											m = big
										}
										if err := s.Send(&BV{Value: m}); err != nil {
											return err
										}
									}
									<-release
									return nil
								}
								for {
									_, err := s.Receive()
									if err != nil {
										sideErr = err
										return err
									}
									delivered++
								}
							}, func() []connect.HandlerOption {
								if client {
									return []connect.HandlerOption{connect.WithCompressMinBytes(1 << 30)}
								}
								return []connect.HandlerOption{connect.WithReadMaxBytes(n)}
							}()...)
							tr := &memhttp.Transport{Handler: h, Proto: 2}
							var copts []connect.ClientOption
							if client {
								copts = append(copts, connect.WithReadMaxBytes(n))
							}
							cl := NewClient(tr, Cfg{Proto: p, Comp: CompNone, Kind: KBidi, HTTP: 2}, copts...)
							var recvErr error
							g := Guarded(func() {
								stream := cl.CallBidiStream(context.Background())
								if client {
									_ = stream.Send(&BV{Value: []byte{1}})
									for {
										if _, err := stream.Receive(); err != nil {
											recvErr = err
											break
										}
										delivered++
									}
									close(release)
								} else {
									for i := 1; i <= pos; i++ {
										m := small
										if i == pos {
											m = big
										}
										if err := stream.Send(&BV{Value: m}); err != nil {
											break
										}
									}
									// keep the request side open and wait for the answer
									_, recvErr = stream.Receive()
								}
								_ = stream.CloseRequest()
								_ = stream.CloseResponse()
							}, tr)
							c.AddTransitions(int64(pos + 3))
							c.AddStates(int64(pos + 3))
							c.AddTraces(1)
							tags := []string{"proto=" + p.String(), "kind=bidi", map[bool]string{true: "side=client", false: "side=handler"}[client], "sender-keeps-stream-open"}
							viol := func(clause, outcome, format string, args ...any) {
								c.Violation("TestC09", clause, outcome, tags, key, "%s: "+format, append([]any{key}, args...)...)
							}
							switch {
							case g.Hung || g.Panicked:
								viol("oversize-fails-call", "hang-or-panic", "the receiver did not report the over-limit message while the sender kept its side open: hung=%v panic=%v\n%s", g.Hung, g.Panic, trimStacks(g.Stack))
								c.Outcome("violation")
								BailIfStuck(c, g)
							case delivered != pos-1:
								viol("oversize-never-delivered", "delivered", "%d messages reached the application, %d were within the limit", delivered, pos-1)
								c.Outcome("violation")
							case connect.CodeOf(recvErr) != connect.CodeInvalidArgument && !(client == false && connect.CodeOf(recvErr) == connect.CodeInvalidArgument):
								viol("oversize-fails-call", "code="+classifyErr(recvErr), "the call ended with %v (handler side saw %v), want invalid_argument", recvErr, sideErr)
								c.Outcome("violation")
							default:
								c.Outcome("rejected")
							}
						})
					}
				}
			}
		}
	}
}

// c09HugeLimits: limits at and above 2^32 accept everything a test can send.
func c09HugeLimits(t *testing.T, c *ev.Collector) {
	idx := 0
	for _, p := range AllProtos {
		for _, kind := range AllKinds {
			for _, client := range []bool{false, true} {
				for _, n := range []int{1 << 32, 1<<32 + 64, 2<<32 + 300, 1<<31 + 5} {
					idx++
					if !ev.Mine(idx) {
						continue
					}
					k := c09Case{Proto: p, Kind: kind, Client: client, N: n, Sizes: []int{63}}
					if (client && kind.ServerStreams()) || (!client && kind.ClientStreams()) {
						k.Sizes = []int{0, 65, 301}
					}
					c.Case(k.key(), true)
					Bubble(t, func() { c09Check(c, k) })
				}
			}
		}
	}
}

func TestC09(t *testing.T) {
	c := ev.New("C09")
	defer func() { _ = c.Finish() }()
	c.SetRule("enumeration on real clients and handlers: limit N in {2,3,5,64,512,1024,65536} x message sizes {0,N-1,N,N+1,64N} (identity encoding so wire size = encoded size) x position 1..3 in a stream x {connect,grpc,grpcweb} x limit on {handler, client}; hostile raw peers: gzip with wire <= N < decompressed, gzip inflating to 32 MiB, length prefix 0xFFFFFFFF / 64 MiB with 10 bytes present, a unary Connect body announced with Content-Length 128 MiB, with a runtime.MemStats.TotalAlloc probe (allowance 8N+4 MiB, a tenth of the 32 MiB an unbounded receiver would buffer); oracle: a message is delivered iff max(wire, decompressed) <= N, oversize fails the call with invalid_argument, within-limit sequences are accepted intact; distinct = full tuple; non-trivial = at least one message")
	c.Assume("identity encoding for exact-threshold cases (the sizing rule is wire size)", "allocation probe is a coarse bound with an 8x margin to the smallest illegal behaviour (buffering 32 MiB)")
	if ev.ReplayFile() != "" {
		var k c09Case
		if _, err := ev.LoadReplay(&k); err != nil {
			t.Fatal(err)
		}
		Bubble(t, func() {
			if k.Hostile != "" {
				c09HostileCheck(c, k)
			} else {
				c09Check(c, k)
			}
		})
		return
	}
	c09KeepOpen(t, c)
	c09HugeLimits(t, c)
	normal, hostile := c09Cases(ev.Thorough())
	for i, k := range normal {
		if !ev.Mine(i) {
			continue
		}
		if c.Expired() {
			return
		}
		c.Case(k.key(), len(k.Sizes) > 0)
		Bubble(t, func() { c09Check(c, k) })
		if i%499 == 0 {
			c.Sample(map[string]any{"case": k.key()})
		}
	}
	for i, k := range hostile {
		if !ev.Mine(i) {
			continue
		}
		if c.Expired() {
			return
		}
		c.Case(k.key(), true)
		Bubble(t, func() { c09HostileCheck(c, k) })
		if i%97 == 0 {
			c.Sample(map[string]any{"case": k.key()})
		}
	}
	_ = proto.Marshal
}
