#!/usr/bin/env python3
"""Regenerates /verif/MANIFEST.json from the table below (kept in one place so
that claimed checks and not_applicable stay consistent)."""
import json, sys

BASELINE_OFF = "cd /repo && go test -vet=off -count=1 -timeout 25m ./..."

CHECKS = {
 # id: (category, design_ref, technique, text, note)
 "C01": ("model_checking", "DESIGN.md 4/C01",
   "bounded exhaustive operation-sequence exploration of the real Client/Handler against a reference model (the sent slice)",
   "Every message sequence up to the stated length over an alphabet of boundary shapes (zero-value, small, 512 B pool seed +-1, compress-min-bytes +-1, 8 MiB recycle cap +-1) is run through real clients and handlers in every protocol x codec x compression x RPC kind x HTTP version x request-window configuration, with one shared Client/Handler per configuration so earlier calls leave state behind; the oracle is equality with the sent slice plus a clean end of stream. Exhaustive within the bounds, so it decides the property for all small histories rather than a sample.",
   "memhttp is a legal stand-in for net/http (cross-checked on real loopback h1/h2 in the thorough tier); payload codecs proto/protojson trusted; sequence length and payload sizes bounded"),
 "C14": ("model_checking", "DESIGN.md 4/C14",
   "stateless model checking of the real client/handler under a controlled scheduler (testing/synctest bubble + yield points), delay-bounded exhaustive schedule enumeration, against a two-process FIFO reference model",
   "Every admissible pair of a client program over {Send, CloseRequest, Receive, CloseResponse, cancel} and a handler program {receive i, send j, drain?, nil|error}, in each protocol and request-window mode, is executed on the real library under a scheduler that owns every interleaving decision; every schedule with at most d delays at the library's and the environment's yield points is enumerated (d=1 quick, d=2 thorough - the property's 'every single point, every pair'). Oracles: no deadlock (decided by quiescence, not wall-clock), no library goroutine left, response body closed, handler sees EOF after CloseRequest, Sends after the end fail with io.EOF, Receive sequence equals the reference model, errors are sticky.",
   "memhttp models the RoundTripper/Handler contract; schedules inside the real net/http stack are not explored; statement-granular sequentially consistent interleavings; delay bound and program length bounded"),
 "C15": ("model_checking", "DESIGN.md 4/C15",
   "stateless model checking under a controlled scheduler with cancellation / fake-clock expiry as scheduler choices, delay-bounded exhaustive enumeration of the cancellation instant",
   "The cancel() call (thread ~x) or the deadline expiry (fake clock of the synctest bubble, event ~clock) is placed at every yield point of every client program - before the call, between operations, and while a Send or Receive is blocked - against handlers that wait for ctx.Done and return ctx.Err. Every operation that fails after the event must carry canceled / deadline_exceeded (Send may return the io.EOF stream-closed error), Send/Receive started afterwards never succeed, the handler's context is cancelled, no goroutine is left. A sequential family checks that handlers returning bare or wrapped context errors convey the same code.",
   "memhttp's cancellation behaviour mirrors net/http's documented contract; transports whose abort error does not wrap the context error are out of scope; delay bound 1 (the event itself) in quick, 2 in thorough"),
 "C13": ("model_checking", "DESIGN.md 4/C13",
   "stateless model checking of concurrent calls on one shared Client/Handler under a controlled scheduler with deterministic poisoned buffer pools, delay-bounded exhaustive schedule enumeration, differential oracle against solo runs",
   "Two (one scenario: three) threads run complete calls with call-tagged payloads on a single shared Client and Handler whose sync.Pools are replaced by deterministic LIFO stacks that poison released buffers, so any sharing of scratch state, use-after-Put or cross-call mix-up becomes a deterministic observable difference; plus sender||receiver on one bidi stream. Every schedule within the delay bound over ~300 yield points per execution (every statement of the duplex call, every pool/compressor/codec/IO operation, every membrane event) is executed; each call must observe exactly what it observes alone, no poisoned byte may be visible, retained values must stay intact.",
   "sequentially consistent, statement-granular interleavings only: the clause 'no unsynchronised memory access' is decided only as far as such interleavings make a difference observable; a free-running -race pass is supplementary; delay bound 1 quick / 2 thorough"),
}

PENDING = {
}

def main():
    props = [json.loads(l) for l in open('/verif/properties.jsonl')]
    checks, na = [], []
    for p in props:
        pid = p['id']
        if pid in CHECKS:
            cat, ref, tech, text, note = CHECKS[pid]
            checks.append({
                "property_id": pid,
                "quick_cmd": f"./check {pid} quick",
                "thorough_cmd": f"./check {pid} thorough",
                "evidence_file": f"evidence/{pid}.json",
                "replay_cmd_template": "./check --replay {path}",
                "engine": "harness",
                "level_claimed": {"category": cat, "text": text, "design_ref": ref},
                "level_note": note,
                "technique": tech,
            })
        else:
            na.append({"property_id": pid, "reason": PENDING.get(pid, "check not built yet in this round; design in DESIGN.md section 4 (no claim is made until the explorer exists and passes on the unchanged tree)")})
    m = {
        "version": 1,
        "setup_cmd": "./setup.sh",
        "hooks": {
            "guard": "verif",
            "enable": "no hooks are committed to /repo: tools/instr generates an overlay from /repo's working tree at check time (sync -> deterministic poisoned pool / channel mutex shim, verifGate yield points, verif_hooks.go with //go:build verif) and checks build with `go test -c -tags verif -overlay out/overlay-<profile>/overlay.json`",
            "baseline_off_cmd": BASELINE_OFF,
            "source_commits": [],
            "add_only": True,
        },
        "engines": [
            {"name": "harness", "path": "harness/", "serves_properties": sorted(CHECKS),
             "kind_free_text": "Go (1.26.8) bounded exhaustive explorers over the real library: memhttp in-memory HTTP environment, ev evidence collector, bsched controlled scheduler on testing/synctest, refwire reference codec; cmd/vcheck drives shards and matches known findings"},
            {"name": "instr", "path": "tools/instr/", "serves_properties": sorted(CHECKS),
             "kind_free_text": "AST instrumenter producing the build overlay (sync shim, yield points)"},
        ],
        "checks": checks,
        "not_applicable": na,
        "notes": "All checks rebuild from /repo's working tree on every invocation. Exit 0 = held (or only listed known findings), 1 = VIOLATION, 2 = HARNESS-ERROR (bug of the machinery, never a verdict).",
    }
    json.dump(m, open('/verif/MANIFEST.json', 'w'), indent=1)
    print("checks:", [c['property_id'] for c in checks], "na:", len(na))

main()
