package props

import (
	"bytes"
	"fmt"
	"go/ast"
	"go/parser"
	"go/token"
	"os"
	"os/exec"
	"path/filepath"
	"regexp"
	"strconv"
	"strings"
	"testing"

	"google.golang.org/protobuf/proto"
	"google.golang.org/protobuf/types/descriptorpb"
	"google.golang.org/protobuf/types/pluginpb"

	"verifharness/ev"
)

// C17 — generated code is valid Go that routes every RPC at its canonical path.
//
// Engine: bounded enumeration of service descriptors (programs) through the
// plugin binary built from /repo's working tree; oracles: exit status,
// determinism, go/parser, the Go compiler (batch build against /repo) and a
// reference path / constructor model evaluated on the generated AST.

const goTool = "/opt/veriftools/go1.26.8/bin/go"

var goKeywords = []string{"break", "case", "chan", "const", "continue", "default", "defer", "else", "fallthrough", "for", "func", "go", "goto",
	"if", "import", "interface", "map", "package", "range", "return", "select", "struct", "switch", "type", "var"}

type c17Method struct {
	Name         string `json:"name"`
	ClientStream bool   `json:"client_stream"`
	ServerStream bool   `json:"server_stream"`
	Deprecated   bool   `json:"deprecated"`
	Comment      int    `json:"comment"`
}

type c17Service struct {
	Name       string      `json:"name"`
	Deprecated bool        `json:"deprecated"`
	Comment    int         `json:"comment"`
	Methods    []c17Method `json:"methods"`
}

type c17Case struct {
	ID        int          `json:"id"`
	Package   string       `json:"package"`
	GoPkgForm int          `json:"go_pkg_form"` // 0 path, 1 path;name, 2 via M parameter
	Services  []c17Service `json:"services"`
	FileDepr  bool         `json:"file_deprecated"`
	Imported  bool         `json:"imported"` // request/response types live in an imported file
	// Mixed (with Imported): only the request type lives in the imported file, the
	// response type in the file itself: the generated code refers to two message
	// packages (with GoTail: two packages whose import paths end alike).
	Mixed      bool `json:"mixed,omitempty"`
	NoServices bool `json:"no_services"`
	// GoTail: last element of the Go import path of the file (and of the
	// imported file's, when Imported); default "y".  Generated code refers to
	// packages named http, context, errors, strings and connect_go itself.
	GoTail string `json:"go_tail,omitempty"`
	// Sibling: the request also generates (first) a file of another proto
	// package that declares the same service and method names.
	Sibling bool `json:"sibling,omitempty"`
}

func (k c17Case) key() string {
	var parts []string
	for _, s := range k.Services {
		var ms []string
		for _, m := range s.Methods {
			ms = append(ms, fmt.Sprintf("%s:%v%v:d%v:c%d", m.Name, b2i(m.ClientStream), b2i(m.ServerStream), b2i(m.Deprecated), m.Comment))
		}
		parts = append(parts, fmt.Sprintf("%s(d%v,c%d)[%s]", s.Name, b2i(s.Deprecated), s.Comment, strings.Join(ms, ",")))
	}
	extra := ""
	if k.GoTail != "" {
		extra += "/tail=" + k.GoTail
	}
	if k.Sibling {
		extra += "/sibling"
	}
	if k.Mixed {
		extra += "/mixed"
	}
	return fmt.Sprintf("pkg=%q/gopkg%d/fdep%v/imp%v/%s%s", k.Package, k.GoPkgForm, b2i(k.FileDepr), b2i(k.Imported), strings.Join(parts, "+"), extra)
}

func b2i(b bool) int {
	if b {
		return 1
	}
	return 0
}

var c17Comments = []string{
	"",
	" Does one thing.\n",
	" First line of the comment.\n Second line, with more words.\n\n Third paragraph.\n",
	" Contains a star-slash */ and a slash-star /* inside.\n",
	" " + strings.Repeat("Loooooooong", 20) + " word and then some more ordinary words that need wrapping because the line is long.\n",
}

func (k c17Case) goImportPath() string {
	if k.GoTail != "" {
		return fmt.Sprintf("ex.com/c%d/%s", k.ID, k.GoTail)
	}
	return fmt.Sprintf("ex.com/c%d/y", k.ID)
}

func (k c17Case) fqService(s c17Service) string {
	if k.Package == "" {
		return s.Name
	}
	return k.Package + "." + s.Name
}

// build returns the CodeGeneratorRequest for the case.
func (k c17Case) build() *pluginpb.CodeGeneratorRequest {
	fileName := fmt.Sprintf("t/c%d.proto", k.ID)
	depName := fmt.Sprintf("t/dep%d.proto", k.ID)
	msg := func(name string) *descriptorpb.DescriptorProto {
		return &descriptorpb.DescriptorProto{Name: proto.String(name), Field: []*descriptorpb.FieldDescriptorProto{{
			Name: proto.String("v"), Number: proto.Int32(1), Type: descriptorpb.FieldDescriptorProto_TYPE_INT64.Enum(), Label: descriptorpb.FieldDescriptorProto_LABEL_OPTIONAL.Enum(), JsonName: proto.String("v"),
		}}}
	}
	fd := &descriptorpb.FileDescriptorProto{Name: proto.String(fileName), Syntax: proto.String("proto3"), Options: &descriptorpb.FileOptions{}}
	if k.Package != "" {
		fd.Package = proto.String(k.Package)
	}
	switch k.GoPkgForm {
	case 0:
		fd.Options.GoPackage = proto.String(k.goImportPath())
	case 1:
		fd.Options.GoPackage = proto.String(k.goImportPath() + ";yv1")
	}
	if k.FileDepr {
		fd.Options.Deprecated = proto.Bool(true)
	}
	req := &pluginpb.CodeGeneratorRequest{FileToGenerate: []string{fileName}}
	typePrefix := "."
	if k.Package != "" {
		typePrefix = "." + k.Package + "."
	}
	if k.Imported {
		dep := &descriptorpb.FileDescriptorProto{Name: proto.String(depName), Syntax: proto.String("proto3"), Package: proto.String("dep.v1"),
			Options:     &descriptorpb.FileOptions{GoPackage: proto.String(k.depGoPackage())},
			MessageType: []*descriptorpb.DescriptorProto{msg("Req"), msg("Res")}}
		req.ProtoFile = append(req.ProtoFile, dep)
		req.FileToGenerate = append([]string{depName}, req.FileToGenerate...)
		fd.Dependency = []string{depName}
		typePrefix = ".dep.v1."
		if k.Mixed {
			fd.MessageType = []*descriptorpb.DescriptorProto{msg("Res")}
		}
	} else {
		fd.MessageType = []*descriptorpb.DescriptorProto{msg("Req"), msg("Res")}
	}
	sci := &descriptorpb.SourceCodeInfo{}
	if !k.NoServices {
		for si, s := range k.Services {
			sd := &descriptorpb.ServiceDescriptorProto{Name: proto.String(s.Name)}
			if s.Deprecated {
				sd.Options = &descriptorpb.ServiceOptions{Deprecated: proto.Bool(true)}
			}
			if s.Comment > 0 {
				sci.Location = append(sci.Location, &descriptorpb.SourceCodeInfo_Location{Path: []int32{6, int32(si)}, Span: []int32{int32(10 + si*20), 0, 1}, LeadingComments: proto.String(c17Comments[s.Comment])})
			}
			for mi, m := range s.Methods {
				md := &descriptorpb.MethodDescriptorProto{Name: proto.String(m.Name), InputType: proto.String(typePrefix + "Req"), OutputType: proto.String(typePrefix + "Res")}
				if k.Imported && k.Mixed {
					own := "."
					if k.Package != "" {
						own = "." + k.Package + "."
					}
					md.OutputType = proto.String(own + "Res")
				}
				if m.ClientStream {
					md.ClientStreaming = proto.Bool(true)
				}
				if m.ServerStream {
					md.ServerStreaming = proto.Bool(true)
				}
				if m.Deprecated {
					md.Options = &descriptorpb.MethodOptions{Deprecated: proto.Bool(true)}
				}
				if m.Comment > 0 {
					sci.Location = append(sci.Location, &descriptorpb.SourceCodeInfo_Location{Path: []int32{6, int32(si), 2, int32(mi)}, Span: []int32{int32(11 + si*20 + mi), 2, 3}, LeadingComments: proto.String(c17Comments[m.Comment])})
				}
				sd.Method = append(sd.Method, md)
			}
			fd.Service = append(fd.Service, sd)
		}
	}
	fd.SourceCodeInfo = sci
	if k.Sibling && !k.NoServices {
		// same service and method names in another proto package, generated first
		sib := &descriptorpb.FileDescriptorProto{Name: proto.String(fmt.Sprintf("t/sib%d.proto", k.ID)), Syntax: proto.String("proto3"), Package: proto.String("sib.v2"),
			Options:     &descriptorpb.FileOptions{GoPackage: proto.String(fmt.Sprintf("ex.com/c%d/sib;sibv2", k.ID))},
			MessageType: []*descriptorpb.DescriptorProto{msg("Req"), msg("Res")}}
		for _, sd := range fd.Service {
			cp := proto.Clone(sd).(*descriptorpb.ServiceDescriptorProto)
			for _, md := range cp.Method {
				md.InputType, md.OutputType = proto.String(".sib.v2.Req"), proto.String(".sib.v2.Res")
			}
			sib.Service = append(sib.Service, cp)
		}
		req.ProtoFile = append(req.ProtoFile, sib)
		req.FileToGenerate = append([]string{sib.GetName()}, req.FileToGenerate...)
	}
	req.ProtoFile = append(req.ProtoFile, fd)
	if k.GoPkgForm == 2 {
		req.Parameter = proto.String(fmt.Sprintf("M%s=%s", fileName, k.goImportPath()))
	}
	return req
}

func (k c17Case) depGoPackage() string {
	if k.GoTail != "" {
		return fmt.Sprintf("ex.com/c%d/dep/%s", k.ID, k.GoTail) // package name = last element
	}
	return fmt.Sprintf("ex.com/c%d/dep;depv1", k.ID)
}

type pluginEnv struct {
	dir       string
	connectGo string
	protocGo  string
}

func newPluginEnv() (*pluginEnv, error) {
	dir, err := os.MkdirTemp("", "verif-c17-")
	if err != nil {
		return nil, err
	}
	e := &pluginEnv{dir: dir, connectGo: filepath.Join(dir, "bin", "protoc-gen-connect-go"), protocGo: filepath.Join(dir, "bin", "protoc-gen-go")}
	_ = os.MkdirAll(filepath.Join(dir, "bin"), 0o755)
	cmd := exec.Command(goTool, "build", "-o", e.connectGo, "./cmd/protoc-gen-connect-go")
	cmd.Dir = "/repo"
	if out, err := cmd.CombinedOutput(); err != nil {
		return e, fmt.Errorf("build protoc-gen-connect-go: %v\n%s", err, out)
	}
	cmd = exec.Command(goTool, "build", "-o", e.protocGo, "google.golang.org/protobuf/cmd/protoc-gen-go")
	cmd.Dir = "/verif/harness"
	if out, err := cmd.CombinedOutput(); err != nil {
		return e, fmt.Errorf("build protoc-gen-go: %v\n%s", err, out)
	}
	return e, nil
}

func (e *pluginEnv) close() { _ = os.RemoveAll(e.dir) }

func runPlugin(bin string, req *pluginpb.CodeGeneratorRequest) (*pluginpb.CodeGeneratorResponse, string, error) {
	in, err := proto.Marshal(req)
	if err != nil {
		return nil, "", err
	}
	cmd := exec.Command(bin)
	cmd.Stdin = bytes.NewReader(in)
	var stdout, stderr bytes.Buffer
	cmd.Stdout, cmd.Stderr = &stdout, &stderr
	if err := cmd.Run(); err != nil {
		return nil, stderr.String(), fmt.Errorf("plugin exited: %v", err)
	}
	var resp pluginpb.CodeGeneratorResponse
	if err := proto.Unmarshal(stdout.Bytes(), &resp); err != nil {
		return nil, stderr.String(), fmt.Errorf("plugin output is not a CodeGeneratorResponse: %v", err)
	}
	return &resp, stderr.String(), nil
}

// genRoute is what the generated code says about one method.
type genRoute struct {
	Pattern, Ctor, Procedure, Method string
}

type genService struct {
	Routes      []genRoute
	Prefix      string
	ClientPaths map[string]string // struct field -> path literal
	ClientCalls map[string]string // Go method name -> Call* used
}

func strLit(e ast.Expr) (string, bool) {
	if bl, ok := e.(*ast.BasicLit); ok && bl.Kind == token.STRING {
		s, err := strconv.Unquote(bl.Value)
		return s, err == nil
	}
	return "", false
}

func selName(e ast.Expr) string {
	switch x := e.(type) {
	case *ast.SelectorExpr:
		return x.Sel.Name
	case *ast.IndexExpr:
		return selName(x.X)
	case *ast.IndexListExpr:
		return selName(x.X)
	case *ast.Ident:
		return x.Name
	}
	return ""
}

// analyse extracts the routing facts from generated source.
func analyse(src string) (map[string]*genService, error) {
	fset := token.NewFileSet()
	f, err := parser.ParseFile(fset, "gen.connect.go", src, parser.SkipObjectResolution)
	if err != nil {
		return nil, err
	}
	out := map[string]*genService{}
	get := func(name string) *genService {
		if out[name] == nil {
			out[name] = &genService{ClientPaths: map[string]string{}, ClientCalls: map[string]string{}}
		}
		return out[name]
	}
	for _, d := range f.Decls {
		fd, ok := d.(*ast.FuncDecl)
		if !ok || fd.Body == nil {
			continue
		}
		name := fd.Name.Name
		switch {
		case fd.Recv == nil && strings.HasPrefix(name, "New") && strings.HasSuffix(name, "Handler"):
			svc := get(strings.TrimSuffix(strings.TrimPrefix(name, "New"), "Handler"))
			ast.Inspect(fd.Body, func(n ast.Node) bool {
				switch x := n.(type) {
				case *ast.CallExpr:
					if selName(x.Fun) == "Handle" && len(x.Args) == 2 {
						var r genRoute
						r.Pattern, _ = strLit(x.Args[0])
						if inner, ok := x.Args[1].(*ast.CallExpr); ok && len(inner.Args) >= 2 {
							r.Ctor = selName(inner.Fun)
							r.Procedure, _ = strLit(inner.Args[0])
							r.Method = selName(inner.Args[1])
						}
						svc.Routes = append(svc.Routes, r)
					}
				case *ast.ReturnStmt:
					if len(x.Results) == 2 {
						if s, ok := strLit(x.Results[0]); ok {
							svc.Prefix = s
						}
					}
				}
				return true
			})
		case fd.Recv == nil && strings.HasPrefix(name, "New") && strings.HasSuffix(name, "Client"):
			svc := get(strings.TrimSuffix(strings.TrimPrefix(name, "New"), "Client"))
			ast.Inspect(fd.Body, func(n ast.Node) bool {
				kv, ok := n.(*ast.KeyValueExpr)
				if !ok {
					return true
				}
				call, ok := kv.Value.(*ast.CallExpr)
				if !ok || selName(call.Fun) != "NewClient" || len(call.Args) < 2 {
					return true
				}
				if be, ok := call.Args[1].(*ast.BinaryExpr); ok {
					if s, ok := strLit(be.Y); ok {
						svc.ClientPaths[selName(kv.Key)] = s
					}
				}
				return true
			})
		case fd.Recv != nil && len(fd.Recv.List) == 1:
			recv := ""
			if st, ok := fd.Recv.List[0].Type.(*ast.StarExpr); ok {
				recv = selName(st.X)
			}
			if !strings.HasSuffix(recv, "Client") {
				continue
			}
			ast.Inspect(fd.Body, func(n ast.Node) bool {
				if call, ok := n.(*ast.CallExpr); ok {
					if c := selName(call.Fun); strings.HasPrefix(c, "Call") {
						if sel, ok := call.Fun.(*ast.SelectorExpr); ok {
							key := recv + "." + name
							out0 := get(recv)
							out0.ClientCalls[key] = c + "@" + selName(sel.X)
						}
					}
				}
				return true
			})
		}
	}
	return out, nil
}

func kindCtor(m c17Method) (handlerCtor, clientCall string) {
	switch {
	case m.ClientStream && m.ServerStream:
		return "NewBidiStreamHandler", "CallBidiStream"
	case m.ClientStream:
		return "NewClientStreamHandler", "CallClientStream"
	case m.ServerStream:
		return "NewServerStreamHandler", "CallServerStream"
	}
	return "NewUnaryHandler", "CallUnary"
}

type c17Gen struct {
	k     c17Case
	files map[string]string
}

// c17Tags are the deviation tags of a case (known-finding signatures).
func c17Tags(k c17Case) []string {
	tags := []string{"plugin"}
	if k.Package == "" {
		tags = append(tags, "no-package")
	}
	for _, s := range k.Services {
		for _, m := range s.Methods {
			for _, kw := range goKeywords {
				if strings.EqualFold(m.Name, kw) {
					tags = append(tags, "keyword-method")
				}
			}
		}
	}
	// names derived from one service that equal names derived from another (or from the import path)
	for _, a := range k.Services {
		for _, b := range k.Services {
			if a.Name != b.Name && (b.Name == "New"+a.Name || b.Name == "Unimplemented"+a.Name) {
				tags = append(tags, "derived-names-collide")
			}
		}
		if k.GoTail != "" && strings.EqualFold(k.GoTail, a.Name+"Client") {
			tags = append(tags, "derived-names-collide")
		}
	}
	for _, a := range k.Services {
		if lc := strings.ToLower(a.Name); lc == "http" {
			tags = append(tags, "client-type-named-like-parameter")
		}
	}
	return tags
}

func c17Check(c *ev.Collector, env *pluginEnv, k c17Case) *c17Gen {
	tags := c17Tags(k)
	bad := false
	viol := func(clause, outcome, format string, args ...any) {
		bad = true
		c.Violation("TestC17", clause, outcome, tags, k, "%s: "+format, append([]any{k.key()}, args...)...)
	}
	req := k.build()
	c.AddTransitions(3)
	c.AddStates(2)
	c.AddTraces(1)
	resp, stderr, err := runPlugin(env.connectGo, req)
	if err != nil {
		viol("plugin-succeeds", "exit", "%v\n%s", err, clip(stderr, 400))
		c.Outcome("violation")
		return nil
	}
	if resp.Error != nil {
		viol("plugin-succeeds", "error", "plugin reported: %s", clip(resp.GetError(), 400))
		c.Outcome("violation")
		return nil
	}
	// determinism: the same request again - many times when the messages come from several Go
	// packages (the order in which a generator meets them may depend on map iteration)
	runs := 1
	if k.Imported {
		runs = 48
	}
	for i := 0; i < runs; i++ {
		resp2, _, err2 := runPlugin(env.connectGo, req)
		if err2 != nil || !proto.Equal(resp, resp2) {
			viol("deterministic", "differs", "run %d of the plugin on the same request differs from the first", i+2)
			break
		}
	}
	var connectFiles []*pluginpb.CodeGeneratorResponse_File
	for _, f := range resp.File {
		if strings.HasSuffix(f.GetName(), ".connect.go") && !strings.HasSuffix(f.GetName(), fmt.Sprintf("sib%d.connect.go", k.ID)) {
			connectFiles = append(connectFiles, f)
		}
	}
	if k.Sibling {
		// what is generated for a file must not depend on the other files of the request
		alone := k
		alone.Sibling = false
		if respAlone, _, errAlone := runPlugin(env.connectGo, alone.build()); errAlone == nil && respAlone.Error == nil {
			for _, fa := range respAlone.File {
				for _, f := range connectFiles {
					if fa.GetName() == f.GetName() && fa.GetContent() != f.GetContent() {
						viol("deterministic", "depends-on-request", "%s differs when another file with the same service names is generated in the same request", f.GetName())
					}
				}
			}
		}
	}
	if k.NoServices || len(k.Services) == 0 {
		if len(connectFiles) != 0 {
			viol("no-services-no-file", "file-emitted", "a file without services produced %s", connectFiles[0].GetName())
		}
		c.Outcome("no-file")
		return nil
	}
	if len(connectFiles) != 1 {
		viol("one-file", fmt.Sprintf("files=%d", len(connectFiles)), "expected exactly one .connect.go file, got %d", len(connectFiles))
		c.Outcome("violation")
		return nil
	}
	// where the file goes: under the Go import path of the file's package (default paths=import), next
	// to where protoc-gen-go puts the .pb.go - a package at any other place is not the one the
	// generated import path names
	if name := connectFiles[0].GetName(); !strings.HasPrefix(name, k.goImportPath()+"/") || !strings.HasSuffix(name, fmt.Sprintf("connect/c%d.connect.go", k.ID)) {
		viol("file-location", "elsewhere", "the generated file is named %q; the Go import path of the file's package is %q", name, k.goImportPath())
	}
	src := connectFiles[0].GetContent()
	facts, perr := analyse(src)
	if perr != nil {
		viol("valid-go-syntax", "unparsable", "go/parser rejects the generated file: %v", perr)
		c.Outcome("violation")
		return nil
	}
	goNames := map[string]bool{}
	for _, s := range k.Services {
		want := k.fqService(s)
		// protoc-gen-go style name: snake_case -> CamelCase
		goSvc := goCamel(s.Name)
		svc := facts[goSvc]
		if svc == nil {
			viol("routes-every-rpc", "service-missing", "no New%sHandler / New%sClient in the generated code (have %v)", goSvc, goSvc, keysOf(facts))
			continue
		}
		goNames[goSvc] = true
		if svc.Prefix != "/"+want+"/" {
			viol("mount-prefix", "differs", "New%sHandler returns prefix %q, want %q", goSvc, svc.Prefix, "/"+want+"/")
		}
		if len(svc.Routes) != len(s.Methods) {
			viol("routes-every-rpc", "count", "service %s: %d mux.Handle calls for %d methods", s.Name, len(svc.Routes), len(s.Methods))
			continue
		}
		if len(svc.ClientPaths) != len(s.Methods) {
			viol("routes-every-rpc", "client-count", "service %s: %d client constructors for %d methods", s.Name, len(svc.ClientPaths), len(s.Methods))
		}
		for i, m := range s.Methods {
			proc := "/" + want + "/" + m.Name
			r := svc.Routes[i]
			ctor, call := kindCtor(m)
			if r.Pattern != proc || r.Procedure != proc {
				viol("canonical-path", "handler", "method %s: mux pattern %q, Spec procedure %q, want %q", m.Name, r.Pattern, r.Procedure, proc)
			}
			if r.Ctor != ctor {
				viol("constructor-kind", "handler", "method %s: handler constructor %s, want %s", m.Name, r.Ctor, ctor)
			}
			goMeth := goCamel(m.Name)
			if r.Method != goMeth {
				viol("routes-every-rpc", "wrong-method", "method %s: handler bound to svc.%s, want svc.%s", m.Name, r.Method, goMeth)
			}
			// client: find the Call* in the client method and the path of the field it uses
			clientRecv := lowerFirstSafe(goSvc) + "Client"
			callInfo := ""
			for key, v := range facts[clientRecv].callsOrEmpty() {
				if key == clientRecv+"."+goMeth {
					callInfo = v
				}
			}
			if callInfo == "" {
				// receiver name may be keyword-escaped: search by suffix
				for recvName, fs := range facts {
					for key, v := range fs.ClientCalls {
						if strings.HasSuffix(key, "."+goMeth) && strings.HasSuffix(recvName, "Client") && strings.EqualFold(strings.TrimLeft(recvName, "_"), goSvc+"Client") {
							callInfo = v
						}
					}
				}
			}
			parts := strings.SplitN(callInfo, "@", 2)
			if len(parts) != 2 {
				viol("routes-every-rpc", "client-method-missing", "method %s: no client method calling Call*", m.Name)
				continue
			}
			if parts[0] != call {
				viol("constructor-kind", "client", "method %s: client uses %s, want %s", m.Name, parts[0], call)
			}
			if p := svc.ClientPaths[parts[1]]; p != proc {
				viol("canonical-path", "client", "method %s: client URL suffix %q (field %s), want %q", m.Name, p, parts[1], proc)
			}
		}
	}
	if bad {
		c.Outcome("violation")
		return nil
	}
	c.Outcome("ok")
	// hand the sources to the batch compile
	gen := &c17Gen{k: k, files: map[string]string{}}
	for _, f := range resp.File {
		gen.files[f.GetName()] = f.GetContent()
	}
	if pb, _, err := runPlugin(env.protocGo, req); err == nil && pb.Error == nil {
		for _, f := range pb.File {
			gen.files[f.GetName()] = f.GetContent()
		}
	} else {
		c.HarnessError("protoc-gen-go failed for %s: %v %s", k.key(), err, pb.GetError())
		return nil
	}
	return gen
}

func (s *genService) callsOrEmpty() map[string]string {
	if s == nil {
		return nil
	}
	return s.ClientCalls
}

func keysOf(m map[string]*genService) []string {
	var out []string
	for k := range m {
		out = append(out, k)
	}
	return out
}

// goCamel mirrors protoc-gen-go's GoCamelCase for the names used here.
func goCamel(s string) string {
	var out []byte
	for i := 0; i < len(s); i++ {
		c := s[i]
		switch {
		case c == '_' && i+1 < len(s) && s[i+1] >= 'a' && s[i+1] <= 'z':
			i++
			out = append(out, s[i]-32)
		case i == 0 && c >= 'a' && c <= 'z':
			out = append(out, c-32)
		default:
			out = append(out, c)
		}
	}
	return string(out)
}

func lowerFirstSafe(s string) string { return strings.ToLower(s[:1]) + s[1:] }

// c17Compile type-checks a batch of generated packages against /repo.
func c17Compile(c *ev.Collector, env *pluginEnv, batch []*c17Gen) {
	if len(batch) == 0 {
		return
	}
	root := filepath.Join(env.dir, "mod")
	_ = os.RemoveAll(root)
	for _, g := range batch {
		for name, content := range g.files {
			p := filepath.Join(root, strings.TrimPrefix(name, "ex.com/"))
			_ = os.MkdirAll(filepath.Dir(p), 0o755)
			_ = os.WriteFile(p, []byte(content), 0o644)
		}
	}
	gomod := "module ex.com\n\ngo 1.18\n\nrequire (\n\tgithub.com/bufbuild/connect-go v0.0.0\n\tgoogle.golang.org/protobuf v1.28.0\n)\n\nreplace github.com/bufbuild/connect-go => /repo\n"
	_ = os.WriteFile(filepath.Join(root, "go.mod"), []byte(gomod), 0o644)
	if sum, err := os.ReadFile("/repo/go.sum"); err == nil {
		_ = os.WriteFile(filepath.Join(root, "go.sum"), sum, 0o644)
	}
	cmd := exec.Command(goTool, "build", "./...")
	cmd.Dir = root
	out, err := cmd.CombinedOutput()
	c.AddExtra("packages_compiled", int64(len(batch)))
	if err == nil {
		return
	}
	// attribute compile errors to cases by directory (c<ID>/)
	re := regexp.MustCompile(`(?m)^c(\d+)/[^\n]*$`)
	seen := map[int]bool{}
	for _, m := range re.FindAllStringSubmatch(string(out), -1) {
		id, _ := strconv.Atoi(m[1])
		if seen[id] {
			continue
		}
		seen[id] = true
		for _, g := range batch {
			if g.k.ID == id {
				c.Violation("TestC17", "type-checks", "compile-error", c17Tags(g.k), g.k, "%s: generated code does not compile against the library: %s", g.k.key(), m[0])
			}
		}
	}
	if len(seen) == 0 {
		c.HarnessError("batch build failed without attributable errors: %v\n%s", err, clip(string(out), 1500))
	}
}

func c17Cases(thorough bool) (out []c17Case) {
	id := 0
	add := func(k c17Case) {
		id++
		k.ID = id
		out = append(out, k)
	}
	kinds := [][2]bool{{false, false}, {true, false}, {false, true}, {true, true}}
	defer func() {
		// Go package names that collide with identifiers the generated code uses, and multi-file requests
		for _, tail := range []string{"http", "context", "errors", "strings", "connect", "connect_go", "pingv1connect", "opts", "svc", "mux", "ctx", "req", "stream", "c", "baseurl", "client", "baseURL", "httpClient"} {
			for _, form := range []int{0, 2} {
				for _, imp := range []bool{false, true} {
					k := c17Case{Package: "a.b.v1", GoPkgForm: form, Imported: imp, GoTail: tail, Services: []c17Service{{Name: "Svc", Methods: []c17Method{{Name: "Do"}, {Name: "Up", ClientStream: true}}}}}
					id++
					k.ID = id
					out = append(out, k)
				}
			}
		}
		// messages from two Go packages whose import paths end in the same element (…/order/v1, …/money/v1)
		for _, tail := range []string{"v1", "http", "types"} {
			id++
			out = append(out, c17Case{ID: id, Package: "a.b.v1", Imported: true, Mixed: true, GoTail: tail, Services: []c17Service{{Name: "Svc", Methods: []c17Method{{Name: "Do"}, {Name: "Up", ClientStream: true}, {Name: "Down", ServerStream: true}}}}})
		}
		// service names whose derived identifiers meet the constructors' parameters, each other, or the import alias
		for _, svcs := range [][]string{{"Http"}, {"HTTP"}, {"Opts"}, {"BaseURL"}, {"Svc"}, {"Order", "NewOrder"}, {"Thing", "UnimplementedThing"}} {
			var ss []c17Service
			for _, n := range svcs {
				ss = append(ss, c17Service{Name: n, Methods: []c17Method{{Name: "Do"}, {Name: "Up", ClientStream: true}}})
			}
			id++
			out = append(out, c17Case{ID: id, Package: "a.b.v1", Services: ss})
		}
		id++
		out = append(out, c17Case{ID: id, Package: "a.b.v1", GoTail: "gatewayClient", Services: []c17Service{{Name: "Gateway", Methods: []c17Method{{Name: "Do"}}}}})
		// fully-qualified names longer than any line the generator would wrap to
		longPkg := "com.example.platform.infrastructure.services.internal.accounting.reconciliation.settlement.v1alpha1"
		for _, depr := range []bool{false, true} {
			for _, kd := range kinds {
				k := c17Case{Package: longPkg, FileDepr: depr, Services: []c17Service{{Name: "CrossBorderSettlementReconciliationService", Deprecated: depr, Comment: 2,
					Methods: []c17Method{{Name: "ReconcileOutstandingSettlementInstructionsForCounterparty", ClientStream: kd[0], ServerStream: kd[1], Deprecated: depr, Comment: 1}}}}}
				id++
				k.ID = id
				out = append(out, k)
			}
		}
		for _, pkg := range []string{"a.b.v1", ""} {
			for _, svcs := range []int{1, 2} {
				k := c17Case{Package: pkg, Sibling: true}
				for i := 0; i < svcs; i++ {
					k.Services = append(k.Services, c17Service{Name: []string{"Svc", "S2"}[i], Methods: []c17Method{{Name: "Do"}, {Name: "Get", ServerStream: true}}})
				}
				id++
				k.ID = id
				out = append(out, k)
			}
		}
	}()
	base := func() c17Case {
		return c17Case{Package: "a.b.v1", Services: []c17Service{{Name: "Svc", Methods: []c17Method{{Name: "Do"}}}}}
	}
	packages := []string{"a.b.v1", "", "a"}
	svcNames := []string{"Svc", "my_service", "S2"}
	methNames := []string{"Do", "do_it", "Get"}
	for _, kw := range goKeywords {
		methNames = append(methNames, strings.ToUpper(kw[:1])+kw[1:])
	}
	if thorough {
		// full product over package x go_package form x service name x method name x kind, 1..2 methods
		for _, p := range packages {
			for gp := 0; gp < 3; gp++ {
				for _, sn := range svcNames {
					for _, mn := range methNames {
						for _, kd := range kinds {
							k := base()
							k.Package, k.GoPkgForm = p, gp
							k.Services[0].Name = sn
							k.Services[0].Methods = []c17Method{{Name: mn, ClientStream: kd[0], ServerStream: kd[1]}}
							add(k)
							k2 := base()
							k2.Package, k2.GoPkgForm = p, gp
							k2.Services[0].Name = sn
							k2.Services[0].Methods = []c17Method{{Name: "Do"}, {Name: mn + "Two", ClientStream: kd[0], ServerStream: kd[1], Comment: 1}}
							add(k2)
						}
					}
				}
			}
		}
	}
	// one or two dimensions at a time
	for _, p := range packages {
		for gp := 0; gp < 3; gp++ {
			for _, imp := range []bool{false, true} {
				k := base()
				k.Package, k.GoPkgForm, k.Imported = p, gp, imp
				add(k)
			}
		}
		for _, sn := range svcNames {
			for _, kd := range kinds {
				k := base()
				k.Package = p
				k.Services[0].Name = sn
				k.Services[0].Methods[0].ClientStream, k.Services[0].Methods[0].ServerStream = kd[0], kd[1]
				add(k)
			}
		}
		for _, mn := range methNames {
			for ki, kd := range kinds {
				if ki > 0 && p != "a.b.v1" {
					continue
				}
				k := base()
				k.Package = p
				k.Services[0].Methods[0] = c17Method{Name: mn, ClientStream: kd[0], ServerStream: kd[1]}
				add(k)
			}
		}
	}
	for ci := range c17Comments {
		for cj := range c17Comments {
			k := base()
			k.Services[0].Comment = ci
			k.Services[0].Methods[0].Comment = cj
			add(k)
		}
	}
	for mask := 0; mask < 8; mask++ {
		for _, kd := range kinds {
			k := base()
			k.FileDepr = mask&1 != 0
			k.Services[0].Deprecated = mask&2 != 0
			k.Services[0].Methods[0].Deprecated = mask&4 != 0
			k.Services[0].Methods[0].Comment = mask % 3
			k.Services[0].Methods[0].ClientStream, k.Services[0].Methods[0].ServerStream = kd[0], kd[1]
			add(k)
		}
	}
	// 1..2 services x 1..3 methods with all kinds mixed
	for ns := 1; ns <= 2; ns++ {
		for nm := 1; nm <= 3; nm++ {
			for rot := 0; rot < 4; rot++ {
				for _, p := range packages {
					k := c17Case{Package: p}
					for s := 0; s < ns; s++ {
						svc := c17Service{Name: svcNames[s], Comment: s}
						for m := 0; m < nm; m++ {
							kd := kinds[(m+rot+s)%4]
							svc.Methods = append(svc.Methods, c17Method{Name: methNames[m] + strconv.Itoa(s), ClientStream: kd[0], ServerStream: kd[1], Comment: (m + rot) % 3})
						}
						k.Services = append(k.Services, svc)
					}
					add(k)
				}
			}
		}
	}
	for _, p := range packages {
		k := base()
		k.Package, k.NoServices = p, true
		add(k)
	}
	return out
}

// c17Golden regenerates the checked-in ping.connect.go from the descriptor
// embedded in ping.pb.go and the comments of ping.proto.
func c17Golden(c *ev.Collector, env *pluginEnv) {
	c.Case("golden/ping.connect.go", true)
	const pbPath = "/repo/internal/gen/connect/ping/v1/ping.pb.go"
	const protoPath = "/repo/internal/proto/connect/ping/v1/ping.proto"
	const goldenPath = "/repo/internal/gen/connect/ping/v1/pingv1connect/ping.connect.go"
	fail := func(format string, args ...any) {
		c.Violation("TestC17", "checked-in-code-is-generated", "differs", []string{"golden"}, "golden", format, args...)
	}
	raw, err := rawDescFromGo(pbPath)
	if err != nil {
		c.HarnessError("golden: %v", err)
		return
	}
	var fd descriptorpb.FileDescriptorProto
	if err := proto.Unmarshal(raw, &fd); err != nil {
		c.HarnessError("golden: embedded descriptor does not parse: %v", err)
		return
	}
	src, err := os.ReadFile(protoPath)
	if err != nil {
		c.HarnessError("golden: %v", err)
		return
	}
	fd.SourceCodeInfo = commentsFromProto(string(src), &fd)
	req := &pluginpb.CodeGeneratorRequest{FileToGenerate: []string{fd.GetName()}, ProtoFile: []*descriptorpb.FileDescriptorProto{&fd}}
	resp, stderr, err := runPlugin(env.connectGo, req)
	if err != nil || resp.Error != nil {
		fail("plugin failed on the checked-in descriptor: %v %s %s", err, resp.GetError(), clip(stderr, 300))
		return
	}
	var got string
	for _, f := range resp.File {
		if strings.HasSuffix(f.GetName(), "ping.connect.go") {
			got = f.GetContent()
		}
	}
	want, err := os.ReadFile(goldenPath)
	if err != nil {
		c.HarnessError("golden: %v", err)
		return
	}
	w := string(want)
	if i := strings.Index(w, "// Code generated"); i >= 0 {
		w = w[i:] // the licence header is added by a separate Makefile step
	}
	c.AddTraces(1)
	c.AddTransitions(2)
	c.AddStates(2)
	if got != w {
		gl, wl := strings.Split(got, "\n"), strings.Split(w, "\n")
		diff := ""
		for i := 0; i < len(gl) && i < len(wl); i++ {
			if gl[i] != wl[i] {
				diff = fmt.Sprintf("first difference at line %d:\n  generated:  %s\n  checked in: %s", i+1, gl[i], wl[i])
				break
			}
		}
		if diff == "" {
			diff = fmt.Sprintf("lengths differ: generated %d lines, checked in %d lines", len(gl), len(wl))
		}
		fail("regenerating ping.connect.go from the checked-in descriptor does not reproduce the checked-in file: %s", diff)
		c.Outcome("violation")
		return
	}
	c.Outcome("golden-identical")
}

// rawDescFromGo extracts the []byte literal holding the file descriptor.
func rawDescFromGo(path string) ([]byte, error) {
	fset := token.NewFileSet()
	f, err := parser.ParseFile(fset, path, nil, parser.SkipObjectResolution)
	if err != nil {
		return nil, err
	}
	var out []byte
	found := false
	ast.Inspect(f, func(n ast.Node) bool {
		vs, ok := n.(*ast.ValueSpec)
		if !ok || found {
			return true
		}
		for i, name := range vs.Names {
			if strings.HasSuffix(name.Name, "_rawDesc") && i < len(vs.Values) {
				if cl, ok := vs.Values[i].(*ast.CompositeLit); ok {
					for _, e := range cl.Elts {
						if bl, ok := e.(*ast.BasicLit); ok {
							v, err := strconv.ParseUint(bl.Value, 0, 8)
							if err != nil {
								return false
							}
							out = append(out, byte(v))
						}
					}
					found = true
				}
			}
		}
		return true
	})
	if !found {
		return nil, fmt.Errorf("no _rawDesc literal in %s", path)
	}
	return out, nil
}

// commentsFromProto rebuilds the leading comments of services and methods
// from the .proto source (the plugin uses nothing else of SourceCodeInfo).
func commentsFromProto(src string, fd *descriptorpb.FileDescriptorProto) *descriptorpb.SourceCodeInfo {
	sci := &descriptorpb.SourceCodeInfo{}
	lines := strings.Split(src, "\n")
	var pending []string
	svcIdx := -1
	svcRe := regexp.MustCompile(`^\s*service\s+(\w+)`)
	rpcRe := regexp.MustCompile(`^\s*rpc\s+(\w+)`)
	for ln, line := range lines {
		t := strings.TrimSpace(line)
		switch {
		case strings.HasPrefix(t, "//"):
			pending = append(pending, strings.TrimPrefix(t, "//"))
			continue
		case svcRe.MatchString(line):
			name := svcRe.FindStringSubmatch(line)[1]
			for i, s := range fd.Service {
				if s.GetName() == name {
					svcIdx = i
				}
			}
			if len(pending) > 0 && svcIdx >= 0 {
				sci.Location = append(sci.Location, &descriptorpb.SourceCodeInfo_Location{Path: []int32{6, int32(svcIdx)}, Span: []int32{int32(ln), 0, 1}, LeadingComments: proto.String(strings.Join(pending, "\n") + "\n")})
			}
		case rpcRe.MatchString(line) && svcIdx >= 0:
			name := rpcRe.FindStringSubmatch(line)[1]
			for j, m := range fd.Service[svcIdx].Method {
				if m.GetName() == name && len(pending) > 0 {
					sci.Location = append(sci.Location, &descriptorpb.SourceCodeInfo_Location{Path: []int32{6, int32(svcIdx), 2, int32(j)}, Span: []int32{int32(ln), 2, 3}, LeadingComments: proto.String(strings.Join(pending, "\n") + "\n")})
				}
			}
		}
		pending = nil
	}
	return sci
}

func TestC17(t *testing.T) {
	c := ev.New("C17")
	defer func() { _ = c.Finish() }()
	c.SetRule("program (descriptor) enumeration through the plugin binary built from /repo's working tree: package {absent, a, a.b.v1} x go_package {path, path;name, M parameter} x service names {Svc, my_service, S2} x method names {Do, do_it, Get} plus all 25 Go keywords capitalised x 4 streaming kinds x deprecation at file/service/method x 5 comment shapes (multi-line, containing */, 200-character word) x request/response types local or imported x 1..2 services x 1..3 methods x files without services; quick varies the dimensions one or two at a time, thorough adds the full product with 1..2 methods; oracles: plugin exits 0 without error, two runs byte-identical, go/parser accepts, the batch type-checks against /repo together with protoc-gen-go's output, and on the generated AST every method's mux pattern, Spec procedure and client URL suffix equal /<fully-qualified service>/<method>, constructors match the streaming kind, the mount prefix is /<fully-qualified service>/; plus the golden check (checked-in ping.connect.go regenerated from the checked-in descriptor); distinct = descriptor")
	c.Assume("protoc is not installed: descriptors are built programmatically (protoc itself would reject some of them only for reasons unrelated to the plugin)", "protoc-gen-go v1.28.0 from the module cache generates the message types the output is compiled with")
	env, err := newPluginEnv()
	if env != nil {
		defer env.close()
	}
	if err != nil {
		// a plugin that does not build is a property violation only if /repo itself compiles; report as harness error otherwise
		c.HarnessError("%v", err)
		return
	}
	if ev.ReplayFile() != "" {
		var k c17Case
		if _, err := ev.LoadReplay(&k); err != nil || len(k.Services) == 0 && !k.NoServices {
			c17Golden(c, env)
			return
		}
		if g := c17Check(c, env, k); g != nil {
			c17Compile(c, env, []*c17Gen{g})
		}
		return
	}
	thorough := ev.Thorough()
	cases := c17Cases(thorough)
	shard, _ := ev.Shard()
	if shard == 0 {
		c17Golden(c, env)
	}
	var batch []*c17Gen
	for i, k := range cases {
		if !ev.Mine(i) {
			continue
		}
		if c.Expired() {
			break
		}
		c.Case(k.key(), true)
		if g := c17Check(c, env, k); g != nil {
			batch = append(batch, g)
		}
		if i%101 == 0 {
			c.Sample(map[string]any{"descriptor": k.key()})
		}
		if len(batch) >= 120 {
			c17Compile(c, env, batch)
			batch = nil
		}
	}
	c17Compile(c, env, batch)
}
