#!/bin/bash
# Re-applies every stored behaviour-preserving change (seeded/benign/*.diff) to /repo, runs all 19 quick checks,
# reverts; writes seeded/benign/RESULTS.md.  /repo must be clean.
set -u
cd /verif
out=seeded/benign/RESULTS.md
{
echo "# Behaviour-preserving changes vs. checks"
echo
echo "Produced by tools/benign_all.sh: each patch is applied to /repo, every \`./check <property> quick\` is run, the patch is reverted."
echo
echo "| change | alarms |"
echo "|---|---|"
} > $out
for p in seeded/benign/*.diff; do
  res=$(tools/benign_eval.sh $p quick 2>&1)
  alarms=$(echo "$res" | grep -E "^ALARM" | tr '\n' ' ')
  if echo "$res" | grep -q "patch does not apply"; then alarms="patch does not apply to the current tree"; fi
  echo "| $(basename $p .diff) | ${alarms:-none} |" >> $out
  echo "$(basename $p) ${alarms:-none}"
done
