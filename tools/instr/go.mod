module verifinstr

go 1.26.8
