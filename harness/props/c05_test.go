package props

import (
	"bytes"
	"context"
	"errors"
	"fmt"
	"io"
	"net/http"
	"net/http/httptest"
	"strings"
	"testing"
	"time"

	connect "github.com/bufbuild/connect-go"
	"google.golang.org/protobuf/encoding/protojson"
	"google.golang.org/protobuf/proto"
	"google.golang.org/protobuf/types/known/anypb"
	"google.golang.org/protobuf/types/known/wrapperspb"

	"verifharness/ev"
	"verifharness/memhttp"
	"verifharness/refwire"
)

// C05 — bytes on the wire conform to the Connect, gRPC and gRPC-Web protocols.
//
// Engine: (i) handler/client programs run on the real library, the recorded
// exchange is decoded by the independent strict decoder refwire; (ii) refwire
// produces conformant peers with every legal variation and the library must
// decode them to the same values.

func codecMarshal(js bool, m proto.Message) []byte {
	if js {
		b, _ := protojson.Marshal(m)
		return b
	}
	b, _ := proto.Marshal(m)
	return b
}

func codecUnmarshalBV(js bool, b []byte) (*BV, error) {
	m := &BV{}
	if js {
		return m, protojson.Unmarshal(b, m)
	}
	return m, proto.Unmarshal(b, m)
}

func contentType(p Proto, kind Kind, js bool) string {
	name := "proto"
	if js {
		name = "json"
	}
	switch {
	case p == PConnect && kind == KUnary:
		return "application/" + name
	case p == PConnect:
		return "application/connect+" + name
	case p == PGRPC:
		return "application/grpc+" + name
	}
	return "application/grpc-web+" + name
}

type c05OutCase struct {
	Cfg      Cfg   `json:"cfg"`
	NHdr     int   `json:"n_hdr"`
	NTrl     int   `json:"n_trl"`
	Sizes    []int `json:"sizes"` // response message sizes
	ErrCode  int   `json:"err_code"`
	ErrMsg   int   `json:"err_msg"`
	Details  int   `json:"details"`
	ReqSizes []int `json:"req_sizes"`
	// Proxied: the error carries the metadata of an upstream gRPC error
	// (protocol-reserved keys included), as a proxying handler returns it.
	Proxied bool `json:"proxied,omitempty"`
	// Wrapped: the handler returns fmt.Errorf("...: %w", codedErr)
	Wrapped bool `json:"wrapped,omitempty"`
	// Deadline: the client's context has exactly this long left (fake clock);
	// the timeout header the client writes must fit the protocol's grammar.
	Deadline time.Duration `json:"deadline,omitempty"`
}

func (k c05OutCase) key() string {
	w := ""
	if k.Wrapped {
		w = "/wrapped"
	}
	if k.Deadline > 0 {
		w += fmt.Sprintf("/deadline%d", int64(k.Deadline))
	}
	return fmt.Sprintf("out/%s/h%d/t%d/resp%s/err%d.%d.%d/req%s/proxied=%v%s", k.Cfg, k.NHdr, k.NTrl, sizesKey(k.Sizes), k.ErrCode, k.ErrMsg, k.Details, sizesKey(k.ReqSizes), k.Proxied, w)
}

func sizesKey(s []int) string {
	if len(s) > 20 {
		return fmt.Sprintf("[%d..%d (%d sizes)]", s[0], s[len(s)-1], len(s))
	}
	return fmt.Sprint(s)
}

var c05Msgs = []string{"", "plain", "näh 100% \r\n ☃", strings.Repeat("x", 300), "edge \x7f~ \x1f\x20!"}

// c05SizeSweep: every encodable message size up to 600 bytes (sizes straddling
// whatever small fixed-size scratch space an encoder might use).
func c05SizeSweep() []int {
	out := []int{0}
	for n := 2; n <= 600; n++ {
		out = append(out, n)
	}
	return out
}

func c05Detail(i int) proto.Message {
	if i == 0 {
		return wrapperspb.String("d-one")
	}
	return wrapperspb.Int64(424242)
}

func c05OutCheck(c *ev.Collector, k c05OutCase) {
	tags := k.Cfg.Tags()
	bad := false
	viol := func(clause, outcome, format string, args ...any) {
		bad = true
		c.Violation("TestC05", clause, outcome, tags, k, "%s: "+format, append([]any{k.key()}, args...)...)
	}
	hdr, trl := http.Header{}, http.Header{}
	for i := 0; i < k.NHdr; i++ {
		hdr.Add(fmt.Sprintf("X-H%d", i), fmt.Sprintf("hv%d", i))
	}
	for i := 0; i < k.NTrl; i++ {
		trl.Add(fmt.Sprintf("X-T%d", i), fmt.Sprintf("tv %d", i))
	}
	if k.NTrl == 2 {
		trl.Add("X-T0", "second value")
	}
	var wantErr *connect.Error
	if k.ErrCode != 0 {
		wantErr = connect.NewError(connect.Code(k.ErrCode), errors.New(c05Msgs[k.ErrMsg]))
		for i := 0; i < k.Details; i++ {
			a, _ := anypb.New(c05Detail(i))
			wantErr.AddDetail(a)
		}
		if k.Proxied {
			wantErr.Meta().Set("Grpc-Status", "14")
			wantErr.Meta().Set("Grpc-Message", "upstream%20said")
			wantErr.Meta().Set("Grpc-Status-Details-Bin", "CA4SBHVwc3Q")
			wantErr.Meta().Set("X-Upstream", "u1")
			// ... and, as every error that a client decoded does, the headers of the HTTP
			// response it arrived in
			wantErr.Meta().Set("Content-Type", "application/json")
			wantErr.Meta().Set("Content-Length", "55")
			wantErr.Meta().Set("Date", "Mon, 28 Sep 2026 10:00:00 GMT")
			wantErr.Meta().Set("Accept-Encoding", "gzip")
			wantErr.Meta().Set("Grpc-Accept-Encoding", "gzip")
		}
	}
	respPayloads := make([][]byte, len(k.Sizes))
	for i, s := range k.Sizes {
		respPayloads[i] = Payload(s, byte(0x31+i))
	}
	reqPayloads := make([][]byte, len(k.ReqSizes))
	for i, s := range k.ReqSizes {
		reqPayloads[i] = Payload(s, byte(0x61+i))
	}
	h := NewHandler(k.Cfg.Kind, func(ctx context.Context, s HStream) error {
		for {
			if _, err := s.Receive(); err != nil {
				if !errors.Is(err, io.EOF) {
					return err
				}
				break
			}
		}
		mergeInto(s.ResponseHeader(), hdr)
		mergeInto(s.ResponseTrailer(), trl)
		for _, p := range respPayloads {
			if err := s.Send(&BV{Value: p}); err != nil {
				return err
			}
		}
		if wantErr != nil {
			if k.Wrapped {
				return fmt.Errorf("while handling: %w", wantErr)
			}
			return wantErr
		}
		return nil
	}, k.Cfg.HandlerOptions()...)
	tr := &memhttp.Transport{Handler: h, Proto: k.Cfg.HTTP, SyncCloseReq: true}
	cl := NewClient(tr, k.Cfg)
	var res CallResult
	ctx := context.Background()
	if k.Deadline > 0 {
		var cancel context.CancelFunc
		ctx, cancel = context.WithTimeout(ctx, k.Deadline)
		defer cancel()
	}
	g := Guarded(func() { res = RunCall(ctx, cl, k.Cfg.Kind, reqPayloads, nil) }, tr)
	c.AddTransitions(int64(3 + len(k.Sizes) + len(k.ReqSizes)))
	c.AddStates(int64(3 + len(k.Sizes) + len(k.ReqSizes)))
	c.AddTraces(1)
	if g.Hung || g.Panicked {
		viol("terminates", "hang-or-panic", "hung=%v panic=%v\n%s", g.Hung, g.Panic, g.Stack)
		c.Outcome("violation")
		BailIfStuck(c, g)
		return
	}
	_ = res
	ex := tr.Last()
	if ex == nil {
		viol("exchange", "none", "no exchange recorded")
		c.Outcome("violation")
		return
	}
	wp := wireProto(k.Cfg.Proto)
	unary := k.Cfg.Kind == KUnary
	// request written by the client
	rq := refwire.DecodeRequest(wp, unary, ex.Method, ex.ReqHeader, ex.ReqBody, ex.ReqEOF, AnyDecompress)
	for _, p := range rq.Problems {
		viol("request-conforms", "problem", "request: %s", p)
	}
	if len(rq.Problems) == 0 {
		if len(rq.Msgs) != len(reqPayloads) {
			viol("request-conforms", "count", "request carries %d messages, client sent %d", len(rq.Msgs), len(reqPayloads))
		} else {
			for i, raw := range rq.Msgs {
				m, err := codecUnmarshalBV(k.Cfg.JSON, raw)
				if err != nil || !bytes.Equal(m.Value, reqPayloads[i]) {
					viol("request-conforms", "content", "request message %d decodes to %s (%v), client sent %s", i, shortBytes(m.Value), err, shortBytes(reqPayloads[i]))
				}
			}
		}
		encH, _ := encHeaders(k.Cfg.Proto, k.Cfg.Kind)
		for i, cflag := range rq.Compressed {
			if cflag && (ex.ReqHeader.Get(encH) == "" || ex.ReqHeader.Get(encH) == "identity") {
				viol("flag-needs-header", "request", "request message %d flagged compressed without %s", i, encH)
			}
		}
	}
	// response written by the handler
	rs := refwire.DecodeResponse(wp, unary, ex.ReqHeader.Get("Content-Type"), ex.Status, ex.RespHeader, ex.RespBody, ex.RespTrail, AnyDecompress)
	for _, p := range rs.Problems {
		viol("response-conforms", "problem", "response: %s", p)
	}
	if len(rs.Problems) == 0 {
		wantMsgs := respPayloads
		if wantErr != nil && !k.Cfg.Kind.ServerStreams() {
			wantMsgs = nil // single-response kinds send nothing before an error... unless the program sent first
			if len(respPayloads) > 0 {
				wantMsgs = nil
			}
		}
		if wantErr == nil || k.Cfg.Kind.ServerStreams() {
			if len(rs.Msgs) != len(wantMsgs) {
				viol("response-conforms", "count", "response carries %d messages, handler sent %d", len(rs.Msgs), len(wantMsgs))
			} else {
				for i, raw := range rs.Msgs {
					m, err := codecUnmarshalBV(k.Cfg.JSON, raw)
					if err != nil || !bytes.Equal(m.Value, wantMsgs[i]) {
						viol("response-conforms", "content", "response message %d decodes to %s (%v), handler sent %s", i, shortBytes(m.Value), err, shortBytes(wantMsgs[i]))
					}
				}
			}
		}
		if !rs.End.Present {
			viol("response-conforms", "no-terminator", "no protocol terminator found")
		} else if wantErr == nil {
			if rs.End.Code != 0 {
				viol("response-conforms", "status", "handler returned nil, wire status is %d", rs.End.Code)
			}
		} else {
			if rs.End.Code != k.ErrCode || rs.End.Message != c05Msgs[k.ErrMsg] {
				viol("response-conforms", "status", "handler returned %v, wire says code %d message %q", wantErr, rs.End.Code, clip(rs.End.Message, 60))
			}
			if len(rs.End.Details) != k.Details {
				viol("response-conforms", "details", "wire carries %d details, handler attached %d", len(rs.End.Details), k.Details)
			} else {
				for i, d := range rs.End.Details {
					want := c05Detail(i)
					if k.Cfg.Proto == PConnect {
						var a anypb.Any
						if err := protojson.Unmarshal(d.Value, &a); err != nil {
							viol("response-conforms", "details", "detail %d is not a protojson Any: %v", i, err)
							continue
						}
						got, err := a.UnmarshalNew()
						if err != nil || !proto.Equal(got, want) {
							viol("response-conforms", "details", "detail %d = %v (%v), want %v", i, got, err, want)
						}
					} else {
						a := &anypb.Any{TypeUrl: d.TypeURL, Value: d.Value}
						got, err := a.UnmarshalNew()
						if err != nil || !proto.Equal(got, want) {
							viol("response-conforms", "details", "detail %d = %v (%v), want %v", i, got, err, want)
						}
					}
				}
			}
		}
		if rs.End.Present {
			all := rs.Header.Clone()
			mergeInto(all, rs.End.Meta)
			if !(wantErr != nil && !k.Cfg.Kind.ServerStreams()) {
				if msg, ok := HeaderSubset(hdr, all); !ok {
					viol("response-conforms", "metadata", "headers: %s", msg)
				}
				if msg, ok := HeaderSubset(trl, all); !ok {
					viol("response-conforms", "metadata", "trailers: %s", msg)
				}
			}
		}
	}
	if bad {
		c.Outcome("violation")
	} else {
		c.Outcome("conforms")
	}
}

// ---------------------------------------------------------------- (ii) peers

type c05PeerCase struct {
	Proto    Proto `json:"proto"`
	Kind     Kind  `json:"kind"`
	JSON     bool  `json:"json"`
	NMsgs    int   `json:"n_msgs"`
	Compress int   `json:"compress"` // 0 none, 1 all, 2 alternating
	ErrCode  int   `json:"err_code"`
	ErrMsg   int   `json:"err_msg"`
	Details  int   `json:"details"`
	Meta     int   `json:"meta"`  // 0 none, 1 canonical keys, 2 lower-case keys
	Vary     int   `json:"vary"`  // bit set of legal variations (see c05Vary)
	TCase    int   `json:"tcase"` // gRPC-Web trailer name casing
	// ZeroMask: bit i set = message i is the zero message (empty payload under
	// the proto codec), sent uncompressed whatever Compress says
	ZeroMask int `json:"zero_mask,omitempty"`
}

const (
	vTrailersOnly = 1 << iota
	vHexLower
	vPadDetails
	vFinalCRLF
	vOmitMessage
	vMetaInEnd
	vCompressEnd
)

func (k c05PeerCase) key() string {
	codec := "proto"
	if k.JSON {
		codec = "json"
	}
	zero := ""
	if k.ZeroMask != 0 {
		zero = fmt.Sprintf("/zero%03b", k.ZeroMask)
	}
	return fmt.Sprintf("peer/%s/%s/%s/n%d/c%d/err%d.%d.%d/meta%d/vary%07b/tcase%d%s", k.Proto, k.Kind, codec, k.NMsgs, k.Compress, k.ErrCode, k.ErrMsg, k.Details, k.Meta, k.Vary, k.TCase, zero)
}

func c05PeerCheck(c *ev.Collector, k c05PeerCase) {
	tags := []string{"proto=" + k.Proto.String(), "kind=" + k.Kind.String(), "peer"}
	if k.Meta == 2 {
		tags = append(tags, "lower-case-metadata-keys")
	}
	bad := false
	viol := func(clause, outcome, format string, args ...any) {
		bad = true
		c.Violation("TestC05", clause, outcome, tags, k, "%s: "+format, append([]any{k.key()}, args...)...)
	}
	spec := &refwire.RespSpec{
		P: wireProto(k.Proto), Unary: k.Kind == KUnary, ContentType: contentType(k.Proto, k.Kind, k.JSON),
		TrailersOnly: k.Vary&vTrailersOnly != 0, HexLower: k.Vary&vHexLower != 0, PadDetails: k.Vary&vPadDetails != 0,
		OmitMessage: k.Vary&vOmitMessage != 0, MetaInEnd: k.Vary&vMetaInEnd != 0, CompressEnd: k.Vary&vCompressEnd != 0,
		TrailerCase: k.TCase, Header: http.Header{"X-Lead": {"lead value"}},
	}
	var payloads [][]byte
	for i := 0; i < k.NMsgs; i++ {
		p := Payload(40+i*3, byte(0x41+i))
		zero := k.ZeroMask&(1<<i) != 0
		if zero {
			p = []byte{}
		}
		payloads = append(payloads, p)
		spec.Msgs = append(spec.Msgs, codecMarshal(k.JSON, &BV{Value: p}))
		spec.Compress = append(spec.Compress, !zero && (k.Compress == 1 || (k.Compress == 2 && i%2 == 0)))
	}
	if k.Compress != 0 {
		spec.Alg = "gzip"
	}
	spec.End = refwire.End{Code: k.ErrCode, Message: c05Msgs[k.ErrMsg]}
	if k.ErrCode == 0 {
		spec.End.Message = ""
	}
	for i := 0; i < k.Details && k.ErrCode != 0; i++ {
		a, _ := anypb.New(c05Detail(i))
		if k.Proto == PConnect {
			js, _ := protojson.Marshal(a)
			spec.End.Details = append(spec.End.Details, refwire.Detail{TypeURL: a.TypeUrl, Value: js})
		} else {
			spec.End.Details = append(spec.End.Details, refwire.Detail{TypeURL: a.TypeUrl, Value: a.Value})
		}
	}
	wantMeta := http.Header{}
	switch k.Meta {
	case 1:
		spec.End.Meta = http.Header{"X-Trail": {"t1", "t2"}}
		wantMeta = spec.End.Meta
	case 2:
		spec.End.Meta = http.Header{"x-trail": {"t1", "t2"}}
		wantMeta = http.Header{"X-Trail": {"t1", "t2"}}
	}
	status, header, body, trailer := spec.Build()
	// self-check: the reference decoder accepts what the reference encoder wrote
	self := refwire.DecodeResponse(spec.P, spec.Unary, spec.ContentType, status, header, body, trailer, nil)
	if spec.TrailerCase == 1 || spec.TrailerCase == 2 {
		// peers that spell the names of the trailer block in another case are outside the
		// letter of PROTOCOL-WEB; the library is asked to be liberal and accept them all the same
		var kept []string
		for _, p := range self.Problems {
			if !strings.Contains(p, "is not lower-case") {
				kept = append(kept, p)
			}
		}
		self.Problems = kept
	}
	if len(self.Problems) > 0 {
		c.HarnessError("%s: refwire rejects its own encoding: %v", k.key(), self.Problems)
		return
	}
	tr := &memhttp.Transport{Handler: refwire.Handler(status, header, body, trailer), Proto: 2, SyncCloseReq: true}
	cfg := Cfg{Proto: k.Proto, JSON: k.JSON, Comp: CompDefault, Kind: k.Kind, HTTP: 2}
	cl := NewClient(tr, cfg)
	var res CallResult
	g := Guarded(func() { res = RunCall(context.Background(), cl, k.Kind, [][]byte{{1}}, nil) }, tr)
	c.AddTransitions(int64(3 + k.NMsgs))
	c.AddStates(int64(3 + k.NMsgs))
	c.AddTraces(1)
	if g.Hung || g.Panicked {
		viol("terminates", "hang-or-panic", "hung=%v panic=%v\n%s", g.Hung, g.Panic, g.Stack)
		c.Outcome("violation")
		BailIfStuck(c, g)
		return
	}
	if k.ErrCode == 0 {
		if res.Err != nil {
			viol("peer-accepted", "rejected", "conformant successful response rejected: %v", res.Err)
		} else {
			if !equalMsgs(res.Msgs, payloads) {
				viol("peer-decoded", "messages", "client decoded %s, peer sent %s", shortMsgs(res.Msgs), shortMsgs(payloads))
			}
			all := res.Header.Clone()
			mergeInto(all, res.Trailer)
			if msg, ok := HeaderSubset(wantMeta, all); !ok {
				viol("peer-decoded", "metadata", "%s (headers %v trailers %v)", msg, res.Header, res.Trailer)
			}
			if res.Header.Get("X-Lead") != "lead value" && !(k.Vary&vTrailersOnly != 0) {
				viol("peer-decoded", "header", "leading header lost: %v", res.Header)
			}
		}
	} else {
		var ce *connect.Error
		if res.Err == nil || !errors.As(res.Err, &ce) {
			viol("peer-accepted", "no-error", "conformant error response produced %v", res.Err)
		} else {
			if int(ce.Code()) != k.ErrCode || ce.Message() != c05Msgs[k.ErrMsg] {
				viol("peer-decoded", "error", "client decoded %v: %q, peer sent code %d %q", ce.Code(), clip(ce.Message(), 60), k.ErrCode, clip(c05Msgs[k.ErrMsg], 60))
			}
			if len(ce.Details()) != k.Details {
				viol("peer-decoded", "details", "client decoded %d details, peer sent %d", len(ce.Details()), k.Details)
			} else {
				for i, d := range ce.Details() {
					got, err := anyOf(d).UnmarshalNew()
					if err != nil || !proto.Equal(got, c05Detail(i)) {
						viol("peer-decoded", "details", "detail %d = %v (%v)", i, got, err)
					}
				}
			}
			if msg, ok := HeaderSubset(wantMeta, ce.Meta()); !ok {
				viol("peer-decoded", "metadata", "%s (error metadata %v)", msg, ce.Meta())
			}
			if k.Kind.ServerStreams() && !equalMsgs(res.Msgs, payloads) {
				viol("peer-decoded", "messages", "client decoded %s before the error, peer sent %s", shortMsgs(res.Msgs), shortMsgs(payloads))
			}
		}
	}
	if bad {
		c.Outcome("violation")
	} else {
		c.Outcome("peer-ok")
	}
}

func c05PeerCases(thorough bool) []c05PeerCase {
	var out []c05PeerCase
	// zero messages at any position of a short stream, between non-zero ones
	for _, p := range AllProtos {
		for _, js := range []bool{false, true} {
			for n := 1; n <= 3; n++ {
				for mask := 1; mask < 1<<n; mask++ {
					for comp := 0; comp < 2; comp++ {
						out = append(out, c05PeerCase{Proto: p, Kind: KServer, JSON: js, NMsgs: n, Compress: comp, ZeroMask: mask, Meta: 1, TCase: 1})
					}
				}
			}
		}
	}
	for _, p := range AllProtos {
		for _, kind := range []Kind{KUnary, KServer} {
			for code := 1; code <= 16; code++ {
				out = append(out, c05PeerCase{Proto: p, Kind: kind, NMsgs: 0, ErrCode: code, ErrMsg: 1, Details: 1, Meta: 1, TCase: 1})
			}
		}
	}
	for _, p := range AllProtos {
		for _, kind := range []Kind{KUnary, KServer} {
			for _, js := range []bool{false, true} {
				nmsgs := []int{1}
				if kind == KServer {
					nmsgs = []int{0, 1, 2}
				}
				for _, n := range nmsgs {
					for comp := 0; comp < 3; comp++ {
						if n == 0 && comp > 0 {
							continue
						}
						for _, ec := range []int{0, 5, 16} {
							if ec != 0 && kind == KUnary && p == PConnect && comp > 0 {
								continue
							}
							for meta := 0; meta < 3; meta++ {
								// which variations apply?
								var bits []int
								switch p {
								case PConnect:
									if ec != 0 {
										bits = append(bits, vOmitMessage)
									}
									if kind != KUnary {
										bits = append(bits, vMetaInEnd)
										if comp != 0 {
											bits = append(bits, vCompressEnd)
										}
									}
								case PGRPC, PGRPCWeb:
									if n == 0 {
										bits = append(bits, vTrailersOnly)
									}
									if ec != 0 {
										bits = append(bits, vHexLower, vPadDetails)
									}
									if p == PGRPCWeb && comp != 0 && n > 0 {
										bits = append(bits, vCompressEnd)
									}
								}
								tcases := []int{1}
								if p == PGRPCWeb {
									tcases = []int{0, 1, 2, 3, 4}
								}
								for mask := 0; mask < 1<<len(bits); mask++ {
									vary := 0
									for i, b := range bits {
										if mask&(1<<i) != 0 {
											vary |= b
										}
									}
									for _, tc := range tcases {
										msgs := []int{1}
										dets := []int{0}
										if ec != 0 {
											msgs = []int{0, 2}
											dets = []int{0, 2}
											if thorough {
												msgs = []int{0, 1, 2, 3}
												dets = []int{0, 1, 2}
											}
										}
										for _, em := range msgs {
											for _, det := range dets {
												if kind == KUnary && ec != 0 && n > 0 && p != PConnect {
													// unary gRPC error: no message before the error
												}
												nn := n
												if ec != 0 && kind == KUnary {
													nn = 0
												}
												out = append(out, c05PeerCase{Proto: p, Kind: kind, JSON: js, NMsgs: nn, Compress: comp, ErrCode: ec, ErrMsg: em, Details: det, Meta: meta, Vary: vary, TCase: tc})
											}
										}
									}
								}
							}
						}
					}
				}
			}
		}
	}
	return out
}

// ------------------------------------------------- (ii) conformant requests

type c05ReqCase struct {
	Proto    Proto  `json:"proto"`
	Kind     Kind   `json:"kind"`
	JSON     bool   `json:"json"`
	Bare     bool   `json:"bare"` // bare application/grpc[-web] content type
	NMsgs    int    `json:"n_msgs"`
	Compress int    `json:"compress"`
	Timeout  string `json:"timeout"`
}

func (k c05ReqCase) key() string {
	return fmt.Sprintf("req/%s/%s/json=%v/bare=%v/n%d/c%d/t=%s", k.Proto, k.Kind, k.JSON, k.Bare, k.NMsgs, k.Compress, k.Timeout)
}

func c05ReqCheck(c *ev.Collector, k c05ReqCase) {
	tags := []string{"proto=" + k.Proto.String(), "kind=" + k.Kind.String(), "peer-request"}
	bad := false
	viol := func(clause, outcome, format string, args ...any) {
		bad = true
		c.Violation("TestC05", clause, outcome, tags, k, "%s: "+format, append([]any{k.key()}, args...)...)
	}
	var got [][]byte
	h := NewHandler(k.Kind, func(ctx context.Context, s HStream) error {
		for {
			m, err := s.Receive()
			if err != nil {
				if !errors.Is(err, io.EOF) {
					return err
				}
				break
			}
			got = append(got, cloneBytes(m.Value))
		}
		return s.Send(&BV{Value: []byte{1}})
	})
	ct := contentType(k.Proto, k.Kind, k.JSON)
	if k.Bare {
		ct = strings.TrimSuffix(ct, "+proto")
	}
	var payloads [][]byte
	var body []byte
	unaryConnect := k.Proto == PConnect && k.Kind == KUnary
	anyCompressed := false
	for i := 0; i < k.NMsgs; i++ {
		p := Payload(30+i, byte(0x51+i))
		payloads = append(payloads, p)
		raw := codecMarshal(k.JSON, &BV{Value: p})
		comp := k.Compress == 1 || (k.Compress == 2 && i%2 == 1)
		if comp {
			raw = Gzip(raw)
			anyCompressed = true
		}
		if unaryConnect {
			body = raw
		} else {
			flags := byte(0)
			if comp {
				flags = 1
			}
			body = append(body, refwire.Envelope(flags, raw)...)
		}
	}
	req := httptest.NewRequest("POST", "http://mem.test"+Procedure, bytes.NewReader(body))
	req.ProtoMajor, req.ProtoMinor, req.Proto = 2, 0, "HTTP/2.0"
	req.Header.Set("Content-Type", ct)
	encH, accH := encHeaders(k.Proto, k.Kind)
	if k.Compress != 0 && (anyCompressed || !unaryConnect) {
		req.Header.Set(encH, "gzip")
	}
	req.Header.Set(accH, "gzip")
	if k.Proto == PGRPC {
		req.Header.Set("Te", "trailers")
	}
	if k.Timeout != "" {
		if k.Proto == PConnect {
			req.Header.Set("Connect-Timeout-Ms", k.Timeout)
		} else {
			req.Header.Set("Grpc-Timeout", k.Timeout)
		}
	}
	rec := httptest.NewRecorder()
	g := Guarded(func() { h.ServeHTTP(rec, req) })
	c.AddTransitions(int64(2 + k.NMsgs))
	c.AddStates(int64(2 + k.NMsgs))
	c.AddTraces(1)
	if g.Hung || g.Panicked {
		viol("terminates", "hang-or-panic", "hung=%v panic=%v\n%s", g.Hung, g.Panic, g.Stack)
		c.Outcome("violation")
		BailIfStuck(c, g)
		return
	}
	if code := respCode(k.Proto, k.Kind, rec); code != "ok" {
		viol("peer-request-accepted", "code="+code, "conformant request answered with %s (HTTP %d, %q)", code, rec.Code, clip(rec.Body.String(), 120))
	} else if !equalMsgs(got, payloads) {
		viol("peer-request-decoded", "messages", "handler received %s, peer sent %s", shortMsgs(got), shortMsgs(payloads))
	}
	status, header, rbody, trailer := recParts(rec)
	rs := refwire.DecodeResponse(wireProto(k.Proto), k.Kind == KUnary, ct, status, header, rbody, trailer, AnyDecompress)
	for _, p := range rs.Problems {
		viol("response-conforms", "problem", "response to a conformant request: %s", p)
	}
	if bad {
		c.Outcome("violation")
	} else {
		c.Outcome("peer-request-ok")
	}
}

func c05ReqCases() []c05ReqCase {
	var out []c05ReqCase
	for _, p := range AllProtos {
		for _, kind := range AllKinds {
			for _, js := range []bool{false, true} {
				for _, bare := range []bool{false, true} {
					if bare && (js || p == PConnect) {
						continue
					}
					ns := []int{1}
					if kind.ClientStreams() {
						ns = []int{0, 1, 3}
					}
					for _, n := range ns {
						for comp := 0; comp < 3; comp++ {
							timeouts := []string{"", "5000m", "99999999S", "1H"}
							if p == PConnect {
								timeouts = []string{"", "5000", "9999999999", "1"}
							}
							for _, to := range timeouts {
								out = append(out, c05ReqCase{Proto: p, Kind: kind, JSON: js, Bare: bare, NMsgs: n, Compress: comp, Timeout: to})
							}
						}
					}
				}
			}
		}
	}
	return out
}

func c05OutCases(thorough bool) []c05OutCase {
	var out []c05OutCase
	// every one of the 16 codes through every protocol and a unary and a streaming kind
	for _, p := range AllProtos {
		for _, kind := range []Kind{KUnary, KServer} {
			for code := 1; code <= 16; code++ {
				cfg := Cfg{Proto: p, Comp: CompDefault, Kind: kind, HTTP: 2}
				sizes := []int{20}
				out = append(out, c05OutCase{Cfg: cfg, NHdr: 1, NTrl: 1, Sizes: sizes, ErrCode: code, ErrMsg: 1, Details: 1, ReqSizes: []int{15}})
			}
		}
	}
	// client deadlines at the digit-count boundaries of every timeout unit
	for _, p := range AllProtos {
		for _, u := range []time.Duration{time.Nanosecond, time.Microsecond, time.Millisecond, time.Second, time.Minute} {
			for _, d := range []time.Duration{99999999 * u, 100000000 * u, 100000000*u + u/2, 100000001 * u, 999999999 * u} {
				if d <= 0 || d/u < 99999999 {
					continue // overflow
				}
				out = append(out, c05OutCase{Cfg: Cfg{Proto: p, Comp: CompNone, Kind: KUnary, HTTP: 2}, Sizes: []int{20}, ReqSizes: []int{15}, Deadline: d})
			}
		}
	}
	// one stream with a message of every size, uncompressed, in each direction
	for _, p := range AllProtos {
		for _, js := range []bool{false, true} {
			out = append(out, c05OutCase{Cfg: Cfg{Proto: p, JSON: js, Comp: CompNone, Kind: KServer, HTTP: 2}, Sizes: c05SizeSweep(), ReqSizes: []int{15}})
			out = append(out, c05OutCase{Cfg: Cfg{Proto: p, JSON: js, Comp: CompNone, Kind: KClient, HTTP: 2}, Sizes: []int{20}, ReqSizes: c05SizeSweep()})
		}
	}
	for _, p := range AllProtos {
		for _, js := range []bool{false, true} {
			for _, comp := range AllComps {
				for _, kind := range AllKinds {
					cfg := Cfg{Proto: p, JSON: js, Comp: comp, Kind: kind, HTTP: 2}
					respSeqs := [][]int{{20}}
					if kind.ServerStreams() {
						respSeqs = [][]int{{}, {20}, {0, MinBytes + 30}}
					}
					reqSeqs := [][]int{{15}}
					if kind.ClientStreams() {
						reqSeqs = [][]int{{}, {15, MinBytes + 20}}
					}
					for _, rs := range respSeqs {
						for _, qs := range reqSeqs {
							for nh := 0; nh <= 2; nh++ {
								for nt := 0; nt <= 2; nt++ {
									if !thorough && nh != nt {
										continue
									}
									out = append(out, c05OutCase{Cfg: cfg, NHdr: nh, NTrl: nt, Sizes: rs, ReqSizes: qs})
									for _, ec := range []int{3, 13} {
										for det := 0; det <= 2; det += 2 {
											em := (nh + det + ec) % len(c05Msgs)
											if thorough {
												for em = 0; em < len(c05Msgs); em++ {
													out = append(out, c05OutCase{Cfg: cfg, NHdr: nh, NTrl: nt, Sizes: rs, ErrCode: ec, ErrMsg: em, Details: det, ReqSizes: qs})
												}
												continue
											}
											out = append(out, c05OutCase{Cfg: cfg, NHdr: nh, NTrl: nt, Sizes: rs, ErrCode: ec, ErrMsg: em, Details: det, ReqSizes: qs})
											if nh == 0 && nt == 0 && ec == 3 {
												out = append(out, c05OutCase{Cfg: cfg, NHdr: nh, NTrl: nt, Sizes: rs, ErrCode: ec, ErrMsg: em, Details: det, ReqSizes: qs, Proxied: true})
												out = append(out, c05OutCase{Cfg: cfg, NHdr: nh, NTrl: nt, Sizes: rs, ErrCode: ec, ErrMsg: em, Details: det, ReqSizes: qs, Wrapped: true})
											}
										}
									}
								}
							}
						}
					}
				}
			}
		}
	}
	return out
}

func TestC05(t *testing.T) {
	c := ev.New("C05")
	defer func() { _ = c.Finish() }()
	c.SetRule("(i) program enumeration: handler programs {0..2 headers, 0..2 trailers, k messages, nil | error(code, message class, details)} and client programs (k request messages) x {connect,grpc,grpcweb} x {proto,json} x {default, sendgzip, sendmin, custom} x 4 RPC kinds run on the real library; the recorded request and response bytes are decoded by the independent strict decoder refwire (no problems allowed) and must yield the application's messages, status, error, details and metadata; (ii) refwire encodes conformant responses with every combination of the applicable legal variations (trailers-only placement, hex case, base64 padding, trailer-block name casing, omitted empty message, empty metadata object, compressed terminator frame, per-message compression pattern, metadata key casing) and conformant requests (bare content types, per-message compression, timeout forms) and the library must accept them and decode the same values; refwire-encoded traces are validated against the implementation one by one; distinct = full tuple")
	c.Assume("refwire follows the protocol documents as of the pinned commit (DESIGN appendix A); it is cross-checked against itself (encode -> strict decode) on every generated peer")
	if ev.ReplayFile() != "" {
		v, err := ev.LoadReplay(nil)
		if err != nil {
			t.Fatal(err)
		}
		s := string(v.Case)
		switch {
		case strings.Contains(s, `"vary"`):
			var k c05PeerCase
			_, _ = ev.LoadReplay(&k)
			Bubble(t, func() { c05PeerCheck(c, k) })
		case strings.Contains(s, `"bare"`):
			var k c05ReqCase
			_, _ = ev.LoadReplay(&k)
			Bubble(t, func() { c05ReqCheck(c, k) })
		default:
			var k c05OutCase
			_, _ = ev.LoadReplay(&k)
			Bubble(t, func() { c05OutCheck(c, k) })
		}
		return
	}
	thorough := ev.Thorough()
	c05SendFails(t, c)
	// one Request value sent several times, its message replaced in between (incl. by the zero message)
	requestReuse(t, c, "TestC05", []Comp{CompSendGzip, CompSendMin, CompDefault})
	idx := 0
	for _, k := range c05OutCases(thorough) {
		idx++
		if !ev.Mine(idx) {
			continue
		}
		if c.Expired() {
			return
		}
		c.Case(k.key(), true)
		Bubble(t, func() { c05OutCheck(c, k) })
		if idx%2003 == 0 {
			c.Sample(map[string]any{"case": k.key()})
		}
	}
	for _, k := range c05PeerCases(thorough) {
		idx++
		if !ev.Mine(idx) {
			continue
		}
		if c.Expired() {
			return
		}
		c.Case(k.key(), true)
		Bubble(t, func() { c05PeerCheck(c, k) })
		if idx%2003 == 0 {
			c.Sample(map[string]any{"case": k.key()})
		}
	}
	for _, k := range c05ReqCases() {
		idx++
		if !ev.Mine(idx) {
			continue
		}
		if c.Expired() {
			return
		}
		c.Case(k.key(), true)
		Bubble(t, func() { c05ReqCheck(c, k) })
		if idx%503 == 0 {
			c.Sample(map[string]any{"case": k.key()})
		}
	}
}
