// Package ev collects what a worker process explored (counts, distinct case
// keys, outcome classes, samples, violations) and writes it as a shard result
// that cmd/vcheck merges into /verif/evidence/<ID>.json.
package ev

import (
	"encoding/json"
	"fmt"
	"hash/fnv"
	"os"
	"regexp"
	"runtime"
	"sort"
	"strconv"
	"strings"
	"sync"
	"sync/atomic"
	"time"
)

// Violation is one reproduced counterexample.
type Violation struct {
	Property string          `json:"property"`
	Clause   string          `json:"clause"`  // which oracle clause failed
	Outcome  string          `json:"outcome"` // outcome class (code=0, clean-eof, deadlock, ...)
	Tags     []string        `json:"tags"`    // deviation tags of the failing case
	Detail   string          `json:"detail"`
	Test     string          `json:"test"` // go test function that replays Case
	Case     json.RawMessage `json:"case"`
}

// Result is what one worker (shard) reports.
type Result struct {
	Property      string            `json:"property"`
	Shard         int               `json:"shard"`
	Shards        int               `json:"shards"`
	Evaluations   int64             `json:"evaluations"`
	States        int64             `json:"states"`
	Transitions   int64             `json:"transitions"`
	Traces        int64             `json:"traces"`
	DistinctKeys  []uint64          `json:"distinct_keys,omitempty"`
	DistinctCount int64             `json:"distinct_count"` // additive (disjoint across shards by construction)
	Outcomes      map[string]int64  `json:"outcomes"`
	Samples       []any             `json:"samples"`
	Violations    []Violation       `json:"violations"`
	ViolationsN   int64             `json:"violations_n"`
	Exhaustive    bool              `json:"exhaustive"`
	Bounds        map[string]any    `json:"bounds"`
	Extra         map[string]int64  `json:"extra"`
	Rule          string            `json:"rule"`
	Assumptions   []string          `json:"assumptions"`
	HarnessErrors []string          `json:"harness_errors"`
	Notes         map[string]string `json:"notes,omitempty"`
	WallS         float64           `json:"wall_s"`
}

// Collector is safe for concurrent use.
type Collector struct {
	mu       sync.Mutex
	r        Result
	keys     map[uint64]struct{}
	start    time.Time
	deadline time.Time
	maxViol  int

	progress atomic.Int64 // bumped by every counter update (watchdog)
	lastKey  atomic.Value // string: key of the case evaluated last
}

// Env accessors -----------------------------------------------------------

func Tier() string {
	if t := os.Getenv("VERIF_TIER"); t == "thorough" {
		return "thorough"
	}
	return "quick"
}

func Thorough() bool { return Tier() == "thorough" }

func Seed() int64 {
	n, _ := strconv.ParseInt(os.Getenv("VERIF_SEED"), 10, 64)
	return n
}

// Shard returns (index, count).
func Shard() (int, int) {
	s := os.Getenv("VERIF_SHARD")
	if s == "" {
		return 0, 1
	}
	parts := strings.SplitN(s, "/", 2)
	i, _ := strconv.Atoi(parts[0])
	n, _ := strconv.Atoi(parts[1])
	if n <= 0 {
		return 0, 1
	}
	return i, n
}

// Mine reports whether work item i belongs to this shard.
func Mine(i int) bool {
	s, n := Shard()
	return i%n == s
}

// ReplayFile is the path given by --replay ("" when exploring).
func ReplayFile() string { return os.Getenv("VERIF_REPLAY") }

// New creates the collector for a property.  budget is the internal time
// budget after which exploration stops with exhaustive=false (never a verdict).
func New(property string) *Collector {
	s, n := Shard()
	budget := 120 * time.Second
	if Thorough() {
		budget = 30 * time.Minute
	}
	if b := os.Getenv("VERIF_BUDGET_S"); b != "" {
		if v, err := strconv.Atoi(b); err == nil && v > 0 {
			budget = time.Duration(v) * time.Second
		}
	}
	now := time.Now()
	c := &Collector{
		r: Result{
			Property: property, Shard: s, Shards: n,
			Outcomes: map[string]int64{}, Bounds: map[string]any{}, Extra: map[string]int64{},
			Exhaustive: true, Notes: map[string]string{},
		},
		keys:     map[uint64]struct{}{},
		start:    now,
		deadline: now.Add(budget),
		maxViol:  40,
	}
	if ReplayFile() == "" {
		go c.watchdog()
	}
	return c
}

// ticks counts units of work that the collectors' own counters do not see
// (single executions of a scheduler-driven exploration); see Tick.
var ticks atomic.Int64

// Tick tells the watchdog that the worker is making progress.
func Tick() { ticks.Add(1) }

var goroutineHeadRe = regexp.MustCompile(`^goroutine (\d+) \[([a-z ]+)`)

// spinningLibraryGoroutines returns, per goroutine id, the dump of every
// goroutine that is running or runnable (not blocked) with a frame of the
// library on its stack.
func spinningLibraryGoroutines() map[string]string {
	buf := make([]byte, 8<<20)
	buf = buf[:runtime.Stack(buf, true)]
	out := map[string]string{}
	for _, g := range strings.Split(string(buf), "\n\n") {
		m := goroutineHeadRe.FindStringSubmatch(g)
		if m == nil || (m[2] != "running" && m[2] != "runnable") {
			continue
		}
		if !strings.Contains(g, "github.com/bufbuild/connect-go.") {
			continue
		}
		out[m[1]] = g
	}
	return out
}

// watchdog decides the one kind of non-termination that a synctest bubble
// cannot: a goroutine that never blocks (a loop that makes no progress keeps
// the bubble from ever becoming quiescent, so the explorer itself stands
// still).  It runs outside every bubble, on the wall clock, and is not an
// oracle by elapsed time alone: when no counter of the collector has moved for
// a long time (90 s quick, 10 min thorough; a case normally takes milli-
// seconds), it takes three goroutine dumps 3 s apart and reports clause
// "terminates", outcome "livelock" only if one and the same goroutine is
// running or runnable, inside the library, in all three.  Otherwise the run is
// marked non-exhaustive.  Either way the shard result is written and the
// worker ends.
func (c *Collector) watchdog() {
	stall := 90 * time.Second
	if Thorough() {
		stall = 10 * time.Minute
	}
	if v, err := strconv.Atoi(os.Getenv("VERIF_STALL_S")); err == nil && v > 0 {
		stall = time.Duration(v) * time.Second
	}
	progress := func() int64 { return c.progress.Load() + ticks.Load() }
	last, since := progress(), time.Now()
	for {
		time.Sleep(5 * time.Second)
		if p := progress(); p != last {
			last, since = p, time.Now()
			continue
		}
		if time.Since(since) < stall {
			continue
		}
		a := spinningLibraryGoroutines()
		time.Sleep(3 * time.Second)
		b := spinningLibraryGoroutines()
		time.Sleep(3 * time.Second)
		d := spinningLibraryGoroutines()
		if progress() != last {
			last, since = progress(), time.Now()
			continue
		}
		key, _ := c.lastKey.Load().(string)
		spinning := ""
		for id, dump := range d {
			if _, ok := a[id]; ok {
				if _, ok := b[id]; ok {
					spinning = dump
					break
				}
			}
		}
		if spinning != "" {
			c.NotExhaustive(fmt.Sprintf("the worker stopped at a livelock in case %q", key))
			c.Violation("Test"+c.r.Property, "terminates", "livelock", []string{"watchdog"}, map[string]string{"last_case_key": key},
				"no progress for %v; in case %q a goroutine has been running inside the library, without ever blocking, through three dumps taken 3 s apart:\n%s", stall, key, spinning)
			fmt.Printf("worker: livelock in %s; exiting after recording it\n", key)
		} else {
			c.NotExhaustive(fmt.Sprintf("no progress for %v in case %q and no goroutine spinning inside the library: stopped", stall, key))
			fmt.Printf("worker: stalled in %s; exiting as non-exhaustive\n", key)
		}
		_ = c.Finish()
		os.Exit(0)
	}
}

// Expired reports that the time budget is used up; callers stop exploring and
// the result is marked non-exhaustive.
func (c *Collector) Expired() bool {
	if time.Now().After(c.deadline) {
		c.mu.Lock()
		c.r.Exhaustive = false
		c.r.Notes["budget"] = "time budget expired before the space was completed"
		c.mu.Unlock()
		return true
	}
	return false
}

func (c *Collector) SetRule(rule string) { c.mu.Lock(); c.r.Rule = rule; c.mu.Unlock() }
func (c *Collector) Assume(a ...string) {
	c.mu.Lock()
	c.r.Assumptions = append(c.r.Assumptions, a...)
	c.mu.Unlock()
}
func (c *Collector) Bound(k string, v any) { c.mu.Lock(); c.r.Bounds[k] = v; c.mu.Unlock() }
func (c *Collector) Note(k, v string)      { c.mu.Lock(); c.r.Notes[k] = v; c.mu.Unlock() }
func (c *Collector) NotExhaustive(why string) {
	c.mu.Lock()
	c.r.Exhaustive = false
	c.r.Notes["not_exhaustive"] = why
	c.mu.Unlock()
}
func (c *Collector) AddStates(n int64) {
	c.progress.Add(1)
	c.mu.Lock()
	c.r.States += n
	c.mu.Unlock()
}
func (c *Collector) AddTransitions(n int64) {
	c.progress.Add(1)
	c.mu.Lock()
	c.r.Transitions += n
	c.mu.Unlock()
}
func (c *Collector) AddTraces(n int64)          { c.mu.Lock(); c.r.Traces += n; c.mu.Unlock() }
func (c *Collector) AddExtra(k string, n int64) { c.mu.Lock(); c.r.Extra[k] += n; c.mu.Unlock() }
func (c *Collector) AddDistinct(n int64)        { c.mu.Lock(); c.r.DistinctCount += n; c.mu.Unlock() }
func (c *Collector) AddEvaluations(n int64) {
	c.progress.Add(1)
	c.mu.Lock()
	c.r.Evaluations += n
	c.mu.Unlock()
}

// Case counts one evaluated case; key identifies it canonically; nontrivial
// says whether it counts towards distinct_nontrivial.
func (c *Collector) Case(key string, nontrivial bool) {
	c.progress.Add(1)
	c.lastKey.Store(key)
	c.mu.Lock()
	c.r.Evaluations++
	if nontrivial {
		c.keys[Hash(key)] = struct{}{}
	}
	c.mu.Unlock()
}

func (c *Collector) Outcome(class string) {
	c.progress.Add(1)
	c.mu.Lock()
	c.r.Outcomes[class]++
	c.mu.Unlock()
}

// Sample keeps up to 6 written-out cases.
func (c *Collector) Sample(x any) {
	c.mu.Lock()
	if len(c.r.Samples) < 6 {
		c.r.Samples = append(c.r.Samples, x)
	}
	c.mu.Unlock()
}

func (c *Collector) HarnessError(format string, args ...any) {
	c.mu.Lock()
	if len(c.r.HarnessErrors) < 20 {
		c.r.HarnessErrors = append(c.r.HarnessErrors, fmt.Sprintf(format, args...))
	}
	c.mu.Unlock()
}

// Violation records a counterexample (Case must be JSON-serialisable so that
// --replay can run it again).
func (c *Collector) Violation(test, clause, outcome string, tags []string, kase any, format string, args ...any) {
	raw, err := json.Marshal(kase)
	if err != nil {
		raw = []byte(`"unserialisable case"`)
	}
	sorted := append([]string(nil), tags...)
	sort.Strings(sorted)
	c.mu.Lock()
	c.r.ViolationsN++
	if len(c.r.Violations) < c.maxViol {
		// keep one per (clause, outcome, tags) signature
		dup := false
		for _, v := range c.r.Violations {
			if v.Clause == clause && v.Outcome == outcome && strings.Join(v.Tags, ",") == strings.Join(sorted, ",") {
				dup = true
				break
			}
		}
		if !dup {
			c.r.Violations = append(c.r.Violations, Violation{
				Property: c.r.Property, Clause: clause, Outcome: outcome, Tags: sorted,
				Detail: fmt.Sprintf(format, args...), Test: test, Case: raw,
			})
		}
	}
	c.mu.Unlock()
}

func (c *Collector) ViolationCount() int64 { c.mu.Lock(); defer c.mu.Unlock(); return c.r.ViolationsN }

// Finish writes the shard result to $VERIF_OUT (or stdout when unset).
func (c *Collector) Finish() error {
	c.mu.Lock()
	defer c.mu.Unlock()
	c.r.WallS = time.Since(c.start).Seconds()
	c.r.DistinctKeys = c.r.DistinctKeys[:0]
	for k := range c.keys {
		c.r.DistinctKeys = append(c.r.DistinctKeys, k)
	}
	sort.Slice(c.r.DistinctKeys, func(i, j int) bool { return c.r.DistinctKeys[i] < c.r.DistinctKeys[j] })
	data, err := json.Marshal(&c.r)
	if err != nil {
		return err
	}
	out := os.Getenv("VERIF_OUT")
	if out == "" {
		summary := c.r
		summary.DistinctKeys = nil
		summary.DistinctCount += int64(len(c.keys))
		data, _ = json.MarshalIndent(&summary, "", " ")
		fmt.Println(string(data))
		return nil
	}
	return os.WriteFile(out, data, 0o644)
}

func Hash(s string) uint64 {
	h := fnv.New64a()
	_, _ = h.Write([]byte(s))
	return h.Sum64()
}

// LoadReplay decodes the case of a replay file into v and returns the
// violation record.
func LoadReplay(v any) (*Violation, error) {
	data, err := os.ReadFile(ReplayFile())
	if err != nil {
		return nil, err
	}
	var viol Violation
	if err := json.Unmarshal(data, &viol); err != nil {
		return nil, err
	}
	if v != nil {
		if err := json.Unmarshal(viol.Case, v); err != nil {
			return nil, err
		}
	}
	return &viol, nil
}
