package props

import (
	"context"
	"fmt"
	"strings"
	"testing"

	connect "github.com/bufbuild/connect-go"

	"verifharness/ev"
	"verifharness/memhttp"
	"verifharness/refwire"
)

// c08RequestReuse: one *connect.Request value is sent several times through a
// client that compresses messages of at least MinBytes bytes, its message
// being replaced in place between the calls by one on the other side of the
// threshold (a retry loop with an updated message, or a Request template).
// Every call must succeed with the right echo, and on the wire a body is
// announced as compressed exactly when it is.
func c08RequestReuse(t *testing.T, c *ev.Collector) {
	requestReuse(t, c, "TestC08", []Comp{CompSendMin})
}

// requestReuse is shared with C05 (test = "TestC05": the recorded request of
// every call must decode under refwire whatever the Request value went through
// before), there also with a client that compresses every message.
func requestReuse(t *testing.T, c *ev.Collector, test string, comps []Comp) {
	idx := 0
	for _, p := range AllProtos {
		for _, comp := range comps {
			for _, sizes := range [][]int{{MinBytes + 200, 5}, {5, MinBytes + 200}, {MinBytes + 200, 5, MinBytes + 300}, {MinBytes + 200, MinBytes - 1, 0}, {MinBytes + 200, 0}, {0, MinBytes + 200, 0, 0}} {
				idx++
				if !ev.Mine(idx) {
					continue
				}
				key := fmt.Sprintf("request-reuse/%s/unary/sizes%v", p, sizes)
				if comp != CompSendMin {
					key += "/" + string(comp)
				}
				c.Case(key, true)
				Bubble(t, func() {
					h := NewHandler(KUnary, func(ctx context.Context, s HStream) error {
						m, err := s.Receive()
						if err != nil {
							return err
						}
						return s.Send(&BV{Value: append([]byte{'r'}, m.Value...)})
					})
					tr := &memhttp.Transport{Handler: h, Proto: 2, SyncCloseReq: true}
					cl := NewClient(tr, Cfg{Proto: p, Comp: comp, Kind: KUnary, HTTP: 2})
					req := connect.NewRequest(&BV{})
					tags := []string{"proto=" + p.String(), "kind=unary", "request-reused"}
					bad := false
					for i, sz := range sizes {
						req.Msg.Value = Payload(sz, byte('a'+i))
						var res *connect.Response[BV]
						var err error
						g := Guarded(func() { res, err = cl.CallUnary(context.Background(), req) }, tr)
						c.AddTransitions(3)
						c.AddStates(3)
						c.AddTraces(1)
						if g.Hung || g.Panicked {
							c.Violation(test, "terminates", "hang-or-panic", tags, key, "%s: call %d hung=%v panic=%v", key, i+1, g.Hung, g.Panic)
							c.Outcome("violation")
							BailIfStuck(c, g)
							return
						}
						if err != nil || string(res.Msg.Value) != "r"+string(req.Msg.Value) {
							bad = true
							c.Violation(test, "lossless", "call-failed", tags, key, "%s: call %d (message of %d encoded bytes, threshold %d, same Request value as the calls before): %v", key, i+1, sz, MinBytes, err)
							break
						}
						ex := tr.Last()
						encH, _ := encHeaders(p, KUnary)
						rq := refwire.DecodeRequest(wireProto(p), true, "POST", ex.ReqHeader, ex.ReqBody, true, AnyDecompress)
						if len(rq.Problems) > 0 {
							bad = true
							c.Violation(test, "flag-consistent", "request-problem", tags, key, "%s: call %d: %s=%q, request does not decode: %v", key, i+1, encH, ex.ReqHeader.Get(encH), rq.Problems)
							break
						}
						if comp == CompSendMin && sz < MinBytes && p == PConnect && strings.TrimSpace(ex.ReqHeader.Get(encH)) != "" && ex.ReqHeader.Get(encH) != "identity" {
							bad = true
							c.Violation(test, "small-uncompressed", "announced-compressed", tags, key, "%s: call %d: a %d-byte message (threshold %d) went out with %s=%q", key, i+1, sz, MinBytes, encH, ex.ReqHeader.Get(encH))
							break
						}
					}
					if bad {
						c.Outcome("violation")
					} else {
						c.Outcome("ok")
					}
				})
			}
		}
	}
}

// c08NilConstructors: WithCompression / WithAcceptCompression with nil
// constructors are documented no-ops: a handler or client configured with them
// behaves as one configured without (differential oracle: same messages, no
// error, no panic), for the name of the default algorithm and for a new name.
func c08NilConstructors(t *testing.T, c *ev.Collector) {
	idx := 0
	for _, p := range AllProtos {
		for _, kind := range []Kind{KUnary, KServer, KClient} {
			for _, name := range []string{"gzip", "br"} {
				for _, side := range []string{"handler", "client"} {
					for _, comp := range []Comp{CompDefault, CompSendGzip} {
						idx++
						if !ev.Mine(idx) {
							continue
						}
						key := fmt.Sprintf("nil-constructors/%s/%s/%s/%s/%s", p, kind, name, side, comp)
						c.Case(key, true)
						Bubble(t, func() {
							cfg := Cfg{Proto: p, Comp: comp, Kind: kind, HTTP: 2}
							var hopts []connect.HandlerOption
							var copts []connect.ClientOption
							if side == "handler" {
								hopts = append(hopts, connect.WithCompression(name, nil, nil))
							} else {
								copts = append(copts, connect.WithAcceptCompression(name, nil, nil))
							}
							h := NewHandler(kind, func(ctx context.Context, s HStream) error {
								n := 0
								for {
									if _, err := s.Receive(); err != nil {
										break
									}
									n++
								}
								return s.Send(&BV{Value: Payload(700, byte('a'+n))})
							}, append(cfg.HandlerOptions(), hopts...)...)
							tr := &memhttp.Transport{Handler: h, Proto: 2, SyncCloseReq: true}
							cl := NewClient(tr, cfg, copts...)
							var res CallResult
							g := Guarded(func() { res = RunCall(context.Background(), cl, kind, [][]byte{Payload(600, 'q')}, nil) }, tr)
							c.AddTransitions(3)
							c.AddStates(3)
							c.AddTraces(1)
							tags := []string{"proto=" + p.String(), "kind=" + kind.String(), "nil-constructors"}
							ex := tr.Last()
							switch {
							case g.Hung || g.Panicked:
								c.Violation("TestC08", "documented-no-op", "hang-or-panic", tags, key, "%s: hung=%v panic=%v\n%s", key, g.Hung, g.Panic, g.Stack)
								BailIfStuck(c, g)
							case ex != nil && ex.Panicked:
								c.Violation("TestC08", "documented-no-op", "handler-panic", tags, key, "%s: the handler panicked: %v (client saw %v)", key, ex.Panic, res.Err)
							case res.Err != nil || len(res.Msgs) != 1 || len(res.Msgs[0]) == 0:
								c.Violation("TestC08", "documented-no-op", "call-failed", tags, key, "%s: err=%v messages=%d; without the option the call succeeds", key, res.Err, len(res.Msgs))
							default:
								c.Outcome("ok")
							}
						})
					}
				}
			}
		}
	}
}

// c08TwoClients: one *connect.Request value goes through client A and then
// through client B (different compression settings, same handler with the
// library's defaults): what A wrote into the caller's header map - the
// algorithm it compressed with, the algorithms it accepts - says nothing about
// B.  Differential oracle: B's outcome with the reused Request equals B's
// outcome with a fresh one, and B's request decodes cleanly.
func c08TwoClients(t *testing.T, c *ev.Collector) {
	idx := 500
	pairs := [][2]Comp{{CompCustom, CompDefault}, {CompCustom, CompNone}, {CompSendGzip, CompNone}, {CompDefault, CompNone}, {CompSendGzip, CompDefault}, {CompNone, CompSendGzip}}
	for _, p := range AllProtos {
		for _, pair := range pairs {
			idx++
			if !ev.Mine(idx) {
				continue
			}
			key := fmt.Sprintf("two-clients/%s/unary/%s-then-%s", p, pair[0], pair[1])
			c.Case(key, true)
			Bubble(t, func() {
				h := NewHandler(KUnary, func(ctx context.Context, s HStream) error {
					m, err := s.Receive()
					if err != nil {
						return err
					}
					return s.Send(&BV{Value: append([]byte{'r'}, m.Value...)})
				})
				tr := &memhttp.Transport{Handler: h, Proto: 2, SyncCloseReq: true}
				a := NewClient(tr, Cfg{Proto: p, Comp: pair[0], Kind: KUnary, HTTP: 2})
				b := NewClient(tr, Cfg{Proto: p, Comp: pair[1], Kind: KUnary, HTTP: 2})
				tags := []string{"proto=" + p.String(), "kind=unary", "request-reused", "two-clients"}
				call := func(cl *connect.Client[BV, BV], req *connect.Request[BV]) (string, bool) {
					var res *connect.Response[BV]
					var err error
					g := Guarded(func() { res, err = cl.CallUnary(context.Background(), req) }, tr)
					c.AddTransitions(3)
					c.AddStates(3)
					c.AddTraces(1)
					if g.Hung || g.Panicked {
						c.Violation("TestC08", "terminates", "hang-or-panic", tags, key, "%s: hung=%v panic=%v", key, g.Hung, g.Panic)
						BailIfStuck(c, g)
						return "", false
					}
					if err != nil {
						return "error " + errString(err), true
					}
					return "ok " + shortBytes(res.Msg.Value), true
				}
				payload := Payload(MinBytes+200, 'q')
				fresh, ok := call(b, connect.NewRequest(&BV{Value: payload}))
				if !ok {
					c.Outcome("violation")
					return
				}
				req := connect.NewRequest(&BV{Value: payload})
				if _, ok := call(a, req); !ok {
					c.Outcome("violation")
					return
				}
				reused, ok := call(b, req)
				if !ok {
					c.Outcome("violation")
					return
				}
				if reused != fresh {
					c.Violation("TestC08", "client-independent", "differs", tags, key, "%s: the second client's call with a Request that went through the first client before: %s; with a fresh Request: %s", key, clip(reused, 200), clip(fresh, 200))
					c.Outcome("violation")
					return
				}
				ex := tr.Last()
				rq := refwire.DecodeRequest(wireProto(p), true, "POST", ex.ReqHeader, ex.ReqBody, true, AnyDecompress)
				if len(rq.Problems) > 0 {
					c.Violation("TestC08", "flag-consistent", "request-problem", tags, key, "%s: the second client's request does not decode: %v", key, rq.Problems)
					c.Outcome("violation")
					return
				}
				c.Outcome("ok")
			})
		}
	}
}
