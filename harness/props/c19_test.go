package props

import (
	"context"
	"errors"
	"fmt"
	"io"
	"net/http"
	"os"
	"reflect"
	"runtime"
	"strings"
	"testing"
	"time"

	connect "github.com/bufbuild/connect-go"

	"verifharness/ev"
	"verifharness/memhttp"
)

// C19 — handler panics are converted by WithRecover exactly as configured.
//
// Engine: configuration x program enumeration on the real handlers: panic
// value x RPC kind x protocol x panic point x position of WithRecover among
// other interceptors x {panic, no panic} x both panic(nil) runtime semantics.

type c19Case struct {
	Proto    Proto  `json:"proto"`
	Kind     Kind   `json:"kind"`
	Value    string `json:"value"`    // nil | error | string | struct | pointer | abort | wrapped-abort | none
	Point    int    `json:"point"`    // 0 before first receive/send, 1 after the first send, 2 after the last send
	Before   int    `json:"before"`   // interceptors declared before WithRecover
	After    int    `json:"after"`    // interceptors declared after WithRecover
	PanicNil bool   `json:"panicnil"` // GODEBUG=panicnil=1 (recover() returns nil for panic(nil))
	// Ret is what the recovery function returns: "" coded error | uncoded |
	// wrapped-coded | ctx-deadline | coded-meta
	Ret string `json:"ret,omitempty"`
	// KeepOpen (bidi, point 0): the client sends one message and waits in
	// Receive with its request side still open; it half-closes only after
	// Receive has returned.
	KeepOpen bool `json:"keep_open,omitempty"`
	// Forward (unary, point 0): a gateway handler: it passes the *connect.Request
	// it received to an upstream client and panics afterwards.
	Forward bool `json:"forward,omitempty"`
}

func (k c19Case) key() string {
	if k.Forward {
		return fmt.Sprintf("%s/%s/%s/p%d/b%da%d/panicnil=%v/ret=%s/forwards-its-request", k.Proto, k.Kind, k.Value, k.Point, k.Before, k.After, k.PanicNil, k.Ret)
	}
	if k.KeepOpen {
		return fmt.Sprintf("%s/%s/%s/p%d/b%da%d/panicnil=%v/ret=%s/request-kept-open", k.Proto, k.Kind, k.Value, k.Point, k.Before, k.After, k.PanicNil, k.Ret)
	}
	if k.Ret != "" {
		return fmt.Sprintf("%s/%s/%s/p%d/b%da%d/panicnil=%v/ret=%s", k.Proto, k.Kind, k.Value, k.Point, k.Before, k.After, k.PanicNil, k.Ret)
	}
	return fmt.Sprintf("%s/%s/%s/p%d/b%da%d/panicnil=%v", k.Proto, k.Kind, k.Value, k.Point, k.Before, k.After, k.PanicNil)
}

// c19RecoveryError is the error the recovery function returns on its n-th call.
func c19RecoveryError(ret string, n int, recovered any) error {
	coded := connect.NewError(connect.CodeDataLoss, fmt.Errorf("recovered #%d", n))
	switch ret {
	case "uncoded":
		return fmt.Errorf("plain recovered #%d", n)
	case "wrapped-coded":
		return fmt.Errorf("outer: %w", coded)
	case "ctx-deadline":
		return fmt.Errorf("late #%d: %w", n, context.DeadlineExceeded)
	case "coded-wraps-cause":
		// the usual shape of a recovery function: keep the panic's cause in the chain
		if cause, ok := recovered.(error); ok {
			return connect.NewError(connect.CodeDataLoss, fmt.Errorf("recovered #%d: %w", n, cause))
		}
		return coded
	case "long":
		// what a recovery function that includes a stack trace returns
		return connect.NewError(connect.CodeDataLoss, fmt.Errorf("recovered #%d: %s", n, strings.Repeat("goroutine 7 [running]: main.handler(...) ", 120)))
	case "coded-meta":
		coded.Meta().Add("X-Err", "m1")
		coded.Meta().Add("X-Err", "m2")
		return coded
	}
	return coded
}

type c19Struct struct{ A int }

var c19Ptr = &c19Struct{7}
var c19Err = errors.New("boom error")
var c19Wrapped = fmt.Errorf("wrapped: %w", http.ErrAbortHandler)
var c19WrappedEOF = fmt.Errorf("read request: %w", io.EOF)

func c19Value(name string) any {
	switch name {
	case "nil":
		return nil
	case "error":
		return c19Err
	case "string":
		return "boom string"
	case "struct":
		return c19Struct{3}
	case "pointer":
		return c19Ptr
	case "eof":
		return io.EOF
	case "wrapped-eof":
		return c19WrappedEOF
	case "abort":
		return http.ErrAbortHandler
	case "wrapped-abort":
		return c19Wrapped
	case "slice": // values of types that cannot be compared or used as map keys
		return c19Slice
	case "map":
		return c19Map
	case "struct-slice":
		return c19Unhashable{N: 5, S: c19Slice}
	}
	return nil
}

type c19Unhashable struct {
	N int
	S []string
}

var c19Slice = []string{"boom", "slice"}
var c19Map = map[string]int{"boom": 1}

// c19SameValue: identity for comparable values, deep equality for the others (== would panic).
func c19SameValue(r, want any) bool {
	if want != nil && !reflect.TypeOf(want).Comparable() {
		return reflect.DeepEqual(r, want)
	}
	if r != nil && !reflect.TypeOf(r).Comparable() {
		return false
	}
	return r == want
}

type passI struct{ n *int }

func (p passI) WrapUnary(next connect.UnaryFunc) connect.UnaryFunc {
	return func(ctx context.Context, r connect.AnyRequest) (connect.AnyResponse, error) {
		*p.n++
		return next(ctx, r)
	}
}
func (p passI) WrapStreamingClient(next connect.StreamingClientFunc) connect.StreamingClientFunc {
	return next
}
func (p passI) WrapStreamingHandler(next connect.StreamingHandlerFunc) connect.StreamingHandlerFunc {
	return func(ctx context.Context, c connect.StreamingHandlerConn) error {
		*p.n++
		return next(ctx, c)
	}
}

type c19Result struct {
	Res        CallResult
	Recovered  []any
	Panicked   bool
	PanicValue any
	Guard      GuardResult
}

// c19Run performs one call.  withRecover=false builds the same handler
// without WithRecover (reference for non-panicking calls).
func c19Run(k c19Case, withRecover bool) c19Result { return c19RunMode(k, withRecover, false) }

// c19RunMode: with returnInstead the handler does not panic but returns the
// recovery function's error at the same point (differential reference for
// "the client receives the error that function returned").
func c19RunMode(k c19Case, withRecover, returnInstead bool) c19Result {
	var out c19Result
	passes := 0
	var opts []connect.HandlerOption
	for i := 0; i < k.Before; i++ {
		opts = append(opts, connect.WithInterceptors(passI{&passes}))
	}
	if withRecover {
		opts = append(opts, connect.WithRecover(func(ctx context.Context, spec connect.Spec, hdr http.Header, r any) error {
			out.Recovered = append(out.Recovered, r)
			return c19RecoveryError(k.Ret, len(out.Recovered), r)
		}))
	}
	for i := 0; i < k.After; i++ {
		opts = append(opts, connect.WithInterceptors(passI{&passes}))
	}
	doPanic := func(at int) error {
		if k.Value != "none" && k.Value != "none-err" && k.Point == at {
			if returnInstead {
				return c19RecoveryError(k.Ret, 1, c19Value(k.Value))
			}
			panic(c19Value(k.Value))
		}
		return nil
	}
	h0 := NewHandler(k.Kind, func(ctx context.Context, s HStream) error {
		if err := doPanic(0); err != nil {
			return err
		}
		if k.Value == "none-err" && k.Point == 0 {
			return connect.NewError(connect.CodeInvalidArgument, errors.New("plain failure, no panic"))
		}
		for {
			if _, err := s.Receive(); err != nil {
				if !errors.Is(err, io.EOF) {
					return err
				}
				break
			}
		}
		if err := s.Send(&BV{Value: []byte{'h', 0}}); err != nil {
			return err
		}
		if err := doPanic(1); err != nil {
			return err
		}
		if k.Value == "none-err" && k.Point == 1 {
			return connect.NewError(connect.CodeInvalidArgument, errors.New("plain failure, no panic"))
		}
		if k.Kind.ServerStreams() {
			if err := s.Send(&BV{Value: []byte{'h', 1}}); err != nil {
				return err
			}
		}
		return doPanic(2)
	}, opts...)
	var h http.Handler = h0
	var upTr *memhttp.Transport
	if k.Forward {
		upstream := NewHandler(KUnary, func(ctx context.Context, s HStream) error { return s.Send(&BV{Value: []byte{'u'}}) })
		upTr = &memhttp.Transport{Handler: upstream, Proto: 2, SyncCloseReq: true}
		up := NewClient(upTr, Cfg{Proto: PConnect, Comp: CompNone})
		h = connect.NewUnaryHandler(Procedure, func(ctx context.Context, req *connect.Request[BV]) (*connect.Response[BV], error) {
			_, _ = up.CallUnary(ctx, req) // the very Request value this handler was given
			if err := doPanic(0); err != nil {
				return nil, err
			}
			return connect.NewResponse(&BV{Value: []byte{'h', 0}}), nil
		}, opts...)
	}
	tr := &memhttp.Transport{Handler: h, Proto: 2, SyncCloseReq: true}
	cl := NewClient(tr, Cfg{Proto: k.Proto, Comp: CompNone})
	out.Guard = Guarded(func() {
		if k.KeepOpen {
			st := cl.CallBidiStream(context.Background())
			if err := st.Send(&BV{Value: []byte{1}}); err != nil && !errors.Is(err, io.EOF) {
				out.Res.Err = err
			}
			for out.Res.Err == nil {
				m, err := st.Receive()
				if err != nil {
					if !errors.Is(err, io.EOF) {
						out.Res.Err = err
					} else {
						out.Res.EndErr = err
					}
					break
				}
				out.Res.Msgs = append(out.Res.Msgs, MsgBytes(m))
			}
			out.Res.Header, out.Res.Trailer = st.ResponseHeader(), st.ResponseTrailer()
			_ = st.CloseRequest()
			_ = st.CloseResponse()
			return
		}
		out.Res = RunCall(context.Background(), cl, k.Kind, [][]byte{{1}}, nil)
	}, tr)
	if ex := tr.Last(); ex != nil {
		out.Panicked, out.PanicValue = ex.Panicked, ex.Panic
	}
	return out
}

func c19Check(c *ev.Collector, k c19Case) {
	if k.PanicNil {
		os.Setenv("GODEBUG", "panicnil=1")
	} else {
		os.Setenv("GODEBUG", "panicnil=0")
	}
	defer os.Setenv("GODEBUG", "")
	got := c19Run(k, true)
	tags := []string{"proto=" + k.Proto.String(), "kind=" + k.Kind.String(), "value=" + k.Value}
	viol := func(clause, outcome, format string, args ...any) {
		c.Violation("TestC19", clause, outcome, tags, k, "%s: "+format, append([]any{k.key()}, args...)...)
	}
	c.AddTransitions(4)
	c.AddStates(4)
	c.AddTraces(1)
	if got.Guard.Hung || got.Guard.Panicked {
		viol("terminates", "hang-or-client-panic", "hung=%v panic=%v\n%s", got.Guard.Hung, got.Guard.Panic, got.Guard.Stack)
		c.Outcome("violation")
		BailIfStuck(c, got.Guard)
		return
	}
	bad := false
	switch k.Value {
	case "none", "none-err":
		ref := c19Run(k, false)
		if obsString(ref.Res) != obsString(got.Res) || len(got.Recovered) != 0 || got.Panicked {
			bad = true
			viol("non-panicking-unaffected", "differs", "with WithRecover: %s (recovery calls %d); without: %s", obsString(got.Res), len(got.Recovered), obsString(ref.Res))
		}
	case "abort":
		if len(got.Recovered) != 0 {
			bad = true
			viol("abort-untouched", "recovered", "recovery function was called %d times for http.ErrAbortHandler", len(got.Recovered))
		}
		if !got.Panicked || got.PanicValue != http.ErrAbortHandler {
			bad = true
			viol("abort-untouched", "not-reraised", "ServeHTTP did not re-panic with http.ErrAbortHandler (panicked=%v value=%v)", got.Panicked, got.PanicValue)
		}
	default:
		if len(got.Recovered) != 1 {
			bad = true
			viol("recovered-once", fmt.Sprintf("calls=%d", len(got.Recovered)), "recovery function called %d times (ServeHTTP panicked=%v value=%v); client: %s", len(got.Recovered), got.Panicked, got.PanicValue, obsString(got.Res))
		} else {
			r := got.Recovered[0]
			want := c19Value(k.Value)
			okValue := c19SameValue(r, want)
			if k.Value == "nil" {
				_, isNilErr := r.(*runtime.PanicNilError)
				if k.PanicNil {
					okValue = r == nil
				} else {
					okValue = isNilErr
				}
			}
			if !okValue {
				bad = true
				viol("recovered-value", "wrong-value", "recovery function received %T %v, want %T %v", r, r, want, want)
			}
		}
		if got.Panicked {
			bad = true
			viol("recovered-once", "escaped", "the panic escaped ServeHTTP: %v", got.PanicValue)
		}
		// differential: same observation as a handler that returns that error itself
		ref := c19RunMode(k, false, true)
		if obsString(ref.Res) != obsString(got.Res) {
			bad = true
			viol("client-gets-recovery-error", "differs-from-returned", "recovery function returned %q; client observed %s; a handler returning that error at the same point gives %s", c19RecoveryError(k.Ret, 1, c19Value(k.Value)), obsString(got.Res), obsString(ref.Res))
		}
		var ce *connect.Error
		if k.Ret == "uncoded" {
			if got.Res.Err == nil || !errors.As(got.Res.Err, &ce) || ce.Code() != connect.CodeUnknown || ce.Message() != "plain recovered #1" {
				bad = true
				viol("client-gets-recovery-error", "wrong-error", "client received %v (msgs %s); want unknown: plain recovered #1", got.Res.Err, shortMsgs(got.Res.Msgs))
			}
		} else if k.Ret == "ctx-deadline" {
			if connect.CodeOf(got.Res.Err) != connect.CodeDeadlineExceeded {
				bad = true
				viol("client-gets-recovery-error", "wrong-error", "client received %v; want deadline_exceeded", got.Res.Err)
			}
		} else if k.Ret == "long" {
			want := c19RecoveryError("long", 1, nil)
			if got.Res.Err == nil || !errors.As(got.Res.Err, &ce) || ce.Code() != connect.CodeDataLoss || "data_loss: "+ce.Message() != want.Error() {
				bad = true
				viol("client-gets-recovery-error", "wrong-error", "client received %s; want the recovery function's %d-byte message unchanged", clip(fmt.Sprint(got.Res.Err), 120), len(want.Error()))
			}
		} else if k.Ret == "coded-wraps-cause" {
			if got.Res.Err == nil || !errors.As(got.Res.Err, &ce) || ce.Code() != connect.CodeDataLoss || !strings.HasPrefix(ce.Message(), "recovered #1: ") {
				bad = true
				viol("client-gets-recovery-error", "wrong-error", "client received %v (msgs %s); want data_loss: recovered #1: <cause>", got.Res.Err, shortMsgs(got.Res.Msgs))
			}
		} else if got.Res.Err == nil || !errors.As(got.Res.Err, &ce) || ce.Code() != connect.CodeDataLoss || !strings.HasSuffix(ce.Message(), "recovered #1") {
			bad = true
			viol("client-gets-recovery-error", "wrong-error", "client received %v (msgs %s); want data_loss: recovered #1", got.Res.Err, shortMsgs(got.Res.Msgs))
		}
		// messages sent before the panic are still delivered on streaming responses
		if k.Kind.ServerStreams() && k.Point > 0 && got.Res.Err != nil {
			wantMsgs := k.Point
			if len(got.Res.Msgs) != wantMsgs {
				bad = true
				viol("messages-before-panic", "lost", "client received %d messages before the error, handler had sent %d", len(got.Res.Msgs), wantMsgs)
			}
		}
	}
	if bad {
		c.Outcome("violation")
	} else {
		c.Outcome("ok")
	}
}

func c19Cases(thorough bool) []c19Case {
	values := []string{"nil", "error", "string", "struct", "pointer", "abort", "wrapped-abort", "none", "none-err", "eof", "wrapped-eof", "slice", "map", "struct-slice"}
	var out []c19Case
	for _, p := range AllProtos {
		for _, kind := range AllKinds {
			for _, v := range values {
				points := []int{0, 1, 2}
				if v == "none" {
					points = []int{0}
				}
				if v == "none-err" {
					points = []int{0, 1}
				}
				for _, pt := range points {
					if !kind.ServerStreams() && pt == 2 {
						continue // single-response kinds: after the (only) response == point 1
					}
					for before := 0; before <= 2; before++ {
						for after := 0; after <= 2-before; after++ {
							if !thorough && before+after == 2 && before == 1 {
								continue
							}
							for _, pn := range []bool{false, true} {
								out = append(out, c19Case{Proto: p, Kind: kind, Value: v, Point: pt, Before: before, After: after, PanicNil: pn})
								if kind == KUnary && pt == 0 && v != "none" && v != "none-err" {
									out = append(out, c19Case{Proto: p, Kind: kind, Value: v, Point: pt, Before: before, After: after, PanicNil: pn, Forward: true})
								}
								if kind == KBidi && pt == 0 && v != "none" && before+after <= 1 {
									out = append(out, c19Case{Proto: p, Kind: kind, Value: v, Point: pt, Before: before, After: after, PanicNil: pn, KeepOpen: true})
								}
								if (v == "eof" || v == "wrapped-eof") && before+after <= 1 {
									out = append(out, c19Case{Proto: p, Kind: kind, Value: v, Point: pt, Before: before, After: after, PanicNil: pn, Ret: "coded-wraps-cause"})
								}
								if (v == "string" || v == "nil" || (thorough && v == "error")) && (thorough || before+after <= 1) {
									for _, ret := range []string{"uncoded", "wrapped-coded", "ctx-deadline", "coded-meta", "long"} {
										out = append(out, c19Case{Proto: p, Kind: kind, Value: v, Point: pt, Before: before, After: after, PanicNil: pn, Ret: ret})
									}
								}
							}
						}
					}
				}
			}
		}
	}
	return out
}

// c19Overlap: two calls of the same procedure overlap on one handler: X is
// parked inside user code while Y runs to completion (normally, or with a
// panic of its own), then X panics.  Each panic must reach the recovery
// function exactly once with its own value and each client must receive the
// error returned for its own panic.
func c19Overlap(t *testing.T, c *ev.Collector) {
	idx := 0
	for _, p := range AllProtos {
		for _, kind := range AllKinds {
			for _, yPanics := range []bool{false, true} {
				idx++
				if !ev.Mine(idx) {
					continue
				}
				key := fmt.Sprintf("overlap/%s/%s/y-panics=%v", p, kind, yPanics)
				c.Case(key, true)
				Bubble(t, func() {
					var recovered []any
					release := make(chan struct{})
					parked := make(chan struct{})
					h := NewHandler(kind, func(ctx context.Context, s HStream) error {
						who := s.RequestHeader().Get("X-Call")
						if who == "x" {
							close(parked)
							<-release
							panic("boom x")
						}
						if yPanics {
							panic("boom y")
						}
						for {
							if _, err := s.Receive(); err != nil {
								break
							}
						}
						return s.Send(&BV{Value: []byte{'y'}})
					}, connect.WithRecover(func(ctx context.Context, spec connect.Spec, hdr http.Header, r any) error {
						recovered = append(recovered, r)
						return connect.NewError(connect.CodeDataLoss, fmt.Errorf("recovered %v", r))
					}))
					tr := &memhttp.Transport{Handler: h, Proto: 2, SyncCloseReq: true}
					cl := NewClient(tr, Cfg{Proto: p, Comp: CompNone})
					var resX, resY CallResult
					gx := make(chan struct{})
					g := Guarded(func() {
						go func() {
							defer close(gx)
							resX = RunCall(context.Background(), cl, kind, [][]byte{{1}}, http.Header{"X-Call": {"x"}})
						}()
						<-parked
						resY = RunCall(context.Background(), cl, kind, [][]byte{{2}}, http.Header{"X-Call": {"y"}})
						close(release)
						<-gx
					}, tr)
					c.AddTransitions(8)
					c.AddStates(8)
					c.AddTraces(2)
					tags := []string{"proto=" + p.String(), "kind=" + kind.String(), "overlapping-calls"}
					viol := func(clause, outcome, format string, args ...any) {
						c.Violation("TestC19", clause, outcome, tags, key, "%s: "+format, append([]any{key}, args...)...)
					}
					if g.Hung || g.Panicked {
						viol("terminates", "hang-or-client-panic", "hung=%v panic=%v\n%s", g.Hung, g.Panic, g.Stack)
						c.Outcome("violation")
						BailIfStuck(c, g)
						return
					}
					bad := false
					wantRec := []any{"boom x"}
					if yPanics {
						wantRec = []any{"boom y", "boom x"}
					}
					if fmt.Sprint(recovered) != fmt.Sprint(wantRec) {
						bad = true
						viol("recovered-once", fmt.Sprintf("calls=%d", len(recovered)), "recovery function received %v, want %v (escaped ServeHTTP: %v)", recovered, wantRec, func() any {
							if ex := tr.Last(); ex != nil && ex.Panicked {
								return ex.Panic
							}
							return nil
						}())
					}
					var ce *connect.Error
					if resX.Err == nil || !errors.As(resX.Err, &ce) || ce.Code() != connect.CodeDataLoss || ce.Message() != "recovered boom x" {
						bad = true
						viol("client-gets-recovery-error", "wrong-error", "the panicking call's client received %v; want data_loss: recovered boom x", resX.Err)
					}
					if yPanics {
						if resY.Err == nil || !errors.As(resY.Err, &ce) || ce.Message() != "recovered boom y" {
							bad = true
							viol("client-gets-recovery-error", "wrong-error", "call y's client received %v; want data_loss: recovered boom y", resY.Err)
						}
					} else if resY.Err != nil || len(resY.Msgs) != 1 {
						bad = true
						viol("non-panicking-unaffected", "differs", "the call that did not panic observed %s", obsString(resY))
					}
					if bad {
						c.Outcome("violation")
					} else {
						c.Outcome("ok")
					}
				})
			}
		}
	}
}

// c19AfterCtxEnd: the handler panics after its context has ended (the client
// went away / the deadline passed): the recovery function is still called
// exactly once with the value.
func c19AfterCtxEnd(t *testing.T, c *ev.Collector) {
	idx := 0
	for _, p := range AllProtos {
		for _, kind := range AllKinds {
			for _, how := range []string{"client-cancel", "client-deadline"} {
				idx++
				if !ev.Mine(idx) {
					continue
				}
				key := fmt.Sprintf("panic-after-ctx-end/%s/%s/%s", p, kind, how)
				c.Case(key, true)
				Bubble(t, func() {
					var recovered []any
					arrived := make(chan struct{})
					h := NewHandler(kind, func(ctx context.Context, s HStream) error {
						close(arrived)
						<-ctx.Done()
						panic("late boom")
					}, connect.WithRecover(func(ctx context.Context, spec connect.Spec, hdr http.Header, r any) error {
						recovered = append(recovered, r)
						return connect.NewError(connect.CodeDataLoss, errors.New("recovered late"))
					}))
					tr := &memhttp.Transport{Handler: h, Proto: 2, SyncCloseReq: true}
					cl := NewClient(tr, Cfg{Proto: p, Comp: CompNone})
					ctx, cancel := context.WithCancel(context.Background())
					if how == "client-deadline" {
						ctx, cancel = context.WithTimeout(context.Background(), 2*time.Second)
					}
					defer cancel()
					g := GuardedFor(time.Hour, func() {
						if how == "client-cancel" {
							go func() { <-arrived; cancel() }()
						}
						_ = RunCall(ctx, cl, kind, [][]byte{{1}}, nil)
						// the handler may outlive the call: wait for it
						for ex := tr.Last(); ex != nil && !ex.IsDone(); {
							time.Sleep(time.Millisecond)
						}
					}, tr)
					c.AddTransitions(4)
					c.AddStates(4)
					c.AddTraces(1)
					tags := []string{"proto=" + p.String(), "kind=" + kind.String(), "panic-after-context-ended"}
					if g.Hung || g.Panicked {
						c.Violation("TestC19", "terminates", "hang-or-client-panic", tags, key, "%s: hung=%v panic=%v\n%s", key, g.Hung, g.Panic, g.Stack)
						c.Outcome("violation")
						BailIfStuck(c, g)
						return
					}
					escaped := false
					if ex := tr.Last(); ex != nil {
						escaped = ex.Panicked
					}
					if len(recovered) != 1 || recovered[0] != "late boom" || escaped {
						c.Violation("TestC19", "recovered-once", fmt.Sprintf("calls=%d", len(recovered)), tags, key, "%s: recovery function received %v (escaped ServeHTTP: %v); want exactly one call with \"late boom\"", key, recovered, escaped)
						c.Outcome("violation")
						return
					}
					c.Outcome("ok")
				})
			}
		}
	}
}

func TestC19(t *testing.T) {
	c := ev.New("C19")
	defer func() { _ = c.Finish() }()
	c.SetRule("configuration x program enumeration on real handlers: panic value {nil, error, string, struct, pointer, http.ErrAbortHandler, error wrapping the sentinel, io.EOF, slice, map, struct holding a slice (not comparable, not hashable), none, none but the handler returns an error} x {unary, client, server, bidi} x {connect, grpc, grpcweb} x panic point {before anything, after the first send, after the last send} x WithRecover preceded/followed by 0..2 other interceptors x GODEBUG panicnil {0,1} x recovery-function result {coded error, uncoded error, error wrapping a coded one, uncoded error wrapping context.DeadlineExceeded, coded error with two-valued metadata}; oracle: recovery function called exactly once with the recovered value, client receives exactly its error (after the messages already sent; differential: identical observation to a handler that returns that error at the same point, plus explicit expected code/message), the abort sentinel is re-raised out of ServeHTTP with zero recovery calls, non-panicking calls equal a handler built without WithRecover; non-trivial = a panic is raised")
	c.Assume("memhttp reports the value that escapes ServeHTTP like net/http's server would see it")
	if ev.ReplayFile() != "" {
		var k c19Case
		if _, err := ev.LoadReplay(&k); err != nil {
			t.Fatal(err)
		}
		Bubble(t, func() { c19Check(c, k) })
		return
	}
	c19Overlap(t, c)
	c19AfterCtxEnd(t, c)
	cases := c19Cases(ev.Thorough())
	for i, k := range cases {
		if !ev.Mine(i) {
			continue
		}
		if c.Expired() {
			break
		}
		c.Case(k.key(), k.Value != "none" && k.Value != "none-err")
		Bubble(t, func() { c19Check(c, k) })
		if i%211 == 0 {
			c.Sample(k)
		}
	}
}
