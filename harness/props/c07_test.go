package props

import (
	"bytes"
	"compress/gzip"
	"context"
	"errors"
	"fmt"
	"google.golang.org/protobuf/proto"
	"io"
	"math"
	"net/http/httptest"
	"strconv"
	"strings"
	"testing"

	connect "github.com/bufbuild/connect-go"

	"verifharness/ev"
	"verifharness/refwire"
)

// C07 — whatever a client sends, the handler rejects it safely.
//
// Engine: grammar-bounded exhaustive request enumeration into the real
// Handler.ServeHTTP (deviation-bounded menus plus every short byte string over
// a framing alphabet), judged with the reference decoder.

var c07Methods = []string{"POST", "GET", "PUT", "OPTIONS", ""}
var c07Versions = [][2]int{{2, 0}, {1, 1}, {1, 0}}
var c07ContentTypes = []string{"exact", "-", "application/octet-stream", "exact;charset=utf-8", "application/grpc+thrift", "APPLICATION/PROTO", "application/connect+", "bare"}
var c07Encodings = []string{"-", "gzip", "zstd", "", "identity"}
var c07Accepts = []string{"-", "gzip", "zstd, gzip", "", ",,,", "identity"}
var c07Timeouts = []string{"-", "1S", "100", "", "1", "S", "1x", "-1S", "999999999S", "12345678901", "1 S", "١S", "18446744073709551616n", "100000000H", "123456789012345678H", "100000000m", "99999999H", "-1", "+5", "-0", "+5S", "-0S"}

var c07CLens = []string{"-", "exact", "max", "max-300"}

type c07Body struct {
	name string
	want string // "ok" | error code name | "error" (any non-OK) | "unjudged"
	gen  func(p Proto, kind Kind, js bool) []byte
}

func c07Bodies() []c07Body {
	framed := func(p Proto, kind Kind, flags byte, payload []byte) []byte { return c06Framed(p, kind, flags, payload) }
	streaming := func(p Proto, kind Kind) bool { return !(p == PConnect && kind == KUnary) }
	_ = streaming
	out := []c07Body{
		{"valid", "ok", func(p Proto, kind Kind, js bool) []byte { return framed(p, kind, 0, c06ValidMsg(js)) }},
		{"undecodable-payload", "invalid_argument", func(p Proto, kind Kind, js bool) []byte {
			return framed(p, kind, 0, []byte{0xff, 0xff, 0xff, 0x01})
		}},
		{"corrupt-gzip", "error", func(p Proto, kind Kind, js bool) []byte {
			return framed(p, kind, 1, []byte{0x1f, 0x8b, 0x08, 0x00, 0xde, 0xad})
		}},
		{"truncated-gzip-decodable", "error", func(p Proto, kind Kind, js bool) []byte {
			// a gzip stream (one stored block) cut inside its data at a point where the bytes
			// inflated so far are themselves a valid message: only the decompressor can tell
			m := &BV{Value: []byte("nine-byte")} // 11 bytes encoded
			var u []byte
			for len(u) < 200 {
				u = append(u, 15<<3, 1)
			}
			m.ProtoReflect().SetUnknown(u)
			raw, _ := proto.Marshal(m)
			var zb bytes.Buffer
			zw, _ := gzip.NewWriterLevel(&zb, gzip.NoCompression)
			_, _ = zw.Write(raw)
			_ = zw.Close()
			z := zb.Bytes()
			return framed(p, kind, 1, z[:10+5+11+40])
		}},
		{"oversize", "unjudged", func(p Proto, kind Kind, js bool) []byte {
			return framed(p, kind, 0, codecMarshal(js, &BV{Value: bytes.Repeat([]byte{'x'}, 3000)}))
		}},
	}
	// envelope-level malformations exist only in enveloped formats
	env := []c07Body{
		{"truncated-prefix", "error", func(p Proto, kind Kind, js bool) []byte { return []byte{0, 0, 0} }},
		{"truncated-payload", "error", func(p Proto, kind Kind, js bool) []byte {
			b := refwire.Envelope(0, c06ValidMsg(js))
			return b[:len(b)-2]
		}},
		{"lying-prefix-huge", "error", func(p Proto, kind Kind, js bool) []byte {
			b := refwire.Envelope(0, c06ValidMsg(js))
			copy(b[1:5], []byte{0xff, 0xff, 0xff, 0xff})
			return b
		}},
		{"lying-prefix-64k", "error", func(p Proto, kind Kind, js bool) []byte {
			b := refwire.Envelope(0, c06ValidMsg(js))
			copy(b[1:5], []byte{0x00, 0x00, 0xff, 0xff})
			return b
		}},
		{"compressed-flag-no-header", "unjudged", func(p Proto, kind Kind, js bool) []byte { return refwire.Envelope(1, Gzip(c06ValidMsg(js))) }},
		// flagged compressed, but the payload is the plain message: malformed whatever the encoding
		// header says (no algorithm negotiated: nothing to inflate with; gzip: not a gzip stream)
		{"compressed-flag-plain-payload", "error", func(p Proto, kind Kind, js bool) []byte { return refwire.Envelope(1, c06ValidMsg(js)) }},
		{"valid-then-compressed-flag-plain-payload", "error", func(p Proto, kind Kind, js bool) []byte {
			if !kind.ClientStreams() { // single-request kinds never look at a second envelope (known finding of its own)
				return refwire.Envelope(1, c06ValidMsg(js))
			}
			return append(refwire.Envelope(0, c06ValidMsg(js)), refwire.Envelope(1, c06ValidMsg(js))...)
		}},
		{"second-message", "unjudged", func(p Proto, kind Kind, js bool) []byte {
			m := refwire.Envelope(0, c06ValidMsg(js))
			return append(append([]byte{}, m...), m...)
		}},
		{"trailing-garbage", "unjudged", func(p Proto, kind Kind, js bool) []byte {
			return append(refwire.Envelope(0, c06ValidMsg(js)), 0xde, 0xad)
		}},
		{"zero-length-message", "ok", func(p Proto, kind Kind, js bool) []byte { return refwire.Envelope(0, nil) }},
	}
	for _, fl := range []byte{2, 3, 4, 0x80, 0x81, 0xff} {
		fl := fl
		env = append(env, c07Body{fmt.Sprintf("flag-%02x", fl), "unjudged", func(p Proto, kind Kind, js bool) []byte { return refwire.Envelope(fl, c06ValidMsg(js)) }})
	}
	// envelopes whose flag byte carries protocol-specific bits and whose payload is larger than
	// the handler's read limit (well-formed for the protocol that defines the flag)
	env = append(env,
		c07Body{"oversize-flag-02", "unjudged", func(p Proto, kind Kind, js bool) []byte {
			return refwire.Envelope(2, []byte(`{"metadata":{"x-pad":["`+strings.Repeat("a", 3000)+`"]}}`))
		}},
		c07Body{"oversize-flag-80", "unjudged", func(p Proto, kind Kind, js bool) []byte {
			return refwire.Envelope(0x80, []byte("x-pad: "+strings.Repeat("a", 3000)+"\r\n"))
		}},
		c07Body{"valid-then-oversize-flag-02", "unjudged", func(p Proto, kind Kind, js bool) []byte {
			return append(refwire.Envelope(0, c06ValidMsg(js)), refwire.Envelope(2, []byte(`{"metadata":{"x-pad":["`+strings.Repeat("a", 3000)+`"]}}`))...)
		}},
		// zero-length envelopes after messages with content: each frame is its own message
		c07Body{"valid-then-zero-length", "unjudged", func(p Proto, kind Kind, js bool) []byte {
			return append(refwire.Envelope(0, c06ValidMsg(js)), refwire.Envelope(0, nil)...)
		}},
		c07Body{"zero-valid-zero-other", "unjudged", func(p Proto, kind Kind, js bool) []byte {
			b := append(refwire.Envelope(0, nil), refwire.Envelope(0, c06ValidMsg(js))...)
			b = append(b, refwire.Envelope(0, nil)...)
			return append(b, refwire.Envelope(0, codecMarshal(js, &BV{Value: []byte("other")}))...)
		}},
		c07Body{"valid-then-oversize-flag-80", "unjudged", func(p Proto, kind Kind, js bool) []byte {
			return append(refwire.Envelope(0, c06ValidMsg(js)), refwire.Envelope(0x80, []byte("x-pad: "+strings.Repeat("a", 3000)+"\r\n"))...)
		}},
	)
	for _, e := range env {
		e := e
		out = append(out, c07Body{e.name, e.want, func(p Proto, kind Kind, js bool) []byte {
			if p == PConnect && kind == KUnary {
				return nil
			}
			return e.gen(p, kind, js)
		}})
	}
	out = append(out, c07Body{"empty", "unjudged", func(Proto, Kind, bool) []byte { return []byte{} }})
	return out
}

var c07BodyMenu = c07Bodies()

type c07Case struct {
	Proto   Proto  `json:"proto"`
	Kind    Kind   `json:"kind"`
	JSON    bool   `json:"json"`
	Limit   bool   `json:"limit"` // handler with WithReadMaxBytes(1024)
	Method  string `json:"method"`
	Major   int    `json:"major"`
	Minor   int    `json:"minor"`
	CT      string `json:"ct"`
	Enc     string `json:"enc"`
	Accept  string `json:"accept"`
	Timeout string `json:"timeout"`
	Body    string `json:"body"`
	Raw     []byte `json:"raw,omitempty"`
	Dev     int    `json:"dev"`
	// CLen: announced Content-Length: "" / "-" unknown (-1), "exact", "max" (2^63-1), "max-300"
	CLen string `json:"clen,omitempty"`
}

func (k c07Case) key() string {
	codec := "proto"
	if k.JSON {
		codec = "json"
	}
	body := k.Body
	if body == "raw" {
		body = fmt.Sprintf("raw:%x", k.Raw)
	}
	if k.CLen != "" && k.CLen != "-" {
		body += "/clen=" + k.CLen
	}
	return fmt.Sprintf("%s/%s/%s/limit=%v/%s/HTTP%d.%d/ct=%s/enc=%s/acc=%s/to=%q/body=%s", k.Proto, k.Kind, codec, k.Limit, k.Method, k.Major, k.Minor, k.CT, k.Enc, k.Accept, k.Timeout, body)
}

func c07Check(c *ev.Collector, k c07Case) {
	tags := []string{"proto=" + k.Proto.String(), "kind=" + k.Kind.String()}
	bad := false
	viol := func(clause, outcome, format string, args ...any) {
		bad = true
		c.Violation("TestC07", clause, outcome, tags, k, "%s: "+format, append([]any{k.key()}, args...)...)
	}
	var body []byte
	want := "unjudged"
	if k.Body == "raw" {
		body = k.Raw
		tags = append(tags, "body=raw")
	} else {
		for _, b := range c07BodyMenu {
			if b.name == k.Body {
				body = b.gen(k.Proto, k.Kind, k.JSON)
				want = b.want
				if body == nil && b.name != "valid" && b.name != "empty" {
					c.Outcome("n/a")
					return
				}
			}
		}
		if k.Body != "valid" {
			tags = append(tags, "body="+k.Body)
		}
	}
	if k.Body == "empty" && k.Proto == PConnect && k.Kind == KUnary && k.CT == "exact" {
		// a unary Connect body is the message itself: zero bytes are the zero message for the
		// binary codec and not a JSON document for the JSON codec
		want = "ok"
		if k.JSON {
			want = "invalid_argument"
		}
	}
	userRuns := 0
	var delivered [][]byte
	var opts []connect.HandlerOption
	if k.Limit {
		opts = append(opts, connect.WithReadMaxBytes(1024))
	} else if k.Body == "raw" || strings.HasPrefix(k.Body, "lying") {
		opts = append(opts, connect.WithReadMaxBytes(1<<16)) // memory guard for lying prefixes
	}
	h := NewHandler(k.Kind, func(ctx context.Context, s HStream) error {
		userRuns++
		for {
			m, err := s.Receive()
			if err != nil {
				if !errors.Is(err, io.EOF) {
					return err
				}
				break
			}
			delivered = append(delivered, cloneBytes(m.Value))
		}
		return s.Send(&BV{Value: []byte{1}})
	}, opts...)
	exact := contentType(k.Proto, k.Kind, k.JSON)
	ct := k.CT
	switch k.CT {
	case "exact":
		ct = exact
	case "exact;charset=utf-8":
		ct = exact + ";charset=utf-8"
	case "bare":
		ct = strings.TrimSuffix(exact, "+proto")
	}
	req := httptest.NewRequest("POST", "http://mem.test"+Procedure, bytes.NewReader(body))
	req.Method = k.Method
	req.ProtoMajor, req.ProtoMinor, req.Proto = k.Major, k.Minor, fmt.Sprintf("HTTP/%d.%d", k.Major, k.Minor)
	if ct != "-" {
		req.Header.Set("Content-Type", ct)
	}
	encH, accH := encHeaders(k.Proto, k.Kind)
	if k.Enc != "-" {
		req.Header[encH] = []string{k.Enc}
	}
	if k.Accept != "-" {
		req.Header[accH] = []string{k.Accept}
	}
	if k.Timeout != "-" {
		name := "Grpc-Timeout"
		if k.Proto == PConnect {
			name = "Connect-Timeout-Ms"
		}
		req.Header[name] = []string{k.Timeout}
	}
	req.ContentLength = -1
	switch k.CLen {
	case "exact":
		req.ContentLength = int64(len(body))
	case "max":
		req.ContentLength = math.MaxInt64
	case "max-300":
		req.ContentLength = math.MaxInt64 - 300
	}
	if req.ContentLength >= 0 {
		req.Header.Set("Content-Length", strconv.FormatInt(req.ContentLength, 10))
	}
	rec := httptest.NewRecorder()
	g := Guarded(func() { h.ServeHTTP(rec, req) })
	c.AddTransitions(3)
	c.AddStates(3)
	c.AddTraces(1)
	if g.Panicked {
		viol("no-panic", "panic", "ServeHTTP panicked: %v\n%s", g.Panic, g.Stack)
		c.Outcome("violation")
		return
	}
	if g.Hung {
		viol("terminates", "deadlock", "ServeHTTP did not return\n%s", trimStacks(g.Stack))
		c.Outcome("violation")
		BailIfStuck(c, g)
		return
	}
	if userRuns > 1 {
		viol("user-code-at-most-once", fmt.Sprintf("runs=%d", userRuns), "user code ran %d times", userRuns)
	}
	// which protocol does the Content-Type select?
	selected := false
	for _, r := range c12Reference(k.Kind, "default") {
		if r == ct {
			selected = true
		}
	}
	status, header, rbody, trailer := recParts(rec)
	outcome := ""
	var judgeSel Proto
	ranJudge := false
	switch {
	case k.Method != "POST" || (k.Kind == KBidi && k.Major < 2) || !selected:
		if status != 405 && status != 415 && status != 505 {
			viol("bare-rejection", fmt.Sprintf("status=%d", status), "no protocol selected / not servable, but the answer is HTTP %d", status)
		}
		if len(rbody) != 0 {
			viol("bare-rejection", "body", "bare rejection carries a body: %q", clip(string(rbody), 80))
		}
		if userRuns != 0 {
			viol("bare-rejection", "user-code-ran", "user code ran for a request that was rejected with HTTP %d", status)
		}
		outcome = fmt.Sprintf("bare-%d", status)
	default:
		// the selected protocol is the one whose advertised type matches ct
		sel := k.Proto
		switch {
		case strings.HasPrefix(ct, "application/grpc-web"):
			sel = PGRPCWeb
		case strings.HasPrefix(ct, "application/grpc"):
			sel = PGRPC
		default:
			sel = PConnect
		}
		judgeSel, ranJudge = sel, true
		rs := refwire.DecodeResponse(wireProto(sel), k.Kind == KUnary, ct, status, header, rbody, trailer, AnyDecompress)
		for _, p := range rs.Problems {
			viol("response-well-formed", "problem", "response (HTTP %d): %s", status, p)
		}
		code := "?"
		if rs.End.Present {
			code = "ok"
			if rs.End.Code > 0 && rs.End.Code < len(refwire.CodeNames) {
				code = refwire.CodeNames[rs.End.Code]
			} else if rs.End.Code != 0 {
				code = fmt.Sprintf("code_%d", rs.End.Code)
			}
		}
		outcome = code
		// documented codes
		encAlg := k.Enc
		if encAlg == "-" || encAlg == "identity" {
			encAlg = ""
		}
		toOK, toJudged := true, true
		if k.Timeout != "-" {
			var ok, judged bool
			if sel == PConnect {
				_, _, ok, judged = refParseConnect(k.Timeout)
			} else {
				_, _, ok, judged = refParseGRPC(k.Timeout)
			}
			toOK, toJudged = ok, judged
			if k.Timeout == "" {
				// the header is present without a value: an empty number, not an absent header
				toOK, toJudged = false, true
			}
		}
		switch {
		case encAlg != "" && encAlg != "gzip":
			if code != "unimplemented" || userRuns != 0 {
				viol("unknown-compression", "code="+code, "unknown request compression %q answered with %s (user code ran %d times)", encAlg, code, userRuns)
			}
		case toJudged && !toOK:
			if code != "invalid_argument" || userRuns != 0 {
				viol("invalid-timeout", "code="+code, "malformed timeout %q answered with %s (user code ran %d times)", k.Timeout, code, userRuns)
			}
		case !toJudged:
		default:
			// timeouts that expire immediately legitimately fail with deadline_exceeded
			expired := k.Timeout == "0" || code == "deadline_exceeded"
			switch want {
			case "ok":
				if code != "ok" && !expired && !(k.Limit && k.Body == "oversize") {
					if !(encAlg == "gzip" && len(body) > 0 && k.Body != "raw" && !strings.Contains(k.Body, "gzip")) {
						viol("valid-accepted", "code="+code, "valid request answered with %s", code)
					}
				}
			case "error":
				if code == "ok" {
					viol("malformed-never-success", "ok", "malformed request (%s) was answered as success", k.Body)
				}
			case "unjudged":
			default:
				if code == "ok" {
					viol("malformed-never-success", "ok", "malformed request (%s) was answered as success", k.Body)
				} else if code != want && !expired {
					viol("documented-code", "code="+code, "malformed request (%s) answered with %s, documented code is %s", k.Body, code, want)
				}
			}
			if k.Limit && k.Body == "oversize" && code != "invalid_argument" && !expired {
				viol("documented-code", "code="+code, "oversize message under a read limit answered with %s", code)
			}
			// an oversize envelope is oversize whatever its flag byte says; a multi-message
			// receiver that reaches it must not report success
			if k.Limit && strings.Contains(k.Body, "oversize-flag") && k.Kind.ClientStreams() && len(body) > 0 && code == "ok" && !expired {
				viol("documented-code", "code=ok", "an envelope of %d bytes with protocol-specific flag bits under a read limit of 1024 was answered ok", len(body))
			}
		}
		// user code only ever sees messages that decode from the request
		if len(delivered) > 0 {
			rq := refwire.DecodeRequestAsReceiver(wireProto(sel), k.Kind == KUnary, "POST", req.Header, body, true, AnyDecompress)
			i := 0
			for _, d := range delivered {
				found := false
				for i < len(rq.Msgs) {
					m, err := codecUnmarshalBV(k.JSON, rq.Msgs[i])
					if len(rq.Msgs[i]) == 0 {
						m, err = &BV{}, nil // a zero-length payload is the zero message in every codec (not judged)
					}
					i++
					if err == nil && bytes.Equal(m.Value, d) {
						found = true
						break
					}
				}
				if !found {
					viol("delivered-messages-decode", "phantom", "user code received %s which is not the decoding of any frame of the request (frames %d, problems %v)", shortBytes(d), len(rq.Msgs), rq.Problems)
					break
				}
			}
		}
		// a well-formed multi-message body answered ok: the draining handler received exactly its frames
		if code == "ok" && k.Kind.ClientStreams() && !(sel == PConnect && k.Kind == KUnary) && encAlg == "" {
			rq := refwire.DecodeRequestAsReceiver(wireProto(sel), false, "POST", req.Header, body, true, AnyDecompress)
			if len(rq.Problems) == 0 {
				var wantMsgs [][]byte
				decodable := true
				for _, raw := range rq.Msgs {
					if len(raw) == 0 {
						wantMsgs = append(wantMsgs, nil)
						continue
					}
					m, err := codecUnmarshalBV(k.JSON, raw)
					if err != nil {
						decodable = false
						break
					}
					wantMsgs = append(wantMsgs, m.Value)
				}
				if decodable && !equalMsgs(delivered, wantMsgs) {
					viol("delivered-messages-decode", "sequence", "user code received %s, the request's frames decode to %s", shortMsgs(delivered), shortMsgs(wantMsgs))
				}
			}
		}
		// raw bodies: success implies that everything the handler consumed was well-formed
		if k.Body == "raw" && code == "ok" && k.Kind.ClientStreams() && !(sel == PConnect && k.Kind == KUnary) {
			rq := refwire.DecodeRequestAsReceiver(wireProto(sel), false, "POST", req.Header, body, true, AnyDecompress)
			judgeable := true
			var framing []string
			for _, p := range rq.Problems {
				if strings.Contains(p, "flag bits") {
					judgeable = false // unknown request flags (e.g. Connect end-stream from a client) are not judged
				}
				if strings.HasPrefix(p, "body:") || strings.HasPrefix(p, "request frame") {
					framing = append(framing, p)
				}
			}
			if judgeable && len(framing) > 0 {
				viol("malformed-never-success", "ok", "request body is malformed (%v) but the draining handler answered ok", framing)
			}
		}
	}
	// unary and server-stream handlers take exactly one request message: what follows it in the
	// body (a second message, bytes that are no envelope) is malformed framing and may not be
	// answered as success (enveloped protocols; judged last, under a tag of its own)
	if ranJudge && !k.Kind.ClientStreams() && !(judgeSel == PConnect && k.Kind == KUnary) && outcome == "ok" && (k.Body == "second-message" || k.Body == "trailing-garbage") {
		tags = append(tags, "after-the-single-message")
		viol("single-request-message", "ok", "the request body holds more than the one message this kind of call takes (%s) and was answered as success", k.Body)
	}
	if bad {
		c.Outcome("violation")
	} else {
		c.Outcome(outcome)
	}
}

func TestC07(t *testing.T) {
	c := ev.New("C07")
	defer func() { _ = c.Finish() }()
	c.SetRule("grammar-bounded exhaustive request enumeration into the real Handler.ServeHTTP: at most D simultaneous deviations from a valid request over {5 methods, 3 HTTP versions, 8 Content-Type forms, 5 encodings, 6 accept lists, 17 timeout strings (incl. 9- and 18-digit values of every magnitude class), ~20 bodies (truncation, lying length prefixes, every flag byte, corrupt gzip, undecodable payload, oversize, second message, trailing garbage, zero-length)} x handler with/without read limit, plus every byte string of length <= L over {00,01,02,80,'{','}','\"'} as the body, x {connect,grpc,grpcweb} x {proto,json} x 4 RPC kinds; oracle: returns (bubble), no panic, response well-formed under refwire for the selected protocol or a bare 405/415/505, user code at most once and only with messages that decode from the request, documented codes for unknown compression / invalid timeout / undecodable payload / oversize, malformed framing never answered as success; distinct = full tuple")
	c.Assume("requests are handed to ServeHTTP directly", "a 64 KiB read limit guards the raw-body and lying-prefix cases against unbounded allocation (DESIGN 3.7)", "request flags other than 0/1 and trailing bytes after a unary message are recorded but not judged (documents silent)")
	if ev.ReplayFile() != "" {
		var k c07Case
		if _, err := ev.LoadReplay(&k); err != nil {
			t.Fatal(err)
		}
		Bubble(t, func() { c07Check(c, k) })
		return
	}
	thorough := ev.Thorough()
	maxDev, L := 2, 4
	if thorough {
		maxDev, L = 3, 6
	}
	c.Bound("max_simultaneous_deviations", maxDev)
	c.Bound("raw_body_length", L)
	sizes := []int{len(c07Methods), len(c07Versions), len(c07ContentTypes), len(c07Encodings), len(c07Accepts), len(c07Timeouts), len(c07BodyMenu), 2, len(c07CLens)}
	idx := 0
	for _, p := range AllProtos {
		for _, kind := range AllKinds {
			for _, js := range []bool{false, true} {
				if js && !thorough && kind != KUnary {
					continue
				}
				dev := maxDev
				if thorough && (kind == KClient || kind == KServer) {
					dev = 2
				}
				Deviations(sizes, dev, func(ch []int) bool {
					idx++
					if !ev.Mine(idx) {
						return true
					}
					if c.Expired() {
						return false
					}
					ndev := 0
					for _, v := range ch {
						if v != 0 {
							ndev++
						}
					}
					k := c07Case{Proto: p, Kind: kind, JSON: js, Limit: ch[7] == 1, Method: c07Methods[ch[0]], Major: c07Versions[ch[1]][0], Minor: c07Versions[ch[1]][1],
						CT: c07ContentTypes[ch[2]], Enc: c07Encodings[ch[3]], Accept: c07Accepts[ch[4]], Timeout: c07Timeouts[ch[5]], Body: c07BodyMenu[ch[6]].name, Dev: ndev, CLen: c07CLens[ch[8]]}
					c.Case(k.key(), ndev > 0)
					Bubble(t, func() { c07Check(c, k) })
					if idx%30011 == 0 {
						c.Sample(map[string]any{"case": k.key()})
					}
					return true
				})
			}
		}
	}
	alphabet := []byte{0x00, 0x01, 0x02, 0x80, '{', '}', '"'}
	for _, p := range AllProtos {
		for _, kind := range AllKinds {
			for _, js := range []bool{false, true} {
				if js && kind != KUnary {
					continue
				}
				Strings(alphabet, L, func(s []byte) bool {
					idx++
					if !ev.Mine(idx) {
						return true
					}
					if c.Expired() {
						return false
					}
					k := c07Case{Proto: p, Kind: kind, JSON: js, Method: "POST", Major: 2, CT: "exact", Enc: "-", Accept: "-", Timeout: "-", Body: "raw", Raw: s, Dev: 1}
					c.Case(k.key(), true)
					Bubble(t, func() { c07Check(c, k) })
					if idx%30011 == 0 {
						c.Sample(map[string]any{"case": k.key()})
					}
					return true
				})
			}
		}
	}
}
