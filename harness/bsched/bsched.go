// Package bsched is a controlled scheduler for stateless model checking of the
// real library inside a testing/synctest bubble.
//
// Goroutines reach the scheduler through Gate (called by instrumented library
// code through connect.VerifGate and by the memhttp environment).  A gate
// parks the goroutine on a private channel — a durable block — so that
// synctest.Wait in the root returns exactly when every goroutine is parked at
// a gate, blocked for good, or finished.  The root then picks one parked
// thread (the only source of interleaving nondeterminism), which runs to its
// next gate.  Time and cancellation are scheduler choices as well.
package bsched

import (
	"fmt"
	"regexp"
	"runtime"
	"sort"
	"strconv"
	"strings"
	"sync"
	"sync/atomic"
	"testing/synctest"
	"time"
)

// ClockName is the pseudo-thread that lets the fake clock run up to the next
// armed instant.
const ClockName = "~clock"

type thread struct {
	name   string
	label  string // gate it is parked at
	wake   chan struct{}
	driver bool
	done   bool
	alts   int // > 1: parked at a choice point with that many alternatives
	picked int // the alternative the scheduler selected
}

// entry is one schedulable alternative: a parked thread, or one of the
// alternatives of a thread parked at a choice point.
type entry struct {
	th   *thread
	alt  int
	name string
}

// Point is one scheduling decision.
type Point struct {
	Enabled        []string `json:"enabled"`
	Labels         []string `json:"labels,omitempty"`
	Chosen         int      `json:"chosen"`
	RunningEnabled bool     `json:"running_enabled"` // Enabled[0] is the thread that ran last
}

// Sched schedules one execution.
type Sched struct {
	mu       sync.Mutex
	active   atomic.Bool
	rootGoid uint64
	byGoid   map[uint64]*thread
	ordinals map[string]int
	parked   []*thread
	threads  []*thread
	lastRun  *thread

	prefix   []int
	expect   []Point // points of the parent execution (divergence check while replaying)
	Points   []Point
	MaxSteps int
	// RoundRobin selects the default (zero-delay) scheduler the delay bound is
	// measured against: false = non-preemptive run-to-block (the running thread
	// first, then ascending names); true = round-robin at every yield point (the
	// cyclic successor of the thread that ran last comes first).  The two
	// explore different neighbourhoods of schedules.
	RoundRobin bool

	clockArmed bool
	clockAt    time.Time
	// AfterClock runs in the root right after the clock event fired.
	AfterClock func()

	Deadlock  bool   // no enabled thread while a driver had not finished
	Horizon   bool   // step horizon reached
	Diverged  string // non-empty: replay diverged from the recorded enabled sets
	BlockedAt []string
}

// New creates a scheduler replaying prefix (choices beyond it default to 0).
// It must be created and used by the bubble's root goroutine.
func New(prefix []int, expect []Point) *Sched {
	s := &Sched{
		rootGoid: goid(),
		byGoid:   map[uint64]*thread{},
		ordinals: map[string]int{},
		prefix:   prefix,
		expect:   expect,
		MaxSteps: 5000,
	}
	s.active.Store(true)
	return s
}

var goidRe = regexp.MustCompile(`^goroutine (\d+) `)

func goid() uint64 {
	var buf [64]byte
	n := runtime.Stack(buf[:], false)
	// "goroutine 123 [running..."
	s := buf[:n]
	s = s[len("goroutine "):]
	var id uint64
	for _, c := range s {
		if c < '0' || c > '9' {
			break
		}
		id = id*10 + uint64(c-'0')
	}
	return id
}

var createdByRe = regexp.MustCompile(`created by .* in goroutine (\d+)`)

func creatorGoid() uint64 {
	size := 4096
	for {
		buf := make([]byte, size)
		n := runtime.Stack(buf, false)
		if n < size || size >= 1<<20 {
			m := createdByRe.FindAllSubmatch(buf[:n], -1)
			if len(m) == 0 {
				return 0
			}
			id, _ := strconv.ParseUint(string(m[len(m)-1][1]), 10, 64)
			return id
		}
		size *= 4
	}
}

// Gate parks the calling goroutine until the scheduler selects it.  Calls
// from the root goroutine, or when no scheduler is active, pass through.
func (s *Sched) Gate(label string) { s.park(label, 1) }

// Choose parks the calling goroutine at a data choice point with n
// alternatives (which ready case a select statement takes) and returns the one
// the scheduler selected; alternative 0 is the default, any other one costs a
// deviation exactly as a preemption does.  Without an active scheduler, and on
// the root goroutine, it returns -1 (the caller keeps Go's own choice).
func (s *Sched) Choose(label string, n int) int { return s.park(label, n) }

func (s *Sched) park(label string, alts int) int {
	if !s.active.Load() {
		return -1
	}
	gid := goid()
	if gid == s.rootGoid {
		return -1
	}
	s.mu.Lock()
	if !s.active.Load() {
		s.mu.Unlock()
		return -1
	}
	th := s.byGoid[gid]
	if th == nil {
		parent := "?"
		if c := creatorGoid(); c == s.rootGoid {
			parent = "root"
		} else if p := s.byGoid[c]; p != nil {
			parent = p.name
		}
		base := parent + ">" + label
		s.ordinals[base]++
		th = &thread{name: fmt.Sprintf("%s#%d", base, s.ordinals[base]), wake: make(chan struct{})}
		s.byGoid[gid] = th
		s.threads = append(s.threads, th)
	}
	th.label = label
	th.alts = alts
	th.picked = 0
	s.parked = append(s.parked, th)
	s.mu.Unlock()
	if _, ok := <-th.wake; !ok {
		return -1 // released for tear-down
	}
	return th.picked
}

// Go starts a named driver thread.  It is parked at its "start" gate until
// scheduled; the execution is a deadlock if it never finishes.
func (s *Sched) Go(name string, f func()) {
	th := &thread{name: name, wake: make(chan struct{}), driver: true}
	s.mu.Lock()
	s.threads = append(s.threads, th)
	s.mu.Unlock()
	go func() {
		gid := goid()
		s.mu.Lock()
		s.byGoid[gid] = th
		s.mu.Unlock()
		defer func() {
			s.mu.Lock()
			th.done = true
			s.mu.Unlock()
		}()
		s.Gate("start")
		f()
	}()
}

// ArmClock enables the ~clock pseudo-thread: when chosen (or forced because
// nothing else is enabled) the fake clock runs until d from now.
func (s *Sched) ArmClock(d time.Duration) {
	s.clockArmed = true
	s.clockAt = time.Now().Add(d)
}

// Run schedules until no thread is enabled.
func (s *Sched) Run() {
	for step := 0; ; step++ {
		synctest.Wait()
		s.mu.Lock()
		var enabled []entry
		for _, th := range s.parked {
			enabled = append(enabled, entry{th, 0, th.name})
			for a := 1; a < th.alts; a++ {
				enabled = append(enabled, entry{th, a, th.name + "?" + strconv.Itoa(a)})
			}
		}
		s.mu.Unlock()
		sort.Slice(enabled, func(i, j int) bool { return enabled[i].name < enabled[j].name })
		runningEnabled := false
		if s.lastRun != nil && !s.RoundRobin {
			for i, e := range enabled {
				if e.th == s.lastRun && e.alt == 0 {
					copy(enabled[1:i+1], enabled[:i])
					enabled[0] = e
					runningEnabled = true
					break
				}
			}
		}
		if s.lastRun != nil && s.RoundRobin && len(enabled) > 1 {
			// rotate: first the threads whose name follows the last-run thread's
			k := 0
			for k < len(enabled) && enabled[k].name <= s.lastRun.name {
				k++
			}
			rot := append(append([]entry{}, enabled[k:]...), enabled[:k]...)
			enabled = rot
		}
		names := make([]string, 0, len(enabled)+1)
		labels := make([]string, 0, len(enabled)+1)
		for _, e := range enabled {
			names = append(names, e.name)
			labels = append(labels, e.th.label)
		}
		if s.clockArmed {
			names = append(names, ClockName)
			labels = append(labels, "")
		}
		if len(names) == 0 {
			break
		}
		if step >= s.MaxSteps {
			s.Horizon = true
			break
		}
		choice := 0
		if step < len(s.prefix) {
			choice = s.prefix[step]
			if step < len(s.expect) && !equalStrings(s.expect[step].Enabled, names) {
				s.Diverged = fmt.Sprintf("step %d: recorded enabled %v, now %v", step, s.expect[step].Enabled, names)
				break
			}
			if choice >= len(names) {
				s.Diverged = fmt.Sprintf("step %d: choice %d out of range %v", step, choice, names)
				break
			}
		}
		s.Points = append(s.Points, Point{Enabled: names, Labels: labels, Chosen: choice, RunningEnabled: runningEnabled})
		if names[choice] == ClockName {
			s.clockArmed = false
			s.lastRun = nil
			if d := time.Until(s.clockAt); d > 0 {
				time.Sleep(d)
			}
			synctest.Wait()
			if s.AfterClock != nil {
				s.AfterClock()
			}
			// let timers that fired at this instant run their callbacks
			continue
		}
		th := enabled[choice].th
		th.picked = enabled[choice].alt
		s.mu.Lock()
		for i, p := range s.parked {
			if p == th {
				s.parked = append(s.parked[:i], s.parked[i+1:]...)
				break
			}
		}
		s.mu.Unlock()
		s.lastRun = th
		th.wake <- struct{}{}
	}
	// classify the end state
	s.mu.Lock()
	for _, th := range s.threads {
		if th.driver && !th.done {
			s.Deadlock = true
			s.BlockedAt = append(s.BlockedAt, th.name)
		}
	}
	s.mu.Unlock()
	if s.Horizon || s.Diverged != "" {
		s.Deadlock = false
	}
}

// Release switches the scheduler off and lets every parked goroutine run
// freely (used for tear-down).
func (s *Sched) Release() {
	s.mu.Lock()
	s.active.Store(false)
	parked := s.parked
	s.parked = nil
	s.mu.Unlock()
	for _, th := range parked {
		close(th.wake)
	}
	synctest.Wait()
}

// DriversDone reports whether every driver thread has finished.
func (s *Sched) DriversDone() bool {
	s.mu.Lock()
	defer s.mu.Unlock()
	for _, th := range s.threads {
		if th.driver && !th.done {
			return false
		}
	}
	return true
}

// Choices returns the choice list of this execution.
func (s *Sched) Choices() []int {
	out := make([]int, len(s.Points))
	for i, p := range s.Points {
		out[i] = p.Chosen
	}
	return out
}

func equalStrings(a, b []string) bool {
	if len(a) != len(b) {
		return false
	}
	for i := range a {
		if a[i] != b[i] {
			return false
		}
	}
	return true
}

// LibraryGoroutines returns the stacks of goroutines (other than the caller)
// that have a frame of the library on their stack.
var stackBuf = make([]byte, 1<<20)

func LibraryGoroutines() []string {
	buf := stackBuf
	n := runtime.Stack(buf, true)
	var out []string
	self := goid()
	for _, g := range strings.Split(string(buf[:n]), "\n\n") {
		if !strings.Contains(g, "github.com/bufbuild/connect-go.") {
			continue
		}
		m := goidRe.FindStringSubmatch(g)
		if m != nil {
			if id, _ := strconv.ParseUint(m[1], 10, 64); id == self {
				continue
			}
		}
		out = append(out, g)
	}
	return out
}

// AllStacks is a goroutine dump for diagnostics.
func AllStacks() string {
	buf := make([]byte, 1<<20)
	return string(buf[:runtime.Stack(buf, true)])
}
