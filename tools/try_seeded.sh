#!/bin/bash
# tools/try_seeded.sh <seeded-id> [tier] : apply a stored change to /repo, run its property's check, revert; prints a summary.
set -u
id=$1; tier=${2:-quick}; prop=${id%%-*}
cd /verif
if [ -n "$(git -C /repo status --porcelain)" ]; then echo "/repo is not clean"; exit 2; fi
git -C /repo apply /verif/seeded/$id/patch.diff || exit 2
out=$(./check $prop $tier 2>&1); code=$?
git -C /repo checkout -- . ; git -C /repo clean -fdq
echo "$out" | grep -E "^  clause=" | sed 's/^  clause=\([^ ]*\) outcome=\([^ ]*\).*/\1(\2)/' | sort | uniq -c | sort -rn | head -4
echo "$out" | grep -E "HARNESS-ERROR" | head -3 | cut -c1-300
echo "$id exit=$code"
