package props

import (
	"bytes"
	"context"
	"errors"
	"fmt"
	"io"
	"net/http"
	"net/http/httptest"
	"strings"
	"testing"

	connect "github.com/bufbuild/connect-go"
	"google.golang.org/protobuf/proto"

	"verifharness/bsched"
	"verifharness/ev"
	"verifharness/memhttp"
	"verifharness/refwire"
)

// C08 — compression is negotiated so both sides can decode, and is lossless.
//
// Engine: configuration + history enumeration on real clients and handlers;
// the oracle reads the recorded exchange and decompresses with reference
// implementations of every algorithm.

var c08Magic = map[string]byte{"alg1": 0xA1, "alg2": 0xA2, "alg3": 0xA3}

// c08Orders: every registration order of every subset of {alg1,alg2,alg3}
// (gzip is always registered first by the library itself).
func c08Orders() [][]string {
	algs := []string{"alg1", "alg2", "alg3"}
	out := [][]string{{}}
	var rec func(cur []string, used int)
	rec = func(cur []string, used int) {
		for i, a := range algs {
			if used&(1<<i) != 0 {
				continue
			}
			next := append(append([]string{}, cur...), a)
			out = append(out, next)
			rec(next, used|1<<i)
		}
	}
	rec(nil, 0)
	return out
}

func c08Decompress(alg string, p []byte) ([]byte, error) {
	switch alg {
	case "gzip":
		return Gunzip(p)
	case "", "identity":
		return p, nil
	}
	if m, ok := c08Magic[alg]; ok {
		return XorDecode(m, p)
	}
	return nil, fmt.Errorf("reference has no algorithm %q", alg)
}

func c08Compress(alg string, p []byte) []byte {
	if alg == "gzip" {
		return Gzip(p)
	}
	return XorEncode(c08Magic[alg], p)
}

type c08Case struct {
	Proto   Proto    `json:"proto"`
	Kind    Kind     `json:"kind"`
	Client  []string `json:"client"`  // client registration order (after the default gzip)
	Handler []string `json:"handler"` // handler registration order (after the default gzip)
	Send    string   `json:"send"`    // "", or the algorithm the client sends with
	Min     int      `json:"min"`     // compress-min-bytes on both sides
	Size    int      `json:"size"`    // encoded message size
}

func (k c08Case) key() string {
	return fmt.Sprintf("%s/%s/c%v/h%v/send=%s/min%d/size%d", k.Proto, k.Kind, k.Client, k.Handler, k.Send, k.Min, k.Size)
}

func encHeaders(p Proto, kind Kind) (enc, accept string) {
	switch {
	case p == PConnect && kind == KUnary:
		return "Content-Encoding", "Accept-Encoding"
	case p == PConnect:
		return "Connect-Content-Encoding", "Connect-Accept-Encoding"
	}
	return "Grpc-Encoding", "Grpc-Accept-Encoding"
}

func splitList(s string) []string {
	return strings.FieldsFunc(s, func(r rune) bool { return r == ',' || r == ' ' })
}

func contains(list []string, s string) bool {
	for _, x := range list {
		if x == s {
			return true
		}
	}
	return false
}

// c08JudgeResponse checks the response side of a recorded exchange.
// handlerSet: algorithms the handler supports; payloads: what the handler sent.
func c08JudgeResponse(p Proto, kind Kind, reqHeader, respHeader http.Header, respBody []byte, handlerSet []string, min int, payloads [][]byte, viol func(clause, outcome, format string, args ...any)) {
	encH, accH := encHeaders(p, kind)
	reqAlg := reqHeader.Get(encH)
	if reqAlg == "identity" {
		reqAlg = ""
	}
	advertised := splitList(reqHeader.Get(accH))
	respAlg := respHeader.Get(encH)
	if respAlg == "identity" {
		respAlg = ""
	}
	// which algorithm may the handler use?
	if respAlg != "" {
		if !contains(handlerSet, respAlg) {
			viol("response-algorithm-supported", "unsupported", "response names %s=%q which the handler does not support (%v)", encH, respAlg, handlerSet)
			return
		}
		if respAlg != reqAlg && !contains(advertised, respAlg) {
			viol("response-algorithm-acceptable", "not-offered", "response uses %q, request used %q and advertised %v", respAlg, reqAlg, advertised)
			return
		}
	}
	if reqAlg == "" {
		want := ""
		for _, a := range advertised {
			if contains(handlerSet, a) {
				want = a
				break
			}
		}
		// the handler may skip compression for small messages; if it names one it must be the preferred one
		if respAlg != "" && respAlg != want {
			viol("client-preference", "other", "client advertised %v, handler supports %v: response uses %q, the client's most preferred mutual one is %q", advertised, handlerSet, respAlg, want)
			return
		}
		if want != "" && respAlg == "" && (p != PConnect || kind != KUnary) {
			// streaming-style protocols announce the algorithm up front
			viol("client-preference", "none", "client advertised %v, handler supports %v, but the response names no algorithm", advertised, handlerSet)
			return
		}
	}
	// body
	var frames []refwire.Env
	if p == PConnect && kind == KUnary {
		flags := byte(0)
		if respAlg != "" {
			flags = 1
		}
		frames = []refwire.Env{{Flags: flags, Payload: respBody}}
	} else {
		var err error
		frames, err = refwire.SplitEnvelopes(respBody)
		if err != nil {
			viol("response-framing", "malformed", "response body: %v", err)
			return
		}
	}
	i := 0
	for _, f := range frames {
		if f.Flags&^1 != 0 {
			// terminator frames (end-of-stream message, trailer block) are not application
			// messages, but they are length-prefixed messages on the wire: below the
			// threshold they go uncompressed like the others
			if f.Flags&1 != 0 && respAlg != "" {
				if raw, err := c08Decompress(respAlg, f.Payload); err != nil {
					viol("lossless", "undecodable", "terminator frame (flags %#02x) does not decompress with %q: %v", f.Flags, respAlg, err)
					return
				} else if len(raw) < min {
					viol("min-bytes", "small-terminator-compressed", "terminator frame (flags %#02x) of %d bytes is below compress-min-bytes %d but was sent compressed", f.Flags, len(raw), min)
					return
				}
			}
			continue
		}
		if i >= len(payloads) {
			break
		}
		data := f.Payload
		if f.Flags&1 != 0 {
			if respAlg == "" {
				viol("flag-needs-header", "flag-without-header", "message %d is flagged compressed but no %s names an algorithm", i, encH)
				return
			}
			if len(payloads[i]) < min {
				viol("min-bytes", "small-compressed", "message %d of %d bytes is below compress-min-bytes %d but was sent compressed", i, len(payloads[i]), min)
				return
			}
			var err error
			data, err = c08Decompress(respAlg, f.Payload)
			if err != nil {
				viol("lossless", "undecodable", "message %d does not decompress with %q: %v", i, respAlg, err)
				return
			}
		}
		if !bytes.Equal(data, payloads[i]) {
			viol("lossless", "differs", "message %d decodes to %s, handler sent %s", i, shortBytes(data), shortBytes(payloads[i]))
			return
		}
		i++
	}
}

func c08Options(order []string, client bool) (co []connect.ClientOption, ho []connect.HandlerOption) {
	for _, a := range order {
		d, cp := XorAlg(c08Magic[a])
		if client {
			co = append(co, connect.WithAcceptCompression(a, d, cp))
		} else {
			ho = append(ho, connect.WithCompression(a, d, cp))
		}
	}
	return
}

func c08Check(c *ev.Collector, k c08Case) {
	userRan := 0
	var sent [][]byte
	_, hopts := c08Options(k.Handler, false)
	hopts = append(hopts, connect.WithCompressMinBytes(k.Min))
	h := NewHandler(k.Kind, func(ctx context.Context, s HStream) error {
		userRan++
		var got [][]byte
		for {
			m, err := s.Receive()
			if err != nil {
				break
			}
			got = append(got, cloneBytes(m.Value))
		}
		n := 1
		if k.Kind.ServerStreams() {
			n = 2
		}
		for i := 0; i < n; i++ {
			m := &BV{Value: Payload(k.Size, byte(0x31+i))}
			b, _ := proto.Marshal(m)
			sent = append(sent, b)
			if err := s.Send(m); err != nil {
				return err
			}
		}
		return nil
	}, hopts...)
	tr := &memhttp.Transport{Handler: h, Proto: 2, SyncCloseReq: true}
	copts, _ := c08Options(k.Client, true)
	copts = append(copts, connect.WithCompressMinBytes(k.Min))
	if k.Send != "" {
		copts = append(copts, connect.WithSendCompression(k.Send))
	}
	cl := NewClient(tr, Cfg{Proto: k.Proto, Comp: CompDefault}, copts...)
	reqPayload := Payload(k.Size, 0x61)
	var res CallResult
	g := Guarded(func() { res = RunCall(context.Background(), cl, k.Kind, [][]byte{reqPayload}, nil) }, tr)
	tags := []string{"proto=" + k.Proto.String(), "kind=" + k.Kind.String()}
	bad := false
	viol := func(clause, outcome, format string, args ...any) {
		bad = true
		c.Violation("TestC08", clause, outcome, tags, k, "%s: "+format, append([]any{k.key()}, args...)...)
	}
	c.AddTransitions(4)
	c.AddStates(4)
	c.AddTraces(1)
	if g.Hung || g.Panicked {
		viol("terminates", "hang-or-panic", "hung=%v panic=%v\n%s", g.Hung, g.Panic, g.Stack)
		c.Outcome("violation")
		BailIfStuck(c, g)
		return
	}
	clientSet := append([]string{"gzip"}, k.Client...)
	handlerSet := append([]string{"gzip"}, k.Handler...)
	ex := tr.Last()
	switch {
	case k.Send != "" && !contains(clientSet, k.Send):
		// the client was configured to send with an algorithm it never registered
		if res.Err == nil || ex != nil {
			viol("unregistered-send", "sent", "client configured with unregistered send compression %q: err=%v, request made=%v", k.Send, res.Err, ex != nil)
		}
		c.Outcome("client-config-error")
	case k.Send != "" && !contains(handlerSet, k.Send) && k.Size > 0 && k.Size >= k.Min:
		// request compressed with an algorithm the handler lacks
		if userRan != 0 {
			viol("unknown-request-algorithm", "user-code-ran", "handler lacks %q but user code ran", k.Send)
		}
		var ce *connect.Error
		if !errors.As(res.Err, &ce) || ce.Code() != connect.CodeUnimplemented {
			viol("unknown-request-algorithm", "code="+classifyErr(res.Err), "handler lacks %q: client saw %v, want unimplemented", k.Send, res.Err)
		} else {
			for _, a := range handlerSet {
				if !strings.Contains(ce.Message(), a) {
					viol("unknown-request-algorithm", "list-incomplete", "error %q does not list supported algorithm %q", ce.Message(), a)
				}
			}
		}
		c.Outcome("unimplemented")
	case k.Send != "" && !contains(handlerSet, k.Send):
		// header names an unknown algorithm even though the (small) message itself went uncompressed: rejection is what the property asks for
		var ce *connect.Error
		if userRan != 0 || !errors.As(res.Err, &ce) || ce.Code() != connect.CodeUnimplemented {
			if k.Proto == PConnect && k.Kind == KUnary && res.Err == nil {
				// unary Connect names the encoding only when it compresses: nothing unknown was announced
				c.Outcome("ok")
				break
			}
			viol("unknown-request-algorithm", "code="+classifyErr(res.Err), "handler lacks %q: client saw %v (user code ran %d times), want unimplemented", k.Send, res.Err, userRan)
		}
		c.Outcome("unimplemented")
	default:
		if res.Err != nil {
			viol("call-succeeds", "error", "call failed: %v", res.Err)
			break
		}
		if ex == nil {
			viol("call-succeeds", "no-exchange", "no exchange recorded")
			break
		}
		// request direction: flagged only with a named algorithm, below min uncompressed, lossless
		encH, _ := encHeaders(k.Proto, k.Kind)
		reqAlg := ex.ReqHeader.Get(encH)
		reqBody, _ := proto.Marshal(&BV{Value: reqPayload})
		c08JudgeRequest(k, reqAlg, ex.ReqBody, reqBody, viol)
		c08JudgeResponse(k.Proto, k.Kind, ex.ReqHeader, ex.RespHeader, ex.RespBody, handlerSet, k.Min, sent, viol)
		for i, m := range res.Msgs {
			if !bytes.Equal(m, Payload(k.Size, byte(0x31+i))) {
				viol("lossless", "client-differs", "client decoded message %d as %s", i, shortBytes(m))
			}
		}
		if !bad {
			c.Outcome("ok")
		}
	}
	if bad {
		c.Outcome("violation")
	}
}

func c08JudgeRequest(k c08Case, reqAlg string, wire, want []byte, viol func(clause, outcome, format string, args ...any)) {
	if reqAlg == "identity" {
		reqAlg = ""
	}
	var frames []refwire.Env
	if k.Proto == PConnect && k.Kind == KUnary {
		flags := byte(0)
		if reqAlg != "" {
			flags = 1
		}
		frames = []refwire.Env{{Flags: flags, Payload: wire}}
	} else {
		var err error
		frames, err = refwire.SplitEnvelopes(wire)
		if err != nil {
			viol("request-framing", "malformed", "request body: %v", err)
			return
		}
	}
	if len(frames) == 0 {
		viol("request-framing", "empty", "no request message on the wire")
		return
	}
	f := frames[0]
	data := f.Payload
	if f.Flags&1 != 0 {
		if reqAlg == "" {
			viol("flag-needs-header", "flag-without-header", "request message flagged compressed without an encoding header")
			return
		}
		if len(want) < k.Min {
			viol("min-bytes", "small-compressed", "request message of %d bytes is below compress-min-bytes %d but was sent compressed", len(want), k.Min)
			return
		}
		var err error
		data, err = c08Decompress(reqAlg, f.Payload)
		if err != nil {
			viol("lossless", "undecodable", "request does not decompress with %q: %v", reqAlg, err)
			return
		}
	}
	if !bytes.Equal(data, want) {
		viol("lossless", "differs", "request decodes to %s, client sent %s", shortBytes(data), shortBytes(want))
	}
}

// c08Raw: raw requests with every Encoding / Accept-Encoding header pair.
type c08RawCase struct {
	Proto   Proto    `json:"proto"`
	Kind    Kind     `json:"kind"`
	Handler []string `json:"handler"`
	Enc     string   `json:"enc"`    // "-" = header absent
	Accept  string   `json:"accept"` // "-" = header absent
}

func (k c08RawCase) key() string {
	return fmt.Sprintf("raw/%s/%s/h%v/enc=%q/accept=%q", k.Proto, k.Kind, k.Handler, k.Enc, k.Accept)
}

func c08RawCheck(c *ev.Collector, k c08RawCase) {
	userRan := 0
	var sent [][]byte
	_, hopts := c08Options(k.Handler, false)
	h := NewHandler(k.Kind, func(ctx context.Context, s HStream) error {
		userRan++
		for {
			if _, err := s.Receive(); err != nil {
				break
			}
		}
		m := &BV{Value: Payload(200, 0x42)}
		b, _ := proto.Marshal(m)
		sent = append(sent, b)
		return s.Send(m)
	}, hopts...)
	handlerSet := append([]string{"gzip"}, k.Handler...)
	payload, _ := proto.Marshal(&BV{Value: Payload(100, 0x33)})
	wirePayload := payload
	flags := byte(0)
	encAlg := k.Enc
	if encAlg == "-" || encAlg == "identity" {
		encAlg = ""
	}
	known := encAlg == "gzip" || c08Magic[encAlg] != 0
	if encAlg != "" && known {
		wirePayload = c08Compress(encAlg, payload)
		flags = 1
	}
	var ct string
	body := refwire.Envelope(flags, wirePayload)
	switch k.Proto {
	case PConnect:
		if k.Kind == KUnary {
			ct, body = "application/proto", wirePayload
		} else {
			ct = "application/connect+proto"
		}
	case PGRPC:
		ct = "application/grpc"
	default:
		ct = "application/grpc-web+proto"
	}
	req := httptest.NewRequest("POST", "http://mem.test"+Procedure, bytes.NewReader(body))
	req.ProtoMajor, req.ProtoMinor, req.Proto = 2, 0, "HTTP/2.0"
	req.Header.Set("Content-Type", ct)
	encH, accH := encHeaders(k.Proto, k.Kind)
	if k.Enc != "-" {
		req.Header[encH] = []string{k.Enc}
	}
	if k.Accept != "-" {
		req.Header[accH] = []string{k.Accept}
	}
	rec := httptest.NewRecorder()
	g := Guarded(func() { h.ServeHTTP(rec, req) })
	tags := []string{"proto=" + k.Proto.String(), "kind=" + k.Kind.String(), "raw"}
	bad := false
	viol := func(clause, outcome, format string, args ...any) {
		bad = true
		c.Violation("TestC08", clause, outcome, tags, k, "%s: "+format, append([]any{k.key()}, args...)...)
	}
	c.AddTransitions(2)
	c.AddStates(2)
	c.AddTraces(1)
	if g.Hung || g.Panicked {
		viol("terminates", "hang-or-panic", "hung=%v panic=%v\n%s", g.Hung, g.Panic, g.Stack)
		c.Outcome("violation")
		BailIfStuck(c, g)
		return
	}
	code := respCode(k.Proto, k.Kind, rec)
	if encAlg != "" && !contains(handlerSet, encAlg) {
		if userRan != 0 || code != "unimplemented" {
			viol("unknown-request-algorithm", "code="+code, "request encoding %q is not supported by the handler (%v): answered %s, user code ran %d times", encAlg, handlerSet, code, userRan)
		} else {
			body := rec.Body.String() + rec.Header().Get("Grpc-Message") + rec.Result().Trailer.Get("Grpc-Message") + rec.Header().Get("Trailer:Grpc-Message")
			for _, a := range handlerSet {
				if !strings.Contains(body, a) {
					viol("unknown-request-algorithm", "list-incomplete", "rejection does not list supported algorithm %q: %q", a, clip(body, 200))
				}
			}
		}
		c.Outcome("unimplemented")
	} else {
		if code != "ok" || userRan != 1 {
			viol("call-succeeds", "code="+code, "valid request answered %s (user code ran %d times; HTTP %d %q)", code, userRan, rec.Code, clip(rec.Body.String(), 100))
		} else {
			respHeader := rec.Header().Clone()
			c08JudgeResponse(k.Proto, k.Kind, req.Header, respHeader, rec.Body.Bytes(), handlerSet, 0, sent, viol)
		}
		if !bad {
			c.Outcome("ok")
		}
	}
	if bad {
		c.Outcome("violation")
	}
}

// c08History: corrupt and valid compressed calls interleaved on one shared
// Client and Handler (shared compressor / decompressor pools).
func c08History(t *testing.T, c *ev.Collector, p Proto, kind Kind, hist int, n int, respSide bool) {
	key := fmt.Sprintf("history/%s/%s/resp=%v/%0*b", p, kind, respSide, n, hist)
	c.Case(key, hist != 0)
	Bubble(t, func() {
		corruptNext := false
		real := NewHandler(kind, func(ctx context.Context, s HStream) error {
			var got []byte
			for {
				m, err := s.Receive()
				if err != nil {
					if !errors.Is(err, io.EOF) {
						return err
					}
					break
				}
				got = append(got, m.Value...)
			}
			return s.Send(&BV{Value: append([]byte{'r'}, got...)})
		})
		// a peer that answers with a corrupt gzip message (response-side corruption)
		fake := http.HandlerFunc(func(w http.ResponseWriter, r *http.Request) {
			encH, _ := encHeaders(p, kind)
			w.Header().Set("Content-Type", r.Header.Get("Content-Type"))
			w.Header().Set(encH, "gzip")
			garbage := []byte{0x1f, 0x8b, 0x08, 0x00, 0xde, 0xad, 0xbe, 0xef, 0x00, 0xff, 0x01, 0x02}
			if p == PConnect && kind == KUnary {
				_, _ = w.Write(garbage)
				return
			}
			_, _ = w.Write(refwire.Envelope(1, garbage))
			if p == PGRPC {
				w.Header().Set(http.TrailerPrefix+"Grpc-Status", "0")
			}
		})
		tr := &memhttp.Transport{SyncCloseReq: true, Proto: 2}
		tr.Handler = http.HandlerFunc(func(w http.ResponseWriter, r *http.Request) {
			if corruptNext && respSide {
				fake.ServeHTTP(w, r)
				return
			}
			real.ServeHTTP(w, r)
		})
		cl := NewClient(tr, Cfg{Proto: p, Comp: CompSendGzip})
		tags := []string{"proto=" + p.String(), "kind=" + kind.String(), "history"}
		for i := 0; i < n; i++ {
			corrupt := hist&(1<<i) != 0
			corruptNext = corrupt
			payload := Payload(300+i, byte(0x50+i))
			var res CallResult
			var g GuardResult
			if corrupt && !respSide {
				// request-side corruption: a raw request with a corrupt gzip message straight into the shared handler
				body := refwire.Envelope(1, []byte{0x1f, 0x8b, 0x08, 0x00, 0xba, 0xad, 0xf0, 0x0d})
				ct := map[Proto]string{PConnect: "application/connect+proto", PGRPC: "application/grpc", PGRPCWeb: "application/grpc-web"}[p]
				if p == PConnect && kind == KUnary {
					ct, body = "application/proto", body[5:]
				}
				req := httptest.NewRequest("POST", "http://mem.test"+Procedure, bytes.NewReader(body))
				req.ProtoMajor, req.ProtoMinor, req.Proto = 2, 0, "HTTP/2.0"
				req.Header.Set("Content-Type", ct)
				encH, _ := encHeaders(p, kind)
				req.Header.Set(encH, "gzip")
				rec := httptest.NewRecorder()
				g = Guarded(func() { real.ServeHTTP(rec, req) })
				if code := respCode(p, kind, rec); !g.Hung && !g.Panicked && code == "ok" {
					c.Violation("TestC08", "corrupt-rejected", "accepted", tags, key, "%s: call %d: corrupt compressed request was answered ok", key, i)
				}
			} else {
				g = Guarded(func() { res = RunCall(context.Background(), cl, kind, [][]byte{payload}, nil) }, tr)
			}
			c.AddTransitions(3)
			c.AddStates(1)
			if g.Hung || g.Panicked {
				c.Violation("TestC08", "terminates", "hang-or-panic", tags, key, "%s: call %d: hung=%v panic=%v\n%s", key, i, g.Hung, g.Panic, g.Stack)
				BailIfStuck(c, g)
				return
			}
			if corrupt {
				if respSide && res.Err == nil {
					c.Violation("TestC08", "corrupt-rejected", "accepted", tags, key, "%s: call %d: corrupt compressed response was accepted", key, i)
				}
				continue
			}
			want := append([]byte{'r'}, payload...)
			if res.Err != nil || len(res.Msgs) != 1 || !bytes.Equal(res.Msgs[0], want) {
				c.Violation("TestC08", "corruption-is-contained", "later-call-affected", tags, key, "%s: valid call %d after history %0*b: err=%v msgs=%s", key, i, n, hist&((1<<i)-1), res.Err, shortMsgs(res.Msgs))
				c.Outcome("violation")
				return
			}
		}
		c.AddTraces(1)
		c.Outcome("history-ok")
	})
}

func TestC08(t *testing.T) {
	c := ev.New("C08")
	defer func() { _ = c.Finish() }()
	c.SetRule("configuration + history enumeration: every registration order of every subset of {alg1,alg2,alg3} on the client x on the handler (gzip always present; 16 x 16) x send-compression {none, gzip, each algorithm incl. unregistered ones} x protocols x {unary, server-stream} (quick: a third of the handler orders per client order, rotating) ; compress-min-bytes t with sizes {0,t-1,t,t+1}; raw requests with every (encoding, accept-encoding) header pair of a menu incl. unknown, empty, spaced and reordered lists; histories of length <= 4 over {valid, corrupt} compressed calls through one shared Client/Handler, request-side and response-side corruption; plus two valid compressed calls running concurrently under the controlled scheduler (both default schedulers, delay bound 1) after a corrupt one (wrong CRC trailer / truncated data) went through the shared handler; oracle reads the recorded wire exchange and decompresses with reference implementations; distinct = full tuple, non-trivial = at least one non-default algorithm, threshold or corrupt call")
	c.Assume("custom algorithms are magic-byte XOR codecs so that data decoded with the wrong algorithm never decodes by accident", "memhttp records the exact bytes both sides wrote")
	if ev.ReplayFile() != "" {
		var rk c08RawCase
		if _, err := ev.LoadReplay(&rk); err == nil && rk.Enc != "" {
			Bubble(t, func() { c08RawCheck(c, rk) })
			return
		}
		var sk c08RawSchedCase
		if _, err := ev.LoadReplay(&sk); err == nil && sk.Bound > 0 && sk.RawSched {
			schedRoundRobin = sk.RR
			x := runSched(t, sk.Prefix, nil, 20000, func(s *bsched.Sched) any { return c08RawSchedBody(sk, s) })
			fmt.Println("replay:", c08RawSchedJudge(c, sk, x), schedLine(x))
			return
		}
		var ck c13Case
		if _, err := ev.LoadReplay(&ck); err == nil && len(ck.Calls) > 0 {
			c13TestName = "TestC08"
			solo := c13Solo(t, ck)
			schedRoundRobin = ck.RR
			x := runSched(t, ck.Prefix, nil, 20000, func(s *bsched.Sched) any { return c13Body(ck, s) })
			fmt.Println("replay:", c13Judge(c, ck, x, solo), schedLine(x))
			return
		}
		var k c08Case
		if _, err := ev.LoadReplay(&k); err == nil && k.Size != 0 {
			Bubble(t, func() { c08Check(c, k) })
			return
		}
		return
	}
	thorough := ev.Thorough()
	orders := c08Orders()
	idx := 0
	run := func(k c08Case) {
		idx++
		if !ev.Mine(idx) || c.Expired() {
			return
		}
		c.Case(k.key(), len(k.Client)+len(k.Handler) > 0 || k.Send != "" || k.Min > 0)
		Bubble(t, func() { c08Check(c, k) })
		if idx%7919 == 0 {
			c.Sample(map[string]any{"case": k.key()})
		}
	}
	for _, p := range AllProtos {
		for _, kind := range []Kind{KUnary, KServer} {
			for ci, co := range orders {
				for hi, ho := range orders {
					if !thorough && (ci+hi)%3 != 0 {
						continue
					}
					sends := []string{"", "gzip", "alg1", "alg3"}
					if thorough {
						sends = []string{"", "gzip", "alg1", "alg2", "alg3"}
					}
					for _, s := range sends {
						run(c08Case{Proto: p, Kind: kind, Client: co, Handler: ho, Send: s, Min: 0, Size: 120})
					}
				}
			}
			// thresholds
			for _, send := range []string{"", "gzip", "alg1"} {
				for _, size := range []int{0, MinBytes - 1, MinBytes, MinBytes + 1} {
					run(c08Case{Proto: p, Kind: kind, Client: []string{"alg1"}, Handler: []string{"alg1"}, Send: send, Min: MinBytes, Size: size})
					run(c08Case{Proto: p, Kind: kind, Client: nil, Handler: []string{"alg2"}, Send: send, Min: MinBytes, Size: size})
				}
			}
		}
	}
	// raw header pairs
	encs := []string{"-", "", "identity", "gzip", "alg1", "alg2", "zstd", "GZIP"}
	accepts := []string{"-", "", "gzip", "alg2,alg1", "alg1, gzip", "zstd,alg1", "zstd", "identity", "alg1 , gzip", "alg3,alg2,alg1,gzip", "gzip;q=0.5"}
	handlerOrders := [][]string{{}, {"alg1"}, {"alg2", "alg1"}, {"alg1", "alg2", "alg3"}}
	for _, p := range AllProtos {
		for _, kind := range []Kind{KUnary, KServer} {
			for _, ho := range handlerOrders {
				for _, e := range encs {
					for _, a := range accepts {
						idx++
						if !ev.Mine(idx) || c.Expired() {
							continue
						}
						k := c08RawCase{Proto: p, Kind: kind, Handler: ho, Enc: e, Accept: a}
						c.Case(k.key(), true)
						Bubble(t, func() { c08RawCheck(c, k) })
						if idx%3001 == 0 {
							c.Sample(map[string]any{"case": k.key()})
						}
					}
				}
			}
		}
	}
	// the same clause under concurrency: two valid compressed calls run under the controlled scheduler
	// after a corrupt one went through the shared handler (both default schedulers, delay bound 1)
	c13TestName = "TestC08"
	concurrent := c13AfterCorrupt()
	for _, k := range concurrent {
		idx++
		if !ev.Mine(idx) || c.Expired() {
			continue
		}
		c13Explore(t, c, k)
	}
	c13TestName = "TestC13"
	c08RequestReuse(t, c)
	c08TwoClients(t, c)
	c08NilConstructors(t, c)
	// peers with different compression habits, one after the other through a handler that supports two algorithms
	{
		d, co := XorAlg(0xA1)
		mixedPeers(t, c, "TestC08", []connect.HandlerOption{connect.WithCompression("alg1", d, co), connect.WithCompressMinBytes(1)},
			[]mixedPeer{{enc: "", accept: "gzip"}, {enc: "", accept: "alg1"}, {enc: "", accept: "alg1,gzip"}, {enc: "", accept: "gzip,alg1"}, {enc: "alg1", accept: "gzip"}, {enc: "gzip", accept: "alg1"}, {enc: "alg1", accept: "gzip,alg1"}, {enc: "gzip", accept: "alg1,gzip"}, {enc: "alg1", accept: ""}, {enc: "", accept: ""}, {httpAccept: "gzip"}, {httpAccept: "alg1, gzip"}})
	}
	// two requests compressed with a custom algorithm served concurrently by one handler
	for _, p := range AllProtos {
		for _, kind := range []Kind{KUnary, KServer} {
			if kind == KServer && !thorough {
				continue
			}
			for _, rr := range []bool{false, true} {
				subs := 3
				for sub := 0; sub < subs; sub++ {
					idx++
					if !ev.Mine(idx) || c.Expired() {
						continue
					}
					c08RawSchedExplore(t, c, c08RawSchedCase{Proto: p, Kind: kind, RR: rr, Bound: 2, Sub: sub, Subs: subs})
				}
			}
		}
	}
	// histories
	n := 3
	if thorough {
		n = 4
	}
	c.Bound("history_length", n)
	for _, p := range AllProtos {
		for _, kind := range []Kind{KUnary, KServer, KClient} {
			for _, respSide := range []bool{false, true} {
				for hist := 0; hist < 1<<n; hist++ {
					idx++
					if !ev.Mine(idx) || c.Expired() {
						continue
					}
					c08History(t, c, p, kind, hist, n, respSide)
				}
			}
		}
	}
}

// c08RawSchedCase: two raw requests, each compressed with the custom algorithm
// (whose methods are yield points), are served concurrently by one handler
// under the controlled scheduler; only handler-side code runs, so the delay
// bound can be 2.
type c08RawSchedCase struct {
	Proto    Proto `json:"proto"`
	Kind     Kind  `json:"kind"`
	RR       bool  `json:"rr,omitempty"`
	Bound    int   `json:"bound"`
	RawSched bool  `json:"raw_sched"`
	Sub      int   `json:"sub"`
	Subs     int   `json:"subs"`
	Prefix   []int `json:"prefix,omitempty"`
}

func (k c08RawSchedCase) key() string {
	pol := "rtb"
	if k.RR {
		pol = "rr"
	}
	return fmt.Sprintf("raw-concurrent/%s/%s/%s/d%d/%d-of-%d", k.Proto, k.Kind, pol, k.Bound, k.Sub, k.Subs)
}

type c08RawSchedObs struct {
	Got    [2]string
	Want   [2]string
	Stacks string
}

func c08RawSchedBody(k c08RawSchedCase, s *bsched.Sched) any {
	obs := &c08RawSchedObs{}
	d, co := XorAlg(0xA1)
	h := NewHandler(k.Kind, func(ctx context.Context, st HStream) error {
		var got []byte
		for {
			m, err := st.Receive()
			if err != nil {
				break
			}
			got = append(got, m.Value...)
		}
		return st.Send(&BV{Value: append([]byte{'r'}, got...)})
	}, connect.WithCompression("rev1", d, co), connect.WithCompressMinBytes(1))
	encH, accH := encHeaders(k.Proto, k.Kind)
	for i := 0; i < 2; i++ {
		i := i
		value := Payload(40+30*i, byte('A'+i))
		obs.Want[i] = fmt.Sprintf("code=0 msgs=[%x]", append([]byte{'r'}, value...))
		s.Go(fmt.Sprintf("t%d", i), func() {
			z := XorEncode(0xA1, codecMarshal(false, &BV{Value: value}))
			body := z
			if !(k.Proto == PConnect && k.Kind == KUnary) {
				body = refwire.Envelope(1, z)
			}
			req := RawRequest(context.Background(), k.Proto, k.Kind, false, bytes.NewReader(body))
			req.Header.Set(encH, "rev1")
			req.Header.Set(accH, "rev1")
			rec := httptest.NewRecorder()
			h.ServeHTTP(rec, req)
			status, header, rbody, trailer := recParts(rec)
			rs := refwire.DecodeResponse(wireProto(k.Proto), k.Kind == KUnary, req.Header.Get("Content-Type"), status, header, rbody, trailer, AnyDecompress)
			var msgs []string
			for _, m := range rs.Msgs {
				var bv BV
				_ = proto.Unmarshal(m, &bv)
				msgs = append(msgs, fmt.Sprintf("%x", bv.Value))
			}
			obs.Got[i] = fmt.Sprintf("code=%d msgs=%v", rs.End.Code, msgs)
			if len(rs.Problems) > 0 || rs.End.Code != 0 {
				obs.Got[i] += fmt.Sprintf(" message=%q problems=%v", rs.End.Message, rs.Problems)
			}
		})
	}
	s.Run()
	if s.Deadlock || s.Horizon {
		obs.Stacks = bsched.AllStacks()
	}
	s.Release()
	return obs
}

func c08RawSchedJudge(c *ev.Collector, k c08RawSchedCase, x *bsched.Exec) string {
	obs := x.Obs.(*c08RawSchedObs)
	kk := k
	kk.RawSched = true
	kk.Prefix = x.TrimmedChoices()
	tags := []string{"proto=" + k.Proto.String(), "kind=" + k.Kind.String(), "concurrent", "custom-algorithm"}
	if x.Horizon {
		c.NotExhaustive("step horizon reached in " + k.key())
		return "horizon"
	}
	if x.Deadlock {
		c.Violation("TestC08", "terminates", "deadlock", tags, kk, "%s [%s]: blocked threads %v\n%s", k.key(), schedLine(x), x.Blocked, trimStacks(obs.Stacks))
		return "deadlock"
	}
	for i := 0; i < 2; i++ {
		if obs.Got[i] != obs.Want[i] {
			c.Violation("TestC08", "lossless", "differs", tags, kk, "%s [%s]: request %d (compressed with the custom algorithm, served while the other request was in progress) was answered %s; alone it is answered %s\n  schedule: %v", k.key(), schedLine(x), i, obs.Got[i], obs.Want[i], traceOf(x, 300))
			return "violation"
		}
	}
	return "ok"
}

func c08RawSchedExplore(t *testing.T, c *ev.Collector, k c08RawSchedCase) {
	schedRoundRobin = k.RR
	defer func() { schedRoundRobin = false }()
	c.Case(k.key(), true)
	e := &bsched.Explorer{
		Delay: true,
		Bound: k.Bound,
		Shard: k.Sub, Shards: k.Subs,
		Run: func(prefix []int, expect []bsched.Point) *bsched.Exec {
			return runSched(t, prefix, expect, 20000, func(s *bsched.Sched) any { return c08RawSchedBody(k, s) })
		},
		Stop: c.Expired,
	}
	e.OnExec = func(x *bsched.Exec) { c.Outcome(c08RawSchedJudge(c, k, x)) }
	e.Explore()
	c.AddExtra("replay_deviations_recovered", int64(len(e.Recovered)))
	for _, d := range e.Divergences {
		c.HarnessError("replay divergence in %s: %s", k.key(), d)
	}
	if e.Capped {
		c.NotExhaustive("exploration of " + k.key() + " stopped by the time budget")
	}
	c.AddStates(e.States)
	c.AddTransitions(e.Transitions)
	c.AddTraces(e.Executions)
	c.AddExtra("executions", e.Executions)
}
