#!/bin/bash
# tools/ns_try.sh <patch.diff|-> <property> [tier] [jobs-tag]
# Runs ./check <property> <tier> against a scratch COPY of /repo (with the patch applied; "-" = no patch) and a
# scratch copy of /verif, inside a private mount namespace in which the copies are bind-mounted at /repo and
# /verif.  /repo and /verif themselves are never touched, so several of these can run side by side (and beside
# work in /verif).  Prints the check's output; exit status is the check's.  Scratch copies are removed.
set -u
patch=$1; prop=$2; tier=${3:-quick}
S=$(mktemp -d /tmp/ns.XXXXXX)
trap 'rm -rf $S' EXIT
mkdir -p $S/repo $S/verif
rsync -a --exclude .git /repo/ $S/repo/
rsync -a --exclude .git --exclude out/work --exclude out/logs --exclude out/replays --exclude seeded --exclude evidence ${VERIF_SRC:-/verif}/ $S/verif/
mkdir -p $S/verif/evidence
if [ "$patch" != "-" ]; then
  (cd $S/repo && git apply --unsafe-paths --directory=$S/repo "$patch") 2>$S/apply.err || (cd $S/repo && patch -p1 -s < "$patch") || { echo "PATCH-DOES-NOT-APPLY"; cat $S/apply.err; exit 3; }
fi
unshare -m bash -c "mount --bind $S/repo /repo && mount --bind $S/verif /verif && cd /verif && ./check $prop $tier"
code=$?
if [ -n "${NS_KEEP_EVIDENCE:-}" ]; then cp $S/verif/evidence/$prop.json "$NS_KEEP_EVIDENCE" 2>/dev/null; fi
exit $code
