package props

import (
	"context"
	"errors"
	"fmt"
	"io"
	"testing"

	connect "github.com/bufbuild/connect-go"
	"google.golang.org/protobuf/proto"
	"google.golang.org/protobuf/types/known/structpb"

	"verifharness/ev"
	"verifharness/memhttp"
)

// c01Nested: messages with nested sub-messages (structpb.Struct: maps, lists,
// oneofs of messages), fresh and re-sent after an in-place update, through a
// unary and a bidi echo in every protocol and codec.
func c01Nested(t *testing.T, c *ev.Collector) {
	mk := func(i int) *structpb.Struct {
		s, err := structpb.NewStruct(map[string]any{
			"name":   fmt.Sprintf("msg-%d", i),
			"nested": map[string]any{"a": float64(i), "list": []any{1.0, "two", map[string]any{"deep": true, "n": float64(i * 7)}}},
			"empty":  map[string]any{},
		})
		if err != nil {
			panic(err)
		}
		return s
	}
	idx := 0
	for _, p := range AllProtos {
		for _, js := range []bool{false, true} {
			for _, comp := range []Comp{CompDefault, CompSendGzip} {
				for _, kind := range []Kind{KUnary, KBidi} {
					idx++
					if !ev.Mine(idx) {
						continue
					}
					cfg := Cfg{Proto: p, JSON: js, Comp: comp, Kind: kind, HTTP: 2}
					key := "nested/" + cfg.String()
					c.Case(key, true)
					Bubble(t, func() {
						var h *connect.Handler
						if kind == KUnary {
							h = connect.NewUnaryHandler(Procedure, func(ctx context.Context, r *connect.Request[structpb.Struct]) (*connect.Response[structpb.Struct], error) {
								return connect.NewResponse(proto.Clone(r.Msg).(*structpb.Struct)), nil
							})
						} else {
							h = connect.NewBidiStreamHandler(Procedure, func(ctx context.Context, s *connect.BidiStream[structpb.Struct, structpb.Struct]) error {
								for {
									m, err := s.Receive()
									if err != nil {
										if errors.Is(err, io.EOF) {
											return nil
										}
										return err
									}
									if err := s.Send(proto.Clone(m).(*structpb.Struct)); err != nil {
										return err
									}
								}
							})
						}
						tr := &memhttp.Transport{Handler: h, Proto: 2, SyncCloseReq: true}
						cl := connect.NewClient[structpb.Struct, structpb.Struct](tr, BaseURL+Procedure, cfg.ClientOptions()...)
						var got []*structpb.Struct
						var want []*structpb.Struct
						var callErr error
						g := Guarded(func() {
							reused := mk(100)
							msgs := []*structpb.Struct{mk(1), reused, reused, mk(2)}
							if kind == KUnary {
								for i, m := range msgs {
									if i == 2 {
										// in-place update of a nested value of a message that was already sent once
										m.Fields["nested"].GetStructValue().Fields["added"] = structpb.NewStringValue("after the first send")
									}
									want = append(want, proto.Clone(m).(*structpb.Struct))
									res, err := cl.CallUnary(context.Background(), connect.NewRequest(m))
									if err != nil {
										callErr = err
										return
									}
									got = append(got, res.Msg)
								}
								return
							}
							s := cl.CallBidiStream(context.Background())
							for i, m := range msgs {
								if i == 2 {
									m.Fields["nested"].GetStructValue().Fields["added"] = structpb.NewStringValue("after the first send")
								}
								want = append(want, proto.Clone(m).(*structpb.Struct))
								if err := s.Send(m); err != nil {
									callErr = err
									return
								}
								r, err := s.Receive()
								if err != nil {
									callErr = err
									return
								}
								got = append(got, r)
							}
							_ = s.CloseRequest()
							if _, err := s.Receive(); !errors.Is(err, io.EOF) {
								callErr = fmt.Errorf("stream did not end cleanly: %v", err)
							}
							_ = s.CloseResponse()
						}, tr)
						c.AddTransitions(int64(2 * len(want)))
						c.AddStates(int64(len(want) + 1))
						c.AddTraces(1)
						tags := append(cfg.Tags(), "nested-messages")
						switch {
						case g.Hung || g.Panicked:
							c.Violation("TestC01", "terminates", "hang-or-panic", tags, key, "%s: hung=%v panic=%v\n%s", key, g.Hung, g.Panic, g.Stack)
							BailIfStuck(c, g)
						case callErr != nil:
							c.Violation("TestC01", "client-clean-end", "error", tags, key, "%s: echo of nested messages failed: %v", key, callErr)
							c.Outcome("violation")
						default:
							for i := range want {
								if i >= len(got) || !proto.Equal(got[i], want[i]) {
									c.Violation("TestC01", "client-recv-seq", "mismatch", tags, key, "%s: message %d came back as %v, sent %v", key, i, got[i], want[i])
									c.Outcome("violation")
									return
								}
							}
							c.Outcome("ok")
						}
					})
				}
			}
		}
	}
}
