package verifdemo

import (
	"google.golang.org/protobuf/proto"
	"google.golang.org/protobuf/types/descriptorpb"
)

// rpc describes one method; in and out are fully-qualified message names with
// a leading dot.
type rpc struct {
	name         string
	in, out      string
	clientStream bool
	serverStream bool
}

func (r rpc) constructor() string {
	switch {
	case r.clientStream && r.serverStream:
		return "NewBidiStreamHandler"
	case r.clientStream:
		return "NewClientStreamHandler"
	case r.serverStream:
		return "NewServerStreamHandler"
	}
	return "NewUnaryHandler"
}

func (r rpc) call() string {
	switch {
	case r.clientStream && r.serverStream:
		return "CallBidiStream"
	case r.clientStream:
		return "CallClientStream"
	case r.serverStream:
		return "CallServerStream"
	}
	return "CallUnary"
}

type service struct {
	name string
	rpcs []rpc
}

func serviceProto(s service) *descriptorpb.ServiceDescriptorProto {
	out := &descriptorpb.ServiceDescriptorProto{Name: proto.String(s.name)}
	for _, r := range s.rpcs {
		m := &descriptorpb.MethodDescriptorProto{
			Name:       proto.String(r.name),
			InputType:  proto.String(r.in),
			OutputType: proto.String(r.out),
		}
		if r.clientStream {
			m.ClientStreaming = proto.Bool(true)
		}
		if r.serverStream {
			m.ServerStreaming = proto.Bool(true)
		}
		out.Method = append(out.Method, m)
	}
	return out
}

// fileProto builds a proto3 file. Every message gets one string field so that
// protoc-gen-go has something to generate.
func fileProto(name, pkg, goPackage string, deps []string, messages []string, services ...service) *descriptorpb.FileDescriptorProto {
	fd := &descriptorpb.FileDescriptorProto{
		Name:       proto.String(name),
		Syntax:     proto.String("proto3"),
		Dependency: deps,
		Options:    &descriptorpb.FileOptions{GoPackage: proto.String(goPackage)},
	}
	if pkg != "" {
		fd.Package = proto.String(pkg)
	}
	for _, m := range messages {
		fd.MessageType = append(fd.MessageType, &descriptorpb.DescriptorProto{
			Name: proto.String(m),
			Field: []*descriptorpb.FieldDescriptorProto{{
				Name:     proto.String("value"),
				JsonName: proto.String("value"),
				Number:   proto.Int32(1),
				Label:    descriptorpb.FieldDescriptorProto_LABEL_OPTIONAL.Enum(),
				Type:     descriptorpb.FieldDescriptorProto_TYPE_STRING.Enum(),
			}},
		})
	}
	for _, s := range services {
		fd.Service = append(fd.Service, serviceProto(s))
	}
	return fd
}
