package props

import (
	"context"
	"encoding/base64"
	"errors"
	"fmt"
	"io"
	"net/http"
	"sort"
	"strings"
	"testing"

	connect "github.com/bufbuild/connect-go"

	"verifharness/ev"
	"verifharness/memhttp"
	"verifharness/refwire"
)

// C06 — whatever a server sends, the client fails safely with a coded non-OK error.
//
// Engine: grammar-bounded exhaustive response enumeration (menus of header,
// status, body and trailer deviations, bounded by the number of simultaneous
// deviations, plus every short byte string over a framing alphabet) served by
// a fake peer to the real client.

var c06Statuses = []int{200, 204, 302, 400, 401, 403, 404, 408, 412, 413, 429, 431, 500, 502, 503, 504, 599}

var c06ConnectHTTPToCode = map[int]connect.Code{400: connect.CodeInvalidArgument, 401: connect.CodeUnauthenticated, 403: connect.CodePermissionDenied,
	404: connect.CodeUnimplemented, 408: connect.CodeDeadlineExceeded, 412: connect.CodeFailedPrecondition, 413: connect.CodeResourceExhausted,
	429: connect.CodeUnavailable, 431: connect.CodeResourceExhausted, 502: connect.CodeUnavailable, 503: connect.CodeUnavailable, 504: connect.CodeUnavailable}

var c06GRPCHTTPToCode = map[int]connect.Code{400: connect.CodeInternal, 401: connect.CodeUnauthenticated, 403: connect.CodePermissionDenied,
	404: connect.CodeUnimplemented, 429: connect.CodeUnavailable, 502: connect.CodeUnavailable, 503: connect.CodeUnavailable, 504: connect.CodeUnavailable}

var c06GrpcStatus = []string{"-", "0", "00", "3", "16", "17", "4294967295", "4294967296", "-1", "+3", "abc", ""}
var c06GrpcMessage = []string{"-", "ok", "%", "%zz", "%E2%98", "\xff\xfe"}
var c06Details = []string{"-", "valid", "code0", "other", "badb64", "badproto"}
var c06ContentTypes = []string{"echo", "-", "application/json", "text/html", "application/grpc", "a", "application/grpc-web+proto", "application/connect+proto", "application/proto"}
var c06Encodings = []string{"-", "gzip", "zstd", "", "identity"}

// body menu entries are built per protocol.
type c06BodyGen struct {
	name string
	gen  func(p Proto, kind Kind, js bool) []byte
}

func c06ValidMsg(js bool) []byte { return codecMarshal(js, &BV{Value: []byte("hello")}) }

func c06Terminator(p Proto, kind Kind) []byte {
	switch {
	case p == PGRPCWeb:
		return refwire.Envelope(0x80, []byte("grpc-status: 0\r\n"))
	case p == PConnect && kind != KUnary:
		return refwire.Envelope(2, []byte("{}"))
	}
	return nil
}

func c06Framed(p Proto, kind Kind, flags byte, payload []byte) []byte {
	if p == PConnect && kind == KUnary {
		return payload
	}
	return refwire.Envelope(flags, payload)
}

func c06Bodies() []c06BodyGen {
	valid := func(p Proto, kind Kind, js bool) []byte {
		return append(c06Framed(p, kind, 0, c06ValidMsg(js)), c06Terminator(p, kind)...)
	}
	out := []c06BodyGen{
		{"valid", valid},
		{"empty", func(Proto, Kind, bool) []byte { return nil }},
		{"no-terminator", func(p Proto, kind Kind, js bool) []byte { return c06Framed(p, kind, 0, c06ValidMsg(js)) }},
		{"truncated", func(p Proto, kind Kind, js bool) []byte { b := valid(p, kind, js); return b[:len(b)/2] }},
		{"garbage-payload", func(p Proto, kind Kind, js bool) []byte {
			return append(c06Framed(p, kind, 0, []byte{0xff, 0xff, 0xff, 0x01}), c06Terminator(p, kind)...)
		}},
		{"two-messages", func(p Proto, kind Kind, js bool) []byte {
			m := c06Framed(p, kind, 0, c06ValidMsg(js))
			return append(append(append([]byte{}, m...), m...), c06Terminator(p, kind)...)
		}},
		{"compressed-flag-garbage", func(p Proto, kind Kind, js bool) []byte {
			return append(c06Framed(p, kind, 1, []byte{0x1f, 0x8b, 0x00}), c06Terminator(p, kind)...)
		}},
		{"only-terminator", func(p Proto, kind Kind, js bool) []byte { return c06Terminator(p, kind) }},
		{"terminator-twice", func(p Proto, kind Kind, js bool) []byte {
			return append(append(valid(p, kind, js), c06Terminator(p, kind)...), c06Framed(p, kind, 0, c06ValidMsg(js))...)
		}},
		{"html", func(Proto, Kind, bool) []byte { return []byte("<html><body>502 Bad Gateway</body></html>") }},
		{"json-error-no-code", func(Proto, Kind, bool) []byte { return []byte(`{"message":"Forbidden"}`) }},
		{"json-error-valid", func(Proto, Kind, bool) []byte { return []byte(`{"code":"not_found","message":"nope"}`) }},
		{"json-error-code_0", func(Proto, Kind, bool) []byte { return []byte(`{"code":"code_0","message":"zero"}`) }},
		{"json-error-code_big", func(Proto, Kind, bool) []byte { return []byte(`{"code":"code_4294967296","message":"big"}`) }},
		{"json-error-unknown-code", func(Proto, Kind, bool) []byte { return []byte(`{"code":"teapot","message":"?"}`) }},
		{"json-error-wrong-types", func(Proto, Kind, bool) []byte { return []byte(`{"code":5,"message":["x"],"details":"y"}`) }},
		{"json-null", func(Proto, Kind, bool) []byte { return []byte(`null`) }},
		{"json-invalid", func(Proto, Kind, bool) []byte { return []byte(`{"code":`) }},
	}
	for _, fl := range []byte{1, 2, 3, 4, 0x80, 0x81, 0xff} {
		fl := fl
		out = append(out, c06BodyGen{fmt.Sprintf("flag-%02x", fl), func(p Proto, kind Kind, js bool) []byte {
			return append(refwire.Envelope(fl, c06ValidMsg(js)), c06Terminator(p, kind)...)
		}})
	}
	endStreams := map[string]string{
		"es-empty-obj":       `{}`,
		"es-error-no-code":   `{"error":{"message":"x"}}`,
		"es-error-code_0":    `{"error":{"code":"code_0","message":"x"}}`,
		"es-error-code_big":  `{"error":{"code":"code_4294967296"}}`,
		"es-error-unknown":   `{"error":{"code":"teapot"}}`,
		"es-error-valid":     `{"error":{"code":"aborted","message":"ab"},"metadata":{"x-low":["v"],"X-Up":["w"]}}`,
		"es-null":            `null`,
		"es-error-null":      `{"error":null}`,
		"es-wrong-types":     `{"error":"boom","metadata":[1,2]}`,
		"es-meta-lower":      `{"metadata":{"x-low":["v1","v2"]}}`,
		"es-meta-spellings":  `{"metadata":{"x-dup":["a"],"X-Dup":["b"],"X-DUP":["c"]}}`,
		"es-error-spellings": `{"error":{"code":"aborted","message":"ab"},"metadata":{"x-dup":["a"],"X-Dup":["b"],"X-DUP":["c"]}}`,
		"es-invalid":         `{"error":`,
		"es-empty":           ``,
	}
	// (sorted: every worker process must enumerate the menu in the same order, cases are assigned to shards by index)
	for _, name := range sortedKeys(endStreams) {
		name, js := name, endStreams[name]
		out = append(out, c06BodyGen{name, func(p Proto, kind Kind, j bool) []byte {
			return append(c06Framed(p, kind, 0, c06ValidMsg(j)), refwire.Envelope(2, []byte(js))...)
		}})
	}
	webTrailers := map[string]string{
		"wt-no-status":  "x-a: b\r\n",
		"wt-mixed-case": "GrPc-StAtUs: 0\r\nX-lOw: v\r\n",
		"wt-spellings":  "grpc-status: 0\r\nx-dup: a\r\nX-Dup: b\r\nX-DUP: c\r\n",
		"wt-malformed":  "no colon line\r\ngrpc-status 0\r\n",
		"wt-empty":      "",
		"wt-status-7":   "grpc-status: 7\r\ngrpc-message: denied%21\r\n",
		"wt-status-00":  "grpc-status: 00\r\n",
		"wt-binary":     "\x00\x01\x02: \xff\r\n",
		"wt-lf-only":    "grpc-status: 0\nx-a: b\n",
	}
	for _, name := range sortedKeys(webTrailers) {
		block := webTrailers[name]
		name, block := name, block
		out = append(out, c06BodyGen{name, func(p Proto, kind Kind, j bool) []byte {
			return append(c06Framed(p, kind, 0, c06ValidMsg(j)), refwire.Envelope(0x80, []byte(block))...)
		}})
	}
	return out
}

type c06Case struct {
	Proto   Proto  `json:"proto"`
	Kind    Kind   `json:"kind"`
	JSON    bool   `json:"json"`
	Status  int    `json:"status"`
	CT      string `json:"ct"`
	Enc     string `json:"enc"`
	HStatus string `json:"h_status"` // Grpc-Status in headers
	TStatus string `json:"t_status"` // Grpc-Status in HTTP trailers
	Msg     string `json:"msg"`
	Details string `json:"details"`
	Body    string `json:"body"`          // name in the body menu, or "raw"
	Raw     []byte `json:"raw,omitempty"` // body bytes when Body == "raw"
	Dev     int    `json:"dev"`           // number of deviations from the valid response
	// TakeSet/Take: the peer takes exactly Take bytes of the request body, then
	// answers and returns (the transport then closes the request body while the
	// client may be in the middle of writing a message).
	TakeSet bool `json:"take_set,omitempty"`
	Take    int  `json:"take,omitempty"`
	// CLen: the peer announces this Content-Length (whatever the body's size);
	// the client then runs without the harness's 64 KiB read limit (the bodies
	// of these cases are small).
	CLen string `json:"clen,omitempty"`
	// Limit: the client's read limit (0 = the harness's 64 KiB guard); with
	// Body "page" the peer sends a non-Connect error page larger than it.
	Limit int `json:"limit,omitempty"`
	// H1: the response arrives as HTTP/1.1 (a proxy or load balancer in front of
	// the server that does not speak HTTP/2), for every kind of call incl. bidi.
	H1 bool `json:"h1,omitempty"`
}

func (k c06Case) key() string {
	codec := "proto"
	if k.JSON {
		codec = "json"
	}
	body := k.Body
	if body == "raw" {
		body = fmt.Sprintf("raw:%x", k.Raw)
	}
	if k.TakeSet {
		body += fmt.Sprintf("/take=%d", k.Take)
	}
	if k.CLen != "" {
		body += "/content-length=" + k.CLen
	}
	if k.Limit > 0 {
		body += fmt.Sprintf("/limit=%d", k.Limit)
	}
	if k.H1 {
		body += "/http1"
	}
	return fmt.Sprintf("%s/%s/%s/st%d/ct=%s/enc=%s/hs=%s/ts=%s/msg=%q/det=%s/body=%s", k.Proto, k.Kind, codec, k.Status, k.CT, k.Enc, k.HStatus, k.TStatus, k.Msg, k.Details, body)
}

func c06DetailsValue(kind string, status string) string {
	code := 3
	fmt.Sscan(status, &code)
	switch kind {
	case "valid":
		return base64.RawStdEncoding.EncodeToString(refwire.EncodeStatus(code, "from details", nil))
	case "code0":
		return base64.RawStdEncoding.EncodeToString(refwire.EncodeStatus(0, "zero in details", nil))
	case "other":
		return base64.StdEncoding.EncodeToString(refwire.EncodeStatus(9, "other", nil))
	case "badb64":
		return "!!!not base64!!!"
	case "badproto":
		return base64.RawStdEncoding.EncodeToString([]byte{0xff, 0xff, 0xff})
	}
	return ""
}

var c06BodyMenu = c06Bodies()

func c06Check(c *ev.Collector, k c06Case) {
	tags := []string{"proto=" + k.Proto.String(), "kind=" + k.Kind.String()}
	var body []byte
	if k.Body == "page" {
		body = []byte("<html><body><h1>Service temporarily unavailable</h1><p>" + strings.Repeat("please try again later. ", 20) + "</p></body></html>")
		tags = append(tags, "body=page")
	} else if k.Body == "raw" {
		body = k.Raw
		tags = append(tags, "body=raw")
	} else {
		for _, b := range c06BodyMenu {
			if b.name == k.Body {
				body = b.gen(k.Proto, k.Kind, k.JSON)
			}
		}
		if k.Body != "valid" {
			tags = append(tags, "body="+k.Body)
		}
	}
	if k.Status != 200 {
		tags = append(tags, fmt.Sprintf("status=%d", k.Status))
	}
	if k.HStatus != "-" {
		tags = append(tags, "hstatus="+k.HStatus)
	}
	if k.TStatus != "-" {
		tags = append(tags, "tstatus="+k.TStatus)
	}
	if k.Details != "-" {
		tags = append(tags, "details="+k.Details)
	}
	bad := false
	viol := func(clause, outcome, format string, args ...any) {
		bad = true
		c.Violation("TestC06", clause, outcome, tags, k, "%s: "+format, append([]any{k.key()}, args...)...)
	}
	header, trailer := http.Header{}, http.Header{}
	switch k.CT {
	case "echo":
		header.Set("Content-Type", contentType(k.Proto, k.Kind, k.JSON))
	case "-":
	default:
		header.Set("Content-Type", k.CT)
	}
	encH, _ := encHeaders(k.Proto, k.Kind)
	if k.Enc != "-" {
		header[encH] = []string{k.Enc}
	}
	put := func(h http.Header, status string) {
		if status == "-" {
			return
		}
		h["Grpc-Status"] = []string{status}
		if k.Msg != "-" {
			h["Grpc-Message"] = []string{k.Msg}
		}
		if k.Details != "-" {
			h["Grpc-Status-Details-Bin"] = []string{c06DetailsValue(k.Details, status)}
		}
	}
	put(header, k.HStatus)
	put(trailer, k.TStatus)
	if k.Proto == PGRPC && k.TStatus == "-" && k.HStatus == "-" && k.Body == "valid" && k.Dev == 0 {
		trailer.Set("Grpc-Status", "0")
	}
	header.Set("X-Mixed-case", "hv")
	if k.CLen != "" {
		header.Set("Content-Length", k.CLen)
		tags = append(tags, "content-length="+k.CLen)
	}
	tr := &memhttp.Transport{Handler: refwire.Handler(k.Status, header, body, trailer), Proto: 2, SyncCloseReq: true}
	if k.H1 {
		tr.Proto = 1
		tags = append(tags, "http1")
	}
	if k.TakeSet {
		tags = append(tags, fmt.Sprintf("take=%d", k.Take))
		inner := tr.Handler
		tr.ReqMode = memhttp.ReqLazy // the peer's reads pull straight from the client's pipe
		tr.Handler = http.HandlerFunc(func(w http.ResponseWriter, r *http.Request) {
			if k.Take > 0 {
				_, _ = io.ReadFull(r.Body, make([]byte, k.Take))
			}
			inner.ServeHTTP(w, r)
		})
	}
	cfg := Cfg{Proto: k.Proto, JSON: k.JSON, Comp: CompDefault, Kind: k.Kind, HTTP: 2}
	cl := NewClient(tr, cfg, connect.WithReadMaxBytes(1<<16))
	if k.CLen != "" {
		cl = NewClient(tr, cfg)
	}
	if k.Limit > 0 {
		cl = NewClient(tr, cfg, connect.WithReadMaxBytes(k.Limit))
	}
	var res CallResult
	g := Guarded(func() { res = RunCall(context.Background(), cl, k.Kind, [][]byte{{1}}, nil) }, tr)
	c.AddTransitions(3)
	c.AddStates(3)
	c.AddTraces(1)
	if g.Panicked {
		viol("no-panic", "panic", "client panicked: %v\n%s", g.Panic, g.Stack)
		c.Outcome("violation")
		return
	}
	if g.Hung {
		viol("terminates", "deadlock", "call did not terminate\n%s", trimStacks(g.Stack))
		c.Outcome("violation")
		BailIfStuck(c, g)
		return
	}
	// gRPC-Web trailer blocks in other-than-canonical casing are valid (the
	// protocol prescribes lower case): the status they carry must be honoured
	if k.Proto == PGRPCWeb && k.Dev <= 1 && k.Status == 200 {
		switch k.Body {
		case "wt-mixed-case", "wt-spellings":
			if res.Err != nil {
				viol("case-insensitive-lookup", "status-not-found", "trailer block with grpc-status 0 in non-canonical casing: call failed with %v", res.Err)
			}
		case "wt-status-7":
			if connect.CodeOf(res.Err) != connect.CodePermissionDenied {
				viol("case-insensitive-lookup", "status-not-found", "trailer block \"grpc-status: 7\" (lower case): call ended with %v, want permission_denied", res.Err)
			}
		}
	}
	outcome := "success"
	if res.Err != nil {
		var ce *connect.Error
		switch {
		case !errors.As(res.Err, &ce):
			viol("coded-error", "uncoded", "error %T %v is not a *connect.Error", res.Err, res.Err)
		case ce.Code() == 0:
			viol("coded-error", "code=0", "error with the zero (OK) code: %q", clip(res.Err.Error(), 160))
		default:
			outcome = "error:" + ce.Code().String()
			// HTTP status derived code when nothing valid at protocol level can be present
			if k.Status != 200 {
				table := c06GRPCHTTPToCode
				if k.Proto == PConnect {
					table = c06ConnectHTTPToCode
				}
				want, ok := table[k.Status]
				if !ok {
					want = connect.CodeUnknown
				}
				hasProtocolError := false
				if k.Proto == PConnect && k.Kind == KUnary && (k.Body == "json-error-valid" || k.Body == "raw") {
					hasProtocolError = true // a valid (or arbitrary raw) JSON body may carry its own code
				}
				if k.Proto != PConnect && (k.HStatus != "-" || k.TStatus != "-") {
					hasProtocolError = true // grpc-status present: which one wins is not asserted
				}
				if !hasProtocolError && ce.Code() != want {
					viol("http-status-code", "code="+ce.Code().String(), "HTTP %d without a valid protocol-level error must map to %v, got %v (%q)", k.Status, want, ce.Code(), clip(ce.Message(), 100))
				}
			}
			// metadata lookups are case-insensitive whatever the peer's casing
			switch k.Body {
			case "es-error-spellings":
				if k.Status == 200 && k.Proto == PConnect && k.Kind != KUnary && ce.Code() == connect.CodeAborted {
					if got := sortedCopy(ce.Meta().Values("X-Dup")); strings.Join(got, ",") != "a,b,c" {
						viol("case-insensitive-lookup", "missing", "end-stream metadata sent as x-dup / X-Dup / X-DUP: Values(\"X-Dup\") = %v, want a b c in some order", got)
					}
				}
			case "es-error-valid":
				if k.Status == 200 && k.Proto == PConnect && k.Kind != KUnary && ce.Code() == connect.CodeAborted {
					if ce.Meta().Get("X-Low") != "v" || ce.Meta().Get("X-Up") != "w" {
						viol("case-insensitive-lookup", "missing", "end-stream metadata keys x-low / X-Up not found via Get: %v", ce.Meta())
					}
				}
			}
		}
	} else {
		if k.Status != 200 {
			viol("non-200-fails", "success", "HTTP %d was reported as success", k.Status)
		}
		if (k.Body == "es-meta-lower") && k.Proto == PConnect && k.Kind != KUnary && k.Dev <= 1 {
			if got := res.Trailer.Values("X-Low"); len(got) != 2 {
				viol("case-insensitive-lookup", "missing", "end-stream metadata key x-low not found via Values(\"X-Low\"): trailers %v", res.Trailer)
			}
		}
		if (k.Body == "es-meta-spellings" && k.Proto == PConnect && k.Kind != KUnary || k.Body == "wt-spellings" && k.Proto == PGRPCWeb) && k.Dev <= 1 {
			if got := sortedCopy(res.Trailer.Values("X-Dup")); strings.Join(got, ",") != "a,b,c" {
				viol("case-insensitive-lookup", "missing", "trailer metadata sent as x-dup / X-Dup / X-DUP: Values(\"X-Dup\") = %v, want a b c in some order", got)
			}
		}
		if k.Body == "wt-mixed-case" && k.Proto == PGRPCWeb && k.Dev <= 1 {
			if res.Trailer.Get("X-Low") != "v" {
				viol("case-insensitive-lookup", "missing", "trailer-block key X-lOw not found via Get(\"X-Low\"): trailers %v", res.Trailer)
			}
		}
		if res.Header != nil && res.Header.Get("x-mixed-CASE") != "hv" && k.Status == 200 && k.HStatus == "-" {
			viol("case-insensitive-lookup", "missing", "response header X-Mixed-case not found: %v", res.Header)
		}
	}
	if bad {
		c.Outcome("violation")
	} else {
		c.Outcome(outcome)
	}
}

func TestC06(t *testing.T) {
	c := ev.New("C06")
	defer func() { _ = c.Finish() }()
	c.SetRule("grammar-bounded exhaustive response enumeration: a fake peer answers the real client with every combination of at most D simultaneous deviations from a valid response over the dimensions {17 HTTP statuses, 9 Content-Types, 5 encoding headers, 12 Grpc-Status forms in headers, 12 in HTTP trailers, 6 Grpc-Message forms, 6 details blobs, ~45 bodies (truncation, every flag byte, end-stream JSON and gRPC-Web trailer-block malformations, JSON error bodies)}, plus every byte string of length <= L over {00,01,02,80,'{','}','\"'} as the whole body under status 200 and 403, x {connect,grpc,grpcweb} x {proto,json} x 4 RPC kinds; oracle: terminates (bubble), no panic, nil or *connect.Error with non-zero code, HTTP-status-derived code when no protocol-level error can be present, case-insensitive metadata lookups; distinct = full tuple; non-trivial = at least one deviation")
	c.Assume("client runs with a 64 KiB read limit so that lying length prefixes take the discard path instead of allocating (memory guard, DESIGN 3.7)", "memhttp delivers headers canonicalised like net/http")
	if ev.ReplayFile() != "" {
		var k c06Case
		if _, err := ev.LoadReplay(&k); err != nil {
			t.Fatal(err)
		}
		Bubble(t, func() { c06Check(c, k) })
		return
	}
	thorough := ev.Thorough()
	maxDev, L := 2, 4
	if thorough {
		maxDev, L = 3, 6
	}
	c.Bound("max_simultaneous_deviations", maxDev)
	c.Bound("raw_body_length", L)
	sizes := []int{len(c06Statuses), len(c06ContentTypes), len(c06Encodings), len(c06GrpcStatus), len(c06GrpcStatus), len(c06GrpcMessage), len(c06Details), len(c06BodyMenu)}
	idx := 0
	for _, p := range AllProtos {
		for _, kind := range AllKinds {
			for _, js := range []bool{false, true} {
				if js && !thorough && kind != KUnary {
					continue
				}
				dev := maxDev
				if thorough && (kind == KClient || kind == KBidi) {
					dev = 2
				}
				Deviations(sizes, dev, func(ch []int) bool {
					idx++
					if !ev.Mine(idx) {
						return true
					}
					if c.Expired() {
						return false
					}
					ndev := 0
					for _, v := range ch {
						if v != 0 {
							ndev++
						}
					}
					// message / details only matter together with a status header
					if (ch[5] != 0 || ch[6] != 0) && ch[3] == 0 && ch[4] == 0 {
						return true
					}
					k := c06Case{Proto: p, Kind: kind, JSON: js, Status: c06Statuses[ch[0]], CT: c06ContentTypes[ch[1]], Enc: c06Encodings[ch[2]],
						HStatus: c06GrpcStatus[ch[3]], TStatus: c06GrpcStatus[ch[4]], Msg: c06GrpcMessage[ch[5]], Details: c06Details[ch[6]], Body: c06BodyMenu[ch[7]].name, Dev: ndev}
					c.Case(k.key(), ndev > 0)
					Bubble(t, func() { c06Check(c, k) })
					if idx%50021 == 0 {
						c.Sample(map[string]any{"case": k.key()})
					}
					return true
				})
			}
		}
	}
	// Grpc-Message grammar: every string over {'%', a hex digit, a non-hex letter} up to length 5 (6 in
	// thorough), beside a non-zero status in the headers (trailers-only) and in the trailers
	{
		maxLen := 5
		if thorough {
			maxLen = 6
		}
		msgs := seqsUpTo([]string{"%", "4", "z"}, maxLen)
		for _, p := range []Proto{PGRPC, PGRPCWeb} {
			for _, kind := range []Kind{KUnary, KServer} {
				for _, place := range []string{"h", "t"} {
					for _, m := range msgs {
						if len(m) == 0 {
							continue
						}
						idx++
						if !ev.Mine(idx) {
							continue
						}
						k := c06Case{Proto: p, Kind: kind, Status: 200, CT: "echo", Enc: "-", HStatus: "-", TStatus: "-", Msg: strings.Join(m, ""), Details: "-", Body: "valid", Dev: 2}
						if place == "h" {
							k.HStatus, k.Body = "3", "empty"
						} else {
							k.TStatus = "3"
						}
						c.Case(k.key(), true)
						Bubble(t, func() { c06Check(c, k) })
					}
				}
			}
		}
	}
	// a proxy's error page larger than the client's read limit: the code still comes from the status
	for _, p := range AllProtos {
		for _, kind := range []Kind{KUnary, KServer} {
			for _, st := range []int{401, 403, 429, 503} {
				for _, lim := range []int{16, 64, 600} {
					idx++
					if !ev.Mine(idx) {
						continue
					}
					k := c06Case{Proto: p, Kind: kind, Status: st, CT: "text/html", Enc: "-", HStatus: "-", TStatus: "-", Msg: "-", Details: "-", Body: "page", Dev: 2, Limit: lim}
					c.Case(k.key(), true)
					Bubble(t, func() { c06Check(c, k) })
				}
			}
		}
	}
	// the answer comes over HTTP/1.1, whatever the kind of call: non-200 answers of something in
	// front of the server, and the valid response
	for _, p := range AllProtos {
		for _, kind := range AllKinds {
			for _, st := range []int{200, 400, 401, 403, 404, 429, 500, 502, 503, 504, 505} {
				for _, ct := range []string{"echo", "text/html"} {
					idx++
					if !ev.Mine(idx) {
						continue
					}
					k := c06Case{Proto: p, Kind: kind, Status: st, CT: ct, Enc: "-", HStatus: "-", TStatus: "-", Msg: "-", Details: "-", Body: "valid", Dev: 1, H1: true}
					if ct == "text/html" {
						k.Body, k.Dev = "page", 2
					}
					c.Case(k.key(), true)
					Bubble(t, func() { c06Check(c, k) })
				}
			}
		}
	}
	// the peer announces a Content-Length that has nothing to do with its body
	for _, p := range AllProtos {
		for _, kind := range []Kind{KUnary, KServer} {
			for _, js := range []bool{false, true} {
				for _, st := range []int{200, 503} {
					for _, cl := range []string{"9223372036854775807", "72057594037927936", "4294967296", "0", "1"} {
						idx++
						if !ev.Mine(idx) {
							continue
						}
						k := c06Case{Proto: p, Kind: kind, JSON: js, Status: st, CT: "echo", Enc: "-", HStatus: "-", TStatus: "-", Msg: "-", Details: "-", Body: "valid", Dev: 1, CLen: cl}
						c.Case(k.key(), true)
						Bubble(t, func() { c06Check(c, k) })
					}
				}
			}
		}
	}
	// the peer answers (non-200, or a valid response) after taking exactly k bytes of the request body
	for _, p := range AllProtos {
		for _, kind := range AllKinds {
			for _, st := range []int{401, 404, 503, 200} {
				for _, take := range []int{0, 1, 3, 5, 6, 7, 64} {
					idx++
					if !ev.Mine(idx) {
						continue
					}
					k := c06Case{Proto: p, Kind: kind, Status: st, CT: "echo", Enc: "-", HStatus: "-", TStatus: "-", Msg: "-", Details: "-", Body: "valid", Dev: 1, TakeSet: true, Take: take}
					if st != 200 {
						k.Body = "empty"
					}
					c.Case(k.key(), true)
					Bubble(t, func() { c06Check(c, k) })
				}
			}
		}
	}
	// raw bodies
	alphabet := []byte{0x00, 0x01, 0x02, 0x80, '{', '}', '"'}
	for _, p := range AllProtos {
		for _, kind := range []Kind{KUnary, KServer} {
			for _, st := range []int{200, 403} {
				Strings(alphabet, L, func(s []byte) bool {
					idx++
					if !ev.Mine(idx) {
						return true
					}
					if c.Expired() {
						return false
					}
					k := c06Case{Proto: p, Kind: kind, Status: st, CT: "echo", Enc: "-", HStatus: "-", TStatus: "-", Msg: "-", Details: "-", Body: "raw", Raw: s, Dev: 1}
					c.Case(k.key(), true)
					Bubble(t, func() { c06Check(c, k) })
					if idx%50021 == 0 {
						c.Sample(map[string]any{"case": k.key()})
					}
					return true
				})
			}
		}
	}
	_ = strings.TrimSpace
}

func sortedCopy(in []string) []string {
	out := append([]string(nil), in...)
	sort.Strings(out)
	return out
}

func sortedKeys(m map[string]string) []string {
	out := make([]string, 0, len(m))
	for k := range m {
		out = append(out, k)
	}
	sort.Strings(out)
	return out
}
