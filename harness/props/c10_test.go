package props

import (
	"bytes"
	"context"
	"fmt"
	"math"
	"net/http"
	"net/http/httptest"
	"strconv"
	"strings"
	"testing"
	"time"

	connect "github.com/bufbuild/connect-go"
	"google.golang.org/protobuf/proto"

	"verifharness/ev"
	"verifharness/memhttp"
	"verifharness/refwire"
)

// C10 — deadlines propagate to the handler and are never extended.
//
// Engine: boundary-complete domain enumeration inside a synctest bubble (the
// fake clock makes "time remaining" exact) through real calls, plus the pure
// encoder/parser over a contiguous range, plus every short header string
// into real handlers.

type ctxProbe struct {
	ran      bool
	userRan  bool
	deadline time.Time
	has      bool
	now      time.Time
}

type probeI struct{ p *ctxProbe }

func (pi probeI) see(ctx context.Context) {
	pi.p.ran = true
	pi.p.now = time.Now()
	pi.p.deadline, pi.p.has = ctx.Deadline()
}
func (pi probeI) WrapUnary(next connect.UnaryFunc) connect.UnaryFunc {
	return func(ctx context.Context, r connect.AnyRequest) (connect.AnyResponse, error) {
		pi.see(ctx)
		return next(ctx, r)
	}
}
func (pi probeI) WrapStreamingClient(next connect.StreamingClientFunc) connect.StreamingClientFunc {
	return next
}
func (pi probeI) WrapStreamingHandler(next connect.StreamingHandlerFunc) connect.StreamingHandlerFunc {
	return func(ctx context.Context, c connect.StreamingHandlerConn) error {
		pi.see(ctx)
		return next(ctx, c)
	}
}

func c10Handler(kind Kind, p *ctxProbe) *connect.Handler {
	return NewHandler(kind, func(ctx context.Context, s HStream) error {
		p.userRan = true
		return s.Send(&BV{Value: []byte{1}})
	}, connect.WithInterceptors(probeI{p}))
}

// refParseGRPC / refParseConnect: the grammar of the property, written
// independently of the library.  ok=false: malformed.  judged=false: outside
// both the grammatical and the listed malformed classes (not asserted).
func refParseGRPC(s string) (d time.Duration, unbounded, ok, judged bool) {
	if s == "" {
		return 0, true, true, true
	}
	unit := map[byte]time.Duration{'n': time.Nanosecond, 'u': time.Microsecond, 'm': time.Millisecond, 'S': time.Second, 'M': time.Minute, 'H': time.Hour}
	u, isUnit := unit[s[len(s)-1]]
	digits := s
	if isUnit {
		digits = s[:len(s)-1]
	}
	if strings.HasPrefix(digits, "+") || strings.HasPrefix(digits, "-") {
		return 0, false, false, true // a sign is not a decimal digit: malformed
	}
	allDigits := digits != ""
	for i := 0; i < len(digits); i++ {
		if digits[i] < '0' || digits[i] > '9' {
			allDigits = false
		}
	}
	if !isUnit || !allDigits {
		return 0, false, false, true // missing/unknown unit, empty or non-decimal number
	}
	if len(digits) > 8 {
		n, err := strconv.ParseUint(digits, 10, 64)
		if err == nil && n <= 99999999 {
			return 0, false, false, false // zero-padded beyond the digit limit: not judged
		}
		return 0, false, false, true // magnitude beyond the digit limit
	}
	n, _ := strconv.ParseInt(digits, 10, 64)
	if n > math.MaxInt64/int64(u) {
		return 0, true, true, true // beyond what the runtime can represent: unbounded
	}
	return time.Duration(n) * u, false, true, true
}

func refParseConnect(s string) (d time.Duration, unbounded, ok, judged bool) {
	if s == "" {
		return 0, true, true, true
	}
	if strings.HasPrefix(s, "+") || strings.HasPrefix(s, "-") {
		return 0, false, false, true // a sign is not a decimal digit: malformed
	}
	for i := 0; i < len(s); i++ {
		if s[i] < '0' || s[i] > '9' {
			return 0, false, false, true
		}
	}
	if len(s) > 10 {
		n, err := strconv.ParseUint(s, 10, 64)
		if err == nil && n <= 9999999999 {
			return 0, false, false, false
		}
		return 0, false, false, true
	}
	n, _ := strconv.ParseInt(s, 10, 64)
	if n > math.MaxInt64/int64(time.Millisecond) {
		return 0, true, true, true
	}
	return time.Duration(n) * time.Millisecond, false, true, true
}

func c10Durations(thorough bool) []time.Duration {
	seen := map[time.Duration]bool{}
	var out []time.Duration
	add := func(d time.Duration) {
		if d > 0 && !seen[d] {
			seen[d] = true
			out = append(out, d)
		}
	}
	units := []time.Duration{time.Nanosecond, time.Microsecond, time.Millisecond, time.Second, time.Minute, time.Hour}
	for _, u := range units {
		p := int64(1)
		for k := 0; k <= 10; k++ {
			for _, base := range []int64{p, p - 1, p + 1, 9 * p, 5*p + 3} {
				if base <= 0 || base > math.MaxInt64/int64(u) {
					continue
				}
				v := time.Duration(base) * u
				for _, dn := range []time.Duration{-1, 0, 1} {
					add(v + dn)
				}
				if thorough {
					add(v + u/2)
					add(v + u - 1)
				}
			}
			if p > math.MaxInt64/10 {
				break
			}
			p *= 10
		}
	}
	for _, d := range []time.Duration{1, 2, 999, 999999, 1000001, math.MaxInt64, math.MaxInt64 - 1, math.MaxInt64 / 2,
		9999999999 * time.Millisecond, 9999999999*time.Millisecond + 1, 10000000000*time.Millisecond - 1, 10000000000 * time.Millisecond,
		2562047 * time.Hour, 2562047*time.Hour + 1, 12345678, 123456789012, 86400 * time.Second} {
		add(d)
	}
	if thorough {
		for d := time.Duration(1); d <= 20000; d++ {
			add(d)
		}
	}
	return out
}

type c10ClientCase struct {
	Proto Proto         `json:"proto"`
	Kind  Kind          `json:"kind"`
	D     time.Duration `json:"d"` // 0 = no deadline
	// Mode: how the time remaining when the request is sent comes to be D:
	// "" the caller's context has D left; "reuse-request" ditto, but the
	// *connect.Request already went through a call with 30 s left;
	// "icpt-adds" no caller deadline, a client interceptor adds D;
	// "icpt-shortens" caller has 10 D, an interceptor shortens to D;
	// "icpt-slow" caller has D + 200 ms, an interceptor takes 200 ms.
	Mode string `json:"mode,omitempty"`
	// Phase: the call is made this long after a whole millisecond of the
	// (fake) clock, so that "now" and the deadline have different sub-millisecond
	// parts (arithmetic on truncated timestamps goes wrong only then).
	Phase time.Duration `json:"phase,omitempty"`
}

// deadlineI is a client interceptor that changes or uses up the deadline.
type deadlineI struct {
	mode string
	d    time.Duration
}

func (di deadlineI) ctx(ctx context.Context) context.Context {
	switch di.mode {
	case "icpt-adds", "icpt-shortens":
		ctx, _ = context.WithTimeout(ctx, di.d) //nolint:govet // released with the bubble
	case "icpt-slow":
		time.Sleep(200 * time.Millisecond)
	}
	return ctx
}

func (di deadlineI) WrapUnary(next connect.UnaryFunc) connect.UnaryFunc {
	return func(ctx context.Context, req connect.AnyRequest) (connect.AnyResponse, error) {
		return next(di.ctx(ctx), req)
	}
}

func (di deadlineI) WrapStreamingClient(next connect.StreamingClientFunc) connect.StreamingClientFunc {
	return func(ctx context.Context, spec connect.Spec) connect.StreamingClientConn {
		return next(di.ctx(ctx), spec)
	}
}

func (di deadlineI) WrapStreamingHandler(next connect.StreamingHandlerFunc) connect.StreamingHandlerFunc {
	return next
}

func c10ClientCheck(c *ev.Collector, k c10ClientCase) {
	probe := &ctxProbe{}
	h := c10Handler(k.Kind, probe)
	tr := &memhttp.Transport{Handler: h, Proto: 2, SyncCloseReq: true}
	var extra []connect.ClientOption
	if strings.HasPrefix(k.Mode, "icpt-") {
		extra = append(extra, connect.WithInterceptors(deadlineI{k.Mode, k.D}))
	}
	cl := NewClient(tr, Cfg{Proto: k.Proto, Comp: CompNone}, extra...)
	ctx := context.Background()
	cancel := func() {}
	callerD := k.D
	switch k.Mode {
	case "icpt-adds":
		callerD = 0
	case "icpt-shortens":
		callerD = 10 * k.D
	case "icpt-slow":
		callerD = k.D + 200*time.Millisecond
	}
	if k.Phase > 0 {
		time.Sleep(k.Phase) // fake clock: exact
	}
	start := time.Now()
	var res CallResult
	var g GuardResult
	if k.Mode == "reuse-request" {
		// the same Request value first goes through a call with 30 s left
		req := connect.NewRequest(&BV{Value: []byte{1}})
		g = Guarded(func() {
			ctx1, cancel1 := context.WithTimeout(context.Background(), 30*time.Second)
			_, _ = cl.CallUnary(ctx1, req)
			cancel1()
			if k.D > 0 {
				ctx, cancel = context.WithTimeout(context.Background(), k.D)
			} // D == 0: the second call has no deadline at all
			_, res.Err = cl.CallUnary(ctx, req)
		}, tr)
	} else {
		if callerD > 0 {
			ctx, cancel = context.WithTimeout(ctx, callerD)
		}
		g = GuardedFor(time.Hour, func() { res = RunCall(ctx, cl, k.Kind, [][]byte{{1}}, nil) }, tr)
	}
	cancel()
	key := fmt.Sprintf("client/%s/%s/%d", k.Proto, k.Kind, int64(k.D))
	tags := []string{"proto=" + k.Proto.String(), "side=client"}
	if k.Mode != "" {
		key += "/" + k.Mode
		tags = append(tags, "mode="+k.Mode)
	}
	if k.D > 0 && k.D < time.Millisecond {
		tags = append(tags, "sub-millisecond")
	}
	viol := func(clause, outcome, format string, args ...any) {
		c.Violation("TestC10", clause, outcome, tags, k, "%s: "+format, append([]any{key}, args...)...)
	}
	c.AddTransitions(3)
	c.AddStates(3)
	c.AddTraces(1)
	if g.Hung || g.Panicked {
		viol("terminates", "hang-or-panic", "hung=%v panic=%v\n%s", g.Hung, g.Panic, g.Stack)
		BailIfStuck(c, g)
		return
	}
	if el := time.Since(start); el != 0 && !(k.Mode == "icpt-slow" && (el == time.Hour || el == 200*time.Millisecond)) {
		c.HarnessError("%s: fake clock advanced by %v during the call", key, el)
		return
	}
	ex := tr.Last()
	if ex == nil {
		viol("request-made", "no-request", "no request reached the transport: %v", res.Err)
		return
	}
	hdrName := "Grpc-Timeout"
	parse := refParseGRPC
	if k.Proto == PConnect {
		hdrName, parse = "Connect-Timeout-Ms", refParseConnect
	}
	vals := ex.ReqHeader.Values(hdrName)
	if k.D == 0 {
		if len(vals) != 0 || probe.has {
			viol("no-deadline-no-timeout", "timeout-sent", "no client deadline, but %s=%v and handler deadline present=%v", hdrName, vals, probe.has)
			c.Outcome("violation")
			return
		}
		c.Outcome("ok-none")
		return
	}
	if len(vals) > 1 {
		viol("timeout-sent", "duplicated", "%s sent %d times: %v", hdrName, len(vals), vals)
		c.Outcome("violation")
		return
	}
	// is the remaining time expressible?
	expressible := true
	if k.Proto == PConnect {
		expressible = k.D/time.Millisecond <= 9999999999
	}
	if len(vals) == 0 {
		if expressible {
			viol("timeout-sent", "absent", "remaining %v (%d ns) is expressible but no %s was sent", k.D, int64(k.D), hdrName)
			c.Outcome("violation")
			return
		}
		if probe.has {
			viol("handler-deadline", "unexpected", "no timeout sent but the handler context has a deadline")
			c.Outcome("violation")
			return
		}
		c.Outcome("ok-absent")
		return
	}
	sent, unbounded, ok, _ := parse(vals[0])
	bad := false
	switch {
	case !ok || unbounded:
		bad = true
		viol("timeout-grammar", "ungrammatical", "%s=%q does not fit the protocol's grammar", hdrName, vals[0])
	case sent > k.D:
		bad = true
		viol("never-extended", "longer", "%s=%q (%v) is longer than the %v remaining", hdrName, vals[0], sent, k.D)
	default:
		loss := k.D - sent
		if k.Proto == PConnect {
			if loss >= time.Millisecond {
				bad = true
				viol("granularity", "too-short", "%s=%q loses %v of %v (granularity 1ms)", hdrName, vals[0], loss, k.D)
			}
		} else if float64(loss) >= 0.0001*float64(k.D) && loss > 0 {
			bad = true
			viol("granularity", "too-short", "%s=%q loses %v of %v (>= 0.01%%)", hdrName, vals[0], loss, k.D)
		}
		if !expressible {
			bad = true
			viol("inexpressible-absent", "truncated", "remaining %v is not expressible but %s=%q was sent", k.D, hdrName, vals[0])
		}
		if !probe.ran {
			bad = true
			viol("handler-deadline", "handler-not-run", "handler interceptors did not run: %v", res.Err)
		} else if !probe.has || probe.deadline.Sub(probe.now) != sent {
			bad = true
			viol("handler-deadline", "differs", "handler context deadline in %v (present=%v), timeout sent %v", probe.deadline.Sub(probe.now), probe.has, sent)
		}
	}
	if bad {
		c.Outcome("violation")
	} else {
		c.Outcome("ok-sent")
	}
}

type c10HeaderCase struct {
	Proto Proto  `json:"proto"`
	Kind  Kind   `json:"kind"`
	Value string `json:"value"`
	// EmptyValue: the timeout header is present and has no value (an empty
	// number, which the property lists as malformed - not an absent header)
	EmptyValue bool `json:"empty_value,omitempty"`
	// ServerDeadline: the request context the server hands to ServeHTTP already
	// has a deadline that far away (middleware, BaseContext, http.TimeoutHandler);
	// the handler's deadline is then the earlier of the two.
	ServerDeadline time.Duration `json:"server_deadline,omitempty"`
}

func c10HeaderCheck(c *ev.Collector, k c10HeaderCase) {
	probe := &ctxProbe{}
	h := c10Handler(k.Kind, probe)
	payload, _ := proto.Marshal(&BV{Value: []byte{5}})
	body := envelope(0, payload)
	var ct, hdrName string
	parse := refParseGRPC
	switch k.Proto {
	case PConnect:
		hdrName, parse = "Connect-Timeout-Ms", refParseConnect
		if k.Kind == KUnary {
			ct, body = "application/proto", payload
		} else {
			ct = "application/connect+proto"
		}
	case PGRPC:
		ct, hdrName = "application/grpc+proto", "Grpc-Timeout"
	default:
		ct, hdrName = "application/grpc-web+proto", "Grpc-Timeout"
	}
	req := httptest.NewRequest("POST", "http://mem.test"+Procedure, bytes.NewReader(body))
	req.ProtoMajor, req.ProtoMinor, req.Proto = 2, 0, "HTTP/2.0"
	req.Header.Set("Content-Type", ct)
	req.Header[hdrName] = []string{k.Value}
	key := fmt.Sprintf("header/%s/%s/%q", k.Proto, k.Kind, k.Value)
	tags := []string{"proto=" + k.Proto.String(), "side=handler"}
	if k.ServerDeadline > 0 {
		sctx, cancel := context.WithTimeout(req.Context(), k.ServerDeadline)
		defer cancel()
		req = req.WithContext(sctx)
		key += fmt.Sprintf("/server-deadline=%v", k.ServerDeadline)
		tags = append(tags, "server-deadline")
	}
	rec := httptest.NewRecorder()
	g := Guarded(func() { h.ServeHTTP(rec, req) })
	viol := func(clause, outcome, format string, args ...any) {
		c.Violation("TestC10", clause, outcome, tags, k, "%s: "+format, append([]any{key}, args...)...)
	}
	c.AddTransitions(2)
	c.AddStates(2)
	c.AddTraces(1)
	if g.Hung || g.Panicked {
		viol("terminates", "hang-or-panic", "hung=%v panic=%v\n%s", g.Hung, g.Panic, g.Stack)
		BailIfStuck(c, g)
		return
	}
	want, unbounded, ok, judged := parse(k.Value)
	if k.EmptyValue {
		want, unbounded, ok, judged = 0, false, false, true
		tags = append(tags, "empty-value")
	}
	if !judged {
		c.Outcome("not-judged")
		return
	}
	code := respCode(k.Proto, k.Kind, rec)
	switch {
	case !ok:
		if probe.userRan || probe.ran {
			viol("malformed-rejected", "user-code-ran", "malformed timeout %q: user code / interceptors ran", k.Value)
			c.Outcome("violation")
			return
		}
		if code != "invalid_argument" {
			viol("malformed-rejected", "code="+code, "malformed timeout %q answered with %s (HTTP %d, body %q)", k.Value, code, rec.Code, clip(rec.Body.String(), 120))
			c.Outcome("violation")
			return
		}
		c.Outcome("rejected")
	case unbounded && k.ServerDeadline > 0:
		if !probe.ran || !probe.has || probe.deadline.Sub(probe.now) != k.ServerDeadline {
			viol("never-longer", "server-deadline-lost", "timeout %q is unbounded, the server's own deadline is %v: handler deadline in %v (present=%v)", k.Value, k.ServerDeadline, probe.deadline.Sub(probe.now), probe.has)
			c.Outcome("violation")
			return
		}
		c.Outcome("honoured")
	case unbounded:
		if !probe.ran || probe.has {
			viol("honoured-exactly", "bounded", "timeout %q must be treated as unbounded: ran=%v deadline present=%v (%s)", k.Value, probe.ran, probe.has, code)
			c.Outcome("violation")
			return
		}
		c.Outcome("unbounded")
	default:
		if !probe.ran {
			viol("honoured-exactly", "rejected", "grammatical timeout %q was not honoured: interceptors did not run (%s, HTTP %d)", k.Value, code, rec.Code)
			c.Outcome("violation")
			return
		}
		if k.ServerDeadline > 0 && k.ServerDeadline < want {
			want = k.ServerDeadline
		}
		if !probe.has || probe.deadline.Sub(probe.now) != want {
			viol("honoured-exactly", "differs", "timeout %q: handler deadline in %v (present=%v), want %v", k.Value, probe.deadline.Sub(probe.now), probe.has, want)
			c.Outcome("violation")
			return
		}
		c.Outcome("honoured")
	}
}

// recParts splits what a ResponseRecorder captured into headers and trailers.
func recParts(rec *httptest.ResponseRecorder) (status int, header http.Header, body []byte, trailer http.Header) {
	header, trailer = http.Header{}, http.Header{}
	for k, vs := range rec.Header() {
		if strings.HasPrefix(k, http.TrailerPrefix) {
			trailer[strings.TrimPrefix(k, http.TrailerPrefix)] = vs
			continue
		}
		header[k] = vs
	}
	return rec.Code, header, rec.Body.Bytes(), trailer
}

func wireProto(p Proto) refwire.Protocol {
	return [...]refwire.Protocol{refwire.Connect, refwire.GRPC, refwire.GRPCWeb}[p]
}

// respCode extracts the error code name a handler wrote ("ok" for success,
// "?" when no terminator can be found), using the reference decoder.
func respCode(p Proto, kind Kind, rec *httptest.ResponseRecorder) string {
	status, header, body, trailer := recParts(rec)
	r := refwire.DecodeResponse(wireProto(p), kind == KUnary, "", status, header, body, trailer, AnyDecompress)
	if !r.End.Present {
		return "?"
	}
	if r.End.Code == 0 {
		return "ok"
	}
	if r.End.Code > 0 && r.End.Code < len(refwire.CodeNames) {
		return refwire.CodeNames[r.End.Code]
	}
	return fmt.Sprintf("code_%d", r.End.Code)
}

func c10HeaderStrings(thorough bool) []string {
	alpha := "019numSMHx -+"
	maxLen := 3
	if thorough {
		maxLen = 4
	}
	var out []string
	var rec func(prefix string)
	rec = func(prefix string) {
		if prefix != "" && !strings.HasPrefix(prefix, " ") && !strings.HasSuffix(prefix, " ") {
			out = append(out, prefix)
		}
		if len(prefix) == maxLen {
			return
		}
		for i := 0; i < len(alpha); i++ {
			rec(prefix + string(alpha[i]))
		}
	}
	rec("")
	units := "numSMH"
	for i := 0; i < len(units); i++ {
		for digits := 1; digits <= 12; digits++ {
			for _, d := range []string{"1", "9"} {
				out = append(out, strings.Repeat(d, digits)+string(units[i]))
			}
			out = append(out, "1"+strings.Repeat("0", digits-1)+string(units[i]))
			out = append(out, strings.Repeat("0", digits)+string(units[i]))
		}
	}
	for digits := 1; digits <= 13; digits++ {
		out = append(out, strings.Repeat("9", digits), "1"+strings.Repeat("0", digits-1), strings.Repeat("0", digits))
	}
	out = append(out, "2562047H", "2562048H", "99999999H", "153722867M", "153722868M", "9223372036S", "9223372037S", "9223372036854m",
		"1s", "1h", "1N", "1.5S", "1e3m", "0x10S", "١S", "S1", "SS", "1SS", "1 S", "9223372036854775807", "9223372036854", "9223372037", "1\x00S")
	return out
}

func c10Pure(c *ev.Collector, thorough bool) {
	shard, shards := ev.Shard()
	limit := int64(2_000_000)
	if thorough {
		limit = 120_000_000
	}
	var n int64
	for d := int64(1 + shard); d <= limit; d += int64(shards) {
		n++
		s, err := connect.VerifGRPCEncodeTimeout(time.Duration(d))
		if err != nil {
			c.Violation("TestC10", "timeout-sent", "absent", []string{"proto=grpc", "pure"}, d, "grpc encoder refuses %d ns: %v", d, err)
			continue
		}
		got, unbounded, ok, _ := refParseGRPC(s)
		if !ok || unbounded || int64(got) > d || (float64(d-int64(got)) >= 0.0001*float64(d) && d != int64(got)) {
			c.Violation("TestC10", "granularity", "encoder", []string{"proto=grpc", "pure"}, d, "grpc encoder: %d ns -> %q (%d ns)", d, s, int64(got))
		}
		back, perr := connect.VerifGRPCParseTimeout(s)
		if perr != nil || back != got {
			c.Violation("TestC10", "honoured-exactly", "parser", []string{"proto=grpc", "pure"}, d, "grpc parser: %q -> %v (%v), reference %v", s, back, perr, got)
		}
	}
	c.AddEvaluations(n)
	c.AddDistinct(n)
	c.AddStates(n)
	c.AddTransitions(2 * n)
	c.AddExtra("pure_encoder_durations", n)
	c.Bound("pure_encoder_range_ns", limit)
}

// c10LateSend: a client- or bidi-streaming call is created when its context
// has D left; the first Send - which is when the request leaves - happens
// 400 ms later.  The timeout the server receives must not exceed what is left
// at that moment.
func c10LateSend(t *testing.T, c *ev.Collector) {
	const gap = 400 * time.Millisecond
	idx := 0
	for _, p := range AllProtos {
		for _, kind := range []Kind{KClient, KBidi} {
			for _, d := range []time.Duration{1500 * time.Millisecond, 2 * time.Hour} {
				idx++
				if !ev.Mine(idx) {
					continue
				}
				key := fmt.Sprintf("client/%s/%s/%d/late-send", p, kind, int64(d))
				c.Case(key, true)
				Bubble(t, func() {
					probe := &ctxProbe{}
					h := c10Handler(kind, probe)
					tr := &memhttp.Transport{Handler: h, Proto: 2, SyncCloseReq: true}
					cl := NewClient(tr, Cfg{Proto: p, Comp: CompNone})
					ctx, cancel := context.WithTimeout(context.Background(), d)
					defer cancel()
					var sentAt time.Time
					g := GuardedFor(time.Hour, func() {
						if kind == KClient {
							s := cl.CallClientStream(ctx)
							time.Sleep(gap)
							sentAt = time.Now()
							_ = s.Send(&BV{Value: []byte{1}})
							_, _ = s.CloseAndReceive()
							return
						}
						s := cl.CallBidiStream(ctx)
						time.Sleep(gap)
						sentAt = time.Now()
						_ = s.Send(&BV{Value: []byte{1}})
						_ = s.CloseRequest()
						for {
							if _, err := s.Receive(); err != nil {
								break
							}
						}
						_ = s.CloseResponse()
					}, tr)
					c.AddTransitions(3)
					c.AddStates(3)
					c.AddTraces(1)
					tags := []string{"proto=" + p.String(), "side=client", "mode=late-send"}
					if g.Hung || g.Panicked {
						c.Violation("TestC10", "terminates", "hang-or-panic", tags, key, "%s: hung=%v panic=%v", key, g.Hung, g.Panic)
						BailIfStuck(c, g)
						return
					}
					clientDeadline, _ := ctx.Deadline()
					left := clientDeadline.Sub(sentAt)
					if probe.has && probe.deadline.After(clientDeadline) {
						c.Violation("TestC10", "never-longer", "handler-deadline-later", tags, key, "%s: the request left with %v remaining, the handler's deadline is %v after the client's", key, left, probe.deadline.Sub(clientDeadline))
						c.Outcome("violation")
						return
					}
					c.Outcome("ok-sent")
				})
			}
		}
	}
}

func TestC10(t *testing.T) {
	c := ev.New("C10")
	defer func() { _ = c.Finish() }()
	c.SetRule("domain enumeration: (client) durations at every unit x digit-count boundary (10^k, 10^k+-1, 9*10^k, 5*10^k+3 of each unit, each +-1 ns), Connect's 1 ms and 10-digit limits, 2^63-1, plus no deadline, through real calls inside a synctest bubble whose fake clock makes the remaining time exact, x 3 protocols x RPC kinds; (pure) every duration 1..N ns through the gRPC encoder and parser against an independent grammar; (handler) every header string of length <= L over {0,1,9,n,u,m,S,M,H,x,space,-} plus unit x 1..12 digit forms and overflow boundaries into real handlers of each protocol; oracle from the property's grammar; strings zero-padded beyond the digit limit are recorded but not judged; a sign is not a digit (malformed); (late send) a streaming call created with D left whose first Send happens 400 ms later")
	c.Assume("testing/synctest fake clock (no time passes during a call)", "header values cannot carry leading/trailing whitespace (HTTP strips it)")
	if ev.ReplayFile() != "" {
		var hk c10HeaderCase
		if v, err := ev.LoadReplay(&hk); err == nil && (hk.Value != "" || hk.EmptyValue) {
			_ = v
			Bubble(t, func() { c10HeaderCheck(c, hk) })
			return
		}
		var ck c10ClientCase
		if _, err := ev.LoadReplay(&ck); err == nil {
			Bubble(t, func() { c10ClientCheck(c, ck) })
		}
		return
	}
	thorough := ev.Thorough()
	c.Bound("header_string_length", map[bool]int{false: 3, true: 4}[thorough])
	idx := 0
	durs := append([]time.Duration{0}, c10Durations(thorough)...)
	for _, p := range AllProtos {
		for _, kind := range []Kind{KUnary, KServer, KBidi, KClient} {
			if !thorough && kind != KUnary && kind != KBidi {
				continue
			}
			for _, d := range durs {
				idx++
				if !ev.Mine(idx) {
					continue
				}
				if c.Expired() {
					return
				}
				k := c10ClientCase{Proto: p, Kind: kind, D: d}
				c.Case(fmt.Sprintf("client/%s/%s/%d", p, kind, int64(d)), true)
				Bubble(t, func() { c10ClientCheck(c, k) })
				if idx%1777 == 0 {
					c.Sample(map[string]any{"side": "client", "proto": p.String(), "kind": kind.String(), "remaining_ns": int64(d)})
				}
			}
		}
	}
	// the call is made at a moment that is not a whole millisecond, with a deadline whose sub-millisecond part is smaller
	for _, p := range AllProtos {
		for _, kind := range []Kind{KUnary, KServer, KBidi, KClient} {
			for _, d := range []time.Duration{1650 * time.Microsecond, 2*time.Second + 650*time.Microsecond, 5*time.Millisecond + 50*time.Microsecond, 3 * time.Millisecond} {
				for _, ph := range []time.Duration{400 * time.Microsecond, 999 * time.Microsecond} {
					idx++
					if !ev.Mine(idx) {
						continue
					}
					k := c10ClientCase{Proto: p, Kind: kind, D: d, Phase: ph}
					c.Case(fmt.Sprintf("client/%s/%s/%d/phase%d", p, kind, int64(d), int64(ph)), true)
					Bubble(t, func() { c10ClientCheck(c, k) })
				}
			}
		}
	}
	// the remaining time comes about through a reused Request or a client interceptor
	for _, p := range AllProtos {
		for _, kind := range []Kind{KUnary, KServer, KBidi, KClient} {
			for _, mode := range []string{"reuse-request", "icpt-adds", "icpt-shortens", "icpt-slow"} {
				if mode == "reuse-request" && kind != KUnary {
					continue
				}
				durations := []time.Duration{1500 * time.Millisecond, 123456789, 2 * time.Hour}
				if mode == "reuse-request" {
					// also: no deadline the second time, and one too far away for Connect's ten digits
					durations = append(durations, 0, 200*24*time.Hour)
				}
				for _, d := range durations {
					idx++
					if !ev.Mine(idx) {
						continue
					}
					k := c10ClientCase{Proto: p, Kind: kind, D: d, Mode: mode}
					c.Case(fmt.Sprintf("client/%s/%s/%d/%s", p, kind, int64(d), mode), true)
					Bubble(t, func() { c10ClientCheck(c, k) })
				}
			}
		}
	}
	c10LateSend(t, c)
	strs := append(c10HeaderStrings(thorough), "") // "" = header present without a value
	for _, p := range AllProtos {
		for _, kind := range []Kind{KUnary, KServer} {
			for _, s := range strs {
				idx++
				if !ev.Mine(idx) {
					continue
				}
				if c.Expired() {
					return
				}
				k := c10HeaderCase{Proto: p, Kind: kind, Value: s, EmptyValue: s == ""}
				c.Case(fmt.Sprintf("header/%s/%s/%q", p, kind, s), true)
				Bubble(t, func() { c10HeaderCheck(c, k) })
				if idx%4999 == 0 {
					c.Sample(map[string]any{"side": "handler", "proto": p.String(), "header": s})
				}
			}
		}
	}
	// the server's own request context already has a deadline: later than, equal to, sooner than the client's
	for _, p := range AllProtos {
		for _, kind := range AllKinds {
			vals := []string{"5S", "5000m", "99999999H"}
			if p == PConnect {
				vals = []string{"5000", "1", "9999999999"}
			}
			for _, v := range vals {
				for _, sd := range []time.Duration{time.Hour, 5 * time.Second, time.Second, time.Millisecond, 5*time.Second + time.Nanosecond, 5*time.Second - time.Nanosecond} {
					idx++
					if !ev.Mine(idx) {
						continue
					}
					k := c10HeaderCase{Proto: p, Kind: kind, Value: v, ServerDeadline: sd}
					c.Case(fmt.Sprintf("header/%s/%s/%q/server-deadline=%v", p, kind, v, sd), true)
					Bubble(t, func() { c10HeaderCheck(c, k) })
				}
			}
		}
	}
	c10Pure(c, thorough)
}
