package memhttp

import (
	"errors"
	"fmt"
	"io"
	"strings"
)

// ErrTransport is the injected non-EOF transport failure.
var ErrTransport = errors.New("memhttp: injected transport error")

// Script is an environment answer for a body: how the bytes are split into
// reads and how the stream ends.
type Script struct {
	// Chunks are the sizes of successive reads (the remainder, if any, is
	// delivered in one final read).  A caller buffer smaller than the chunk
	// simply gets a shorter read.
	Chunks []int `json:"chunks,omitempty"`
	// Stride, if > 0, delivers the whole body in reads of this size instead.
	Stride int `json:"stride,omitempty"`
	// Cut, if >= 0, ends the stream after this many bytes (fault injection);
	// -1 delivers the complete body.
	Cut int `json:"cut"`
	// End is the terminal answer once the bytes are exhausted: "eof",
	// "unexpected" (io.ErrUnexpectedEOF), "transport", or "rst:<CODE>" (the
	// error text of an HTTP/2 stream reset by the peer).
	End string `json:"end"`
	// WithLast returns the terminal answer together with the last data read.
	WithLast bool `json:"with_last"`
}

func (s Script) endErr() error {
	switch s.End {
	case "unexpected":
		return io.ErrUnexpectedEOF
	case "wrapped-eof":
		// a layer between the library and the wire (a proxying RoundTripper, a
		// decorating body) that reports the premature end with an error of its
		// own wrapping io.EOF: not io.EOF itself, so io.ReadFull passes it on
		return fmt.Errorf("upstream closed the connection: %w", io.EOF)
	case "transport":
		return ErrTransport
	}
	if strings.HasPrefix(s.End, "rst:") {
		// the text net/http's HTTP/2 client produces when the peer resets the stream
		return fmt.Errorf("stream error: stream ID 1; %s; received from peer", strings.TrimPrefix(s.End, "rst:"))
	}
	return io.EOF
}

// ScriptReader delivers data according to a Script.  If under is non-nil it is
// drained first (so that an in-memory response publishes its trailers exactly
// as the unscripted body would) and closed with the reader.
type ScriptReader struct {
	under  io.ReadCloser
	data   []byte
	loaded bool
	s      Script
	pos    int
	chunk  int
	left   int // bytes left in the current chunk
	done   bool
	// OnCut, if set, is called once after the body was loaded (used to drop the
	// HTTP trailers of a response whose transport failed).
	OnCut func()
	// OnEnd, if set, is called when the reader hands its terminal answer to
	// the caller (with that answer).  A transport publishes HTTP trailers at
	// this moment, not when the scripted reader loaded the body.
	OnEnd func(err error)
}

func NewScriptReader(under io.ReadCloser, data []byte, s Script) *ScriptReader {
	return &ScriptReader{under: under, data: data, loaded: under == nil, s: s}
}

func (r *ScriptReader) load() {
	if r.loaded {
		return
	}
	r.loaded = true
	data, _ := io.ReadAll(r.under)
	r.data = data
}

func (r *ScriptReader) Read(p []byte) (int, error) {
	r.load()
	if len(p) == 0 {
		return 0, nil
	}
	total := len(r.data)
	if r.OnCut != nil {
		r.OnCut() // the caller asked for a response without HTTP trailers
		r.OnCut = nil
	}
	if r.s.Cut >= 0 && r.s.Cut < total {
		total = r.s.Cut
	}
	if r.pos >= total {
		r.done = true
		err := r.s.endErr()
		if r.OnEnd != nil {
			r.OnEnd(err)
			r.OnEnd = nil
		}
		return 0, err
	}
	if r.left == 0 {
		switch {
		case r.s.Stride > 0:
			r.left = r.s.Stride
		case r.chunk < len(r.s.Chunks):
			r.left = r.s.Chunks[r.chunk]
			r.chunk++
		default:
			r.left = total - r.pos
		}
		if r.left <= 0 {
			r.left = 1
		}
	}
	n := r.left
	if n > len(p) {
		n = len(p)
	}
	if n > total-r.pos {
		n = total - r.pos
	}
	copy(p, r.data[r.pos:r.pos+n])
	r.pos += n
	r.left -= n
	if r.pos >= total && r.s.WithLast {
		r.done = true
		err := r.s.endErr()
		if r.OnEnd != nil {
			r.OnEnd(err)
			r.OnEnd = nil
		}
		return n, err
	}
	return n, nil
}

func (r *ScriptReader) Close() error {
	if r.under != nil {
		return r.under.Close()
	}
	return nil
}
