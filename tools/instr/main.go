// instr rewrites the non-test Go files of /repo's root package into an
// overlay for `go build -overlay`:
//
//   - import "sync" is redirected to the virtual package
//     github.com/bufbuild/connect-go/internal/verifsync (deterministic poisoned
//     LIFO Pool; channel-based Mutex/Once that block durably in a synctest
//     bubble) — added by the overlay, /repo itself is never touched;
//   - verifGate("file:line") is inserted before statements (every statement
//     of the concurrency core, statements containing a visible operation
//     elsewhere; profile "fine" gates every statement of the codec files);
//   - verif_hooks.go (build tag verif) adds the exported VerifGate variable.
//
// The rewrite is mechanical and semantics preserving: a gate is a nil check
// unless a scheduler is installed.
package main

import (
	"bytes"
	"encoding/json"
	"flag"
	"fmt"
	"go/ast"
	"go/format"
	"go/parser"
	"go/token"
	"os"
	"path/filepath"
	"sort"
	"strconv"
	"strings"
)

const shimImport = "github.com/bufbuild/connect-go/internal/verifsync"

var visibleMethods = map[string]bool{
	"Get": true, "Put": true, "Read": true, "Write": true, "ReadFrom": true, "WriteTo": true,
	"Close": true, "Flush": true, "Do": true, "Copy": true, "CopyN": true, "SetError": true,
	"Lock": true, "Unlock": true, "CloseWrite": true, "CloseRead": true, "Reset": true,
	"Compress": true, "Decompress": true, "Marshal": true, "Unmarshal": true,
	"BlockUntilResponseReady": true, "WriteHeader": true, "WriteByte": true, "WriteString": true,
	"Send": true, "Receive": true, "CloseRequest": true, "CloseResponse": true, "Wait": true,
	"Store": true, "Load": true, "Add": true, "CompareAndSwap": true, "Swap": true,
}

var everyStmtCore = map[string]bool{"duplex_http_call.go": true}
var everyStmtFine = map[string]bool{
	"duplex_http_call.go": true, "envelope.go": true, "compression.go": true, "buffer_pool.go": true,
	"protocol_connect.go": true, "protocol_grpc.go": true, "protocol.go": true, "client.go": true,
	"client_stream.go": true, "handler.go": true, "handler_stream.go": true, "error.go": true,
}

type instrumenter struct {
	fset       *token.FileSet
	file       string
	every      bool
	gates      int
	pkgVars    map[string]bool
	visibleOps bool

	selectsOwned, selectsUnowned int
}

func (in *instrumenter) gateStmt(pos token.Pos) ast.Stmt {
	in.gates++
	p := in.fset.Position(pos)
	label := in.file + ":" + strconv.Itoa(p.Line)
	return &ast.ExprStmt{X: &ast.CallExpr{
		Fun:  ast.NewIdent("verifGate"),
		Args: []ast.Expr{&ast.BasicLit{Kind: token.STRING, Value: strconv.Quote(label)}},
	}}
}

// visible reports whether the statement (not descending into nested blocks
// or function literals) contains a scheduler-relevant operation.
func (in *instrumenter) visible(s ast.Stmt) bool {
	switch s.(type) {
	case *ast.GoStmt, *ast.SendStmt, *ast.SelectStmt:
		return true
	}
	found := false
	var exprs []ast.Node
	switch st := s.(type) {
	case *ast.ExprStmt:
		exprs = append(exprs, st.X)
	case *ast.AssignStmt:
		for _, e := range st.Rhs {
			exprs = append(exprs, e)
		}
		for _, e := range st.Lhs {
			exprs = append(exprs, e)
		}
	case *ast.ReturnStmt:
		for _, e := range st.Results {
			exprs = append(exprs, e)
		}
	case *ast.DeferStmt:
		exprs = append(exprs, st.Call)
	case *ast.IfStmt:
		if st.Init != nil {
			exprs = append(exprs, st.Init)
		}
		exprs = append(exprs, st.Cond)
	case *ast.ForStmt:
		if st.Init != nil {
			exprs = append(exprs, st.Init)
		}
	case *ast.RangeStmt:
		exprs = append(exprs, st.X)
	case *ast.SwitchStmt:
		if st.Init != nil {
			exprs = append(exprs, st.Init)
		}
		if st.Tag != nil {
			exprs = append(exprs, st.Tag)
		}
	case *ast.DeclStmt:
		exprs = append(exprs, st.Decl)
	case *ast.IncDecStmt:
		exprs = append(exprs, st.X)
	}
	for _, e := range exprs {
		ast.Inspect(e, func(n ast.Node) bool {
			if found {
				return false
			}
			switch x := n.(type) {
			case *ast.FuncLit:
				return false
			case *ast.UnaryExpr:
				if x.Op == token.ARROW {
					found = true
				}
			case *ast.CallExpr:
				switch f := x.Fun.(type) {
				case *ast.SelectorExpr:
					if visibleMethods[f.Sel.Name] {
						found = true
					}
				case *ast.Ident:
					if f.Name == "close" || f.Name == "discard" {
						found = true
					}
				}
			case *ast.Ident:
				if in.pkgVars[x.Name] {
					found = true
				}
			}
			return true
		})
	}
	return found
}

func (in *instrumenter) rewriteList(list []ast.Stmt) []ast.Stmt {
	out := make([]ast.Stmt, 0, len(list)*2)
	for _, s := range list {
		in.rewriteStmt(s)
		pos := s.Pos()
		gate := false
		if _, isLabeled := s.(*ast.LabeledStmt); !isLabeled && (in.every || (in.visibleOps && in.visible(s))) {
			gate = true
		}
		if sel, ok := s.(*ast.SelectStmt); ok && (in.every || in.visibleOps) {
			s = in.ownSelect(sel)
		}
		if gate {
			out = append(out, in.gateStmt(pos))
		}
		out = append(out, s)
	}
	return out
}

// ownSelect hands the one nondeterministic choice a select statement makes —
// which of several ready cases runs — to the scheduler.  A select whose cases
// are all bare receives (`case <-ch:`, value discarded) and that has no default
// becomes
//
//	switch verifSelect("file:line", poll0, poll1, ...) {
//	case k:  <body of case k>      // case k was ready (its receive has been done)
//	default: <the original select> // nothing was ready (block), or no scheduler
//	}
//
// where poll_k is a non-blocking receive from case k's channel.  verifSelect
// polls the cases in order: a poll that receives a *value* commits to that case
// at once; channels that are merely closed consume nothing, and when two or
// more of them are ready the scheduler chooses (a choice point) — with one or
// none ready there is nothing to choose and no yield point is added.  Every
// behaviour of the rewritten statement is a behaviour of the original; for
// close-only signal channels (all the tree has) every ready case can be
// selected.  Other selects are left alone and counted (selects_unowned).
func (in *instrumenter) ownSelect(sel *ast.SelectStmt) ast.Stmt {
	var comms []*ast.CommClause
	for _, cl := range sel.Body.List {
		c := cl.(*ast.CommClause)
		if c.Comm == nil {
			in.selectsUnowned++
			return sel
		}
		// only bare receives whose value is discarded: `case <-ch:`
		es, ok := c.Comm.(*ast.ExprStmt)
		if !ok {
			in.selectsUnowned++
			return sel
		}
		if u, ok := es.X.(*ast.UnaryExpr); !ok || u.Op != token.ARROW {
			in.selectsUnowned++
			return sel
		}
		labeled := false
		for _, b := range c.Body {
			ast.Inspect(b, func(n ast.Node) bool {
				if _, ok := n.(*ast.LabeledStmt); ok {
					labeled = true
				}
				return !labeled
			})
		}
		if labeled {
			in.selectsUnowned++
			return sel
		}
		comms = append(comms, c)
	}
	n := len(comms)
	if n < 2 {
		return sel
	}
	in.selectsOwned++
	p := in.fset.Position(sel.Pos())
	label := in.file + ":" + strconv.Itoa(p.Line)
	// one non-blocking poll per case: func() (ready, consumed bool) { select { case _, ok := <-ch: return true, ok; default: return false, false } }
	boolT := func() *ast.Field { return &ast.Field{Type: ast.NewIdent("bool")} }
	var polls []ast.Expr
	for _, c := range comms {
		ch := c.Comm.(*ast.ExprStmt).X.(*ast.UnaryExpr).X
		poll := &ast.FuncLit{
			Type: &ast.FuncType{Params: &ast.FieldList{}, Results: &ast.FieldList{List: []*ast.Field{boolT(), boolT()}}},
			Body: &ast.BlockStmt{List: []ast.Stmt{&ast.SelectStmt{Body: &ast.BlockStmt{List: []ast.Stmt{
				&ast.CommClause{
					Comm: &ast.AssignStmt{Lhs: []ast.Expr{ast.NewIdent("_"), ast.NewIdent("ok")}, Tok: token.DEFINE,
						Rhs: []ast.Expr{&ast.UnaryExpr{Op: token.ARROW, X: ch}}},
					Body: []ast.Stmt{&ast.ReturnStmt{Results: []ast.Expr{ast.NewIdent("true"), ast.NewIdent("ok")}}},
				},
				&ast.CommClause{Comm: nil, Body: []ast.Stmt{&ast.ReturnStmt{Results: []ast.Expr{ast.NewIdent("false"), ast.NewIdent("false")}}}},
			}}}}},
		}
		polls = append(polls, poll)
	}
	var cases []ast.Stmt
	for k, c := range comms {
		cases = append(cases, &ast.CaseClause{
			List: []ast.Expr{&ast.BasicLit{Kind: token.INT, Value: strconv.Itoa(k)}},
			Body: c.Body,
		})
	}
	cases = append(cases, &ast.CaseClause{Body: []ast.Stmt{sel}})
	args := append([]ast.Expr{&ast.BasicLit{Kind: token.STRING, Value: strconv.Quote(label)}}, polls...)
	return &ast.SwitchStmt{
		Tag:  &ast.CallExpr{Fun: ast.NewIdent("verifSelect"), Args: args},
		Body: &ast.BlockStmt{List: cases},
	}
}

func (in *instrumenter) rewriteStmt(s ast.Stmt) {
	clauses := func(body *ast.BlockStmt) {
		// the body of a switch / select holds clauses, not statements: gates go
		// inside the clauses, never between them
		if body == nil {
			return
		}
		for _, cl := range body.List {
			switch c := cl.(type) {
			case *ast.CaseClause:
				c.Body = in.rewriteList(c.Body)
			case *ast.CommClause:
				c.Body = in.rewriteList(c.Body)
			}
		}
	}
	ast.Inspect(s, func(n ast.Node) bool {
		switch x := n.(type) {
		case *ast.SwitchStmt:
			clauses(x.Body)
			return false
		case *ast.TypeSwitchStmt:
			clauses(x.Body)
			return false
		case *ast.SelectStmt:
			clauses(x.Body)
			return false
		case *ast.BlockStmt:
			x.List = in.rewriteList(x.List)
			return false
		case *ast.CaseClause:
			x.Body = in.rewriteList(x.Body)
			return false
		case *ast.CommClause:
			x.Body = in.rewriteList(x.Body)
			return false
		}
		return true
	})
}

func main() {
	repo := flag.String("repo", "/repo", "repository root")
	out := flag.String("out", "", "output directory")
	profile := flag.String("profile", "duplex", "duplex|pools|fine|none")
	shim := flag.String("shim", "", "directory holding verifsync.go.txt and verif_hooks.go.txt")
	flag.Parse()
	if *out == "" || *shim == "" {
		fmt.Fprintln(os.Stderr, "usage: instr -repo /repo -out DIR -shim DIR [-profile duplex|pools|fine|none]")
		os.Exit(2)
	}
	srcDir := filepath.Join(*out, "src")
	if err := os.RemoveAll(srcDir); err != nil {
		fail(err)
	}
	if err := os.MkdirAll(srcDir, 0o755); err != nil {
		fail(err)
	}
	entries, err := os.ReadDir(*repo)
	if err != nil {
		fail(err)
	}
	replace := map[string]string{}
	fset := token.NewFileSet()
	type parsed struct {
		name string
		f    *ast.File
	}
	var files []parsed
	pkgVars := map[string]bool{}
	for _, e := range entries {
		name := e.Name()
		if e.IsDir() || !strings.HasSuffix(name, ".go") || strings.HasSuffix(name, "_test.go") {
			continue
		}
		path := filepath.Join(*repo, name)
		f, err := parser.ParseFile(fset, path, nil, parser.SkipObjectResolution)
		if err != nil {
			fail(fmt.Errorf("parse %s: %w", path, err))
		}
		if f.Name.Name != "connect" {
			continue
		}
		files = append(files, parsed{name, f})
		// package-level mutable variables: statements touching them are visible
		for _, d := range f.Decls {
			gd, ok := d.(*ast.GenDecl)
			if !ok || gd.Tok != token.VAR {
				continue
			}
			for _, sp := range gd.Specs {
				vs := sp.(*ast.ValueSpec)
				for _, n := range vs.Names {
					if n.Name != "_" && !strings.HasPrefix(n.Name, "err") {
						pkgVars[n.Name] = true
					}
				}
			}
		}
	}
	total := 0
	selOwned, selUnowned := 0, 0
	perFile := map[string]int{}
	for _, pf := range files {
		in := &instrumenter{fset: fset, file: pf.name, pkgVars: pkgVars}
		visibleOps := false
		switch *profile {
		case "duplex": // concurrency core only (C14/C15 and all sequential explorers)
			in.every = everyStmtCore[pf.name]
		case "pools": // + every visible operation elsewhere (C13)
			in.every = everyStmtCore[pf.name]
			visibleOps = true
		case "fine": // every statement of the codec / protocol files (C13 thorough)
			in.every = everyStmtFine[pf.name]
			visibleOps = true
		case "none":
		default:
			fail(fmt.Errorf("unknown profile %q", *profile))
		}
		in.visibleOps = visibleOps
		// import rewrite
		for _, imp := range pf.f.Imports {
			if imp.Path.Value == `"sync"` {
				imp.Path.Value = strconv.Quote(shimImport)
				if imp.Name == nil {
					imp.Name = ast.NewIdent("sync")
				}
			}
		}
		if *profile != "none" {
			for _, d := range pf.f.Decls {
				fd, ok := d.(*ast.FuncDecl)
				if !ok || fd.Body == nil {
					continue
				}
				if fd.Name.Name == "init" && fd.Recv == nil {
					continue
				}
				fd.Body.List = in.rewriteList(fd.Body.List)
			}
		}
		var buf bytes.Buffer
		if err := format.Node(&buf, fset, pf.f); err != nil {
			fail(fmt.Errorf("print %s: %w", pf.name, err))
		}
		dst := filepath.Join(srcDir, pf.name)
		if err := os.WriteFile(dst, buf.Bytes(), 0o644); err != nil {
			fail(err)
		}
		replace[filepath.Join(*repo, pf.name)] = dst
		total += in.gates
		perFile[pf.name] = in.gates
		selOwned += in.selectsOwned
		selUnowned += in.selectsUnowned
	}
	copyShim := func(from, to string) {
		data, err := os.ReadFile(filepath.Join(*shim, from))
		if err != nil {
			fail(err)
		}
		dst := filepath.Join(srcDir, strings.TrimSuffix(from, ".txt"))
		if err := os.WriteFile(dst, data, 0o644); err != nil {
			fail(err)
		}
		replace[filepath.Join(*repo, to)] = dst
	}
	copyShim("verif_hooks.go.txt", "verif_hooks.go")
	copyShim("verifsync.go.txt", "internal/verifsync/verifsync.go")
	data, _ := json.MarshalIndent(map[string]any{"Replace": replace}, "", " ")
	if err := os.WriteFile(filepath.Join(*out, "overlay.json"), data, 0o644); err != nil {
		fail(err)
	}
	names := make([]string, 0, len(perFile))
	for n := range perFile {
		names = append(names, n)
	}
	sort.Strings(names)
	var sb strings.Builder
	for _, n := range names {
		fmt.Fprintf(&sb, "%s=%d ", n, perFile[n])
	}
	summary := map[string]any{"profile": *profile, "gates": total, "per_file": perFile, "files": len(files),
		"selects_owned": selOwned, "selects_unowned": selUnowned}
	sdata, _ := json.Marshal(summary)
	_ = os.WriteFile(filepath.Join(*out, "summary.json"), sdata, 0o644)
	fmt.Printf("instr: profile=%s files=%d gates=%d selects_owned=%d selects_unowned=%d\n", *profile, len(files), total, selOwned, selUnowned)
}

func fail(err error) {
	fmt.Fprintln(os.Stderr, "instr:", err)
	os.Exit(1)
}
