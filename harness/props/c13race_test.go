package props

import (
	"context"
	"errors"
	"fmt"
	"io"
	"os"
	"runtime"
	"strconv"
	"sync"
	"testing"
	"time"

	connect "github.com/bufbuild/connect-go"

	"verifharness/memhttp"
)

// TestC13Race is the free-running pass of the C13 scenario bodies: no
// scheduler (gates only yield), real sync.Pool, real goroutines, built with
// -race.  A cooperative scheduler's hand-offs are happens-before edges that
// blind the race detector, so unsynchronised accesses are looked for here.
// Supplementary evidence: a reported race is a true race, silence proves
// nothing.
func TestC13Race(t *testing.T) {
	if os.Getenv("VERIF_RACE_PASS") == "" {
		t.Skip("only run by ./check C13")
	}
	connect.VerifUseRealPool(true)
	defer connect.VerifUseRealPool(false)
	// the hook is left installed: a handler of a cancelled call may still be
	// running when the test function returns
	SetGate(func(string) { runtime.Gosched() })
	connect.VerifChoose = nil
	iterations := 40
	if n, err := strconv.Atoi(os.Getenv("VERIF_RACE_ITER")); err == nil && n > 0 {
		iterations = n
	}
	calls := 0
	for _, k := range c13Scenarios(true) {
		if k.Sub != 0 {
			continue
		}
		rec := &c13Recorder{}
		var recMu sync.Mutex
		_ = recMu
		h := c13Handler(k.Cfg.Kind, &c13Recorder{}, k.Cfg.HandlerOptions()...)
		_ = rec
		tr := &memhttp.Transport{Handler: h, Proto: 2, ReqMode: k.Cfg.ReqMode, SyncCloseReq: true}
		cl := NewClient(tr, k.Cfg)
		if k.OneBidi {
			continue // covered by the per-call scenarios below; a single stream's send/receive pair is exercised in TestC13
		}
		var wg sync.WaitGroup
		for g := range k.Calls {
			wg.Add(1)
			go func(g int) {
				defer wg.Done()
				for i := 0; i < iterations; i++ {
					r := &c13Recorder{}
					res := c13RunOne(context.Background(), cl, k.Cfg.Kind, g, k.Calls[g], r)
					want, failed := c13Expected(k.Cfg.Kind, g, k.Calls[g])
					if failed != (res.Err != nil) || (!failed && !equalMsgs(res.Msgs, want)) {
						t.Errorf("%s call %d iteration %d: got %s err=%v", k.key(), g, i, shortMsgs(res.Msgs), res.Err)
						return
					}
				}
			}(g)
		}
		wg.Wait()
		calls += iterations * len(k.Calls)
	}
	// one bidirectional stream sent on and received from concurrently, with
	// and without a context cancellation arriving from a third goroutine
	for _, p := range AllProtos {
		for _, comp := range []Comp{CompNone, CompSendGzip} {
			for _, cancelAt := range []int{-1, 0, 2, 5} {
				cfg := Cfg{Proto: p, Comp: comp, Kind: KBidi, HTTP: 2}
				h := c13Handler(KBidi, &c13Recorder{}, cfg.HandlerOptions()...)
				tr := &memhttp.Transport{Handler: h, Proto: 2, SyncCloseReq: true}
				cl := NewClient(tr, cfg)
				for i := 0; i < iterations/2; i++ {
					c13RaceOneBidi(t, cl, tr, cancelAt)
					calls++
				}
			}
		}
	}
	fmt.Printf("race pass: %d free-running calls on shared clients/handlers\n", calls)
}

// c13RaceOneBidi: sender, receiver and (optionally) a canceller run freely on
// one bidirectional stream.  Without cancellation the echo must be complete.
func c13RaceOneBidi(t *testing.T, cl *connect.Client[BV, BV], tr *memhttp.Transport, cancelAt int) {
	ctx, cancel := context.WithCancel(context.Background())
	defer cancel()
	stream := cl.CallBidiStream(ctx)
	stream.RequestHeader().Set("X-Call", "0")
	pay := c13Payloads(0, []int{40, 600, 0, 90, 5000, 12, 300})
	var wg sync.WaitGroup
	var got [][]byte
	var recvErr error
	wg.Add(2)
	go func() {
		defer wg.Done()
		for i, p := range pay {
			if i == cancelAt {
				go cancel()
			}
			if err := stream.Send(&BV{Value: p}); err != nil {
				break
			}
		}
		_ = stream.CloseRequest()
	}()
	go func() {
		defer wg.Done()
		for {
			m, err := stream.Receive()
			if err != nil {
				if !errors.Is(err, io.EOF) {
					recvErr = err
				}
				break
			}
			got = append(got, cloneBytes(m.Value))
		}
		_ = stream.ResponseHeader()
		_ = stream.ResponseTrailer()
		_ = stream.CloseResponse()
	}()
	wg.Wait()
	// a cancelled call returns before its handler does: let the handler finish
	// so that it cannot overlap the next scenario's set-up
	for ex := tr.Last(); ex != nil && !ex.IsDone(); {
		time.Sleep(50 * time.Microsecond)
	}
	if cancelAt < 0 {
		want, _ := c13Expected(KBidi, 0, c13Call{Sizes: []int{40, 600, 0, 90, 5000, 12, 300}})
		if recvErr != nil || !equalMsgs(got, want) {
			t.Errorf("one-bidi free-running: got %s err=%v", shortMsgs(got), recvErr)
		}
	}
}
