package props

import (
	"bytes"
	"context"
	"errors"
	"fmt"
	"net/http"
	"net/http/httptest"
	"strings"
	"testing"
	"testing/synctest"
	"time"

	connect "github.com/bufbuild/connect-go"

	"verifharness/bsched"
	"verifharness/ev"
	"verifharness/memhttp"
	"verifharness/refwire"
)

// C15 — cancellation and expiry surface as canceled / deadline_exceeded.
//
// Engine: the controlled scheduler places the cancellation (thread ~x calling
// cancel()) or the deadline expiry (~clock letting the bubble's fake clock
// reach the deadline) at every instant of every client program, including
// while a Send or Receive is blocked, against handlers that wait for their
// context and return its error.

type c15Case struct {
	Proto    Proto           `json:"proto"`
	Kind     Kind            `json:"kind"`
	ReqMode  memhttp.ReqMode `json:"req_mode"`
	Client   string          `json:"client"`   // word over S Q R P (bidi); fixed programs for the other kinds
	Deadline bool            `json:"deadline"` // expiry instead of cancel()
	// Cause: the context is cancelled / expires with a caller-supplied cause (context.WithCancelCause, WithTimeoutCause); ctx.Err() is still Canceled / DeadlineExceeded.
	Cause bool `json:"cause,omitempty"`
	// DoCause (with Cause): the transport's Do fails with the cause rather than
	// with ctx.Err(), as net/http's HTTP/1.1 transport does.
	DoCause bool `json:"do_cause,omitempty"`
	// ErrBodyCut (Connect unary): the peer answers 503 with the beginning of a
	// JSON error body and goes quiet; the context ends while the client is
	// reading that body.
	ErrBodyCut bool `json:"err_body_cut,omitempty"`
	HRecv      int  `json:"hrecv"`
	HSend      int  `json:"hsend"`
	Bound      int  `json:"bound"`
	// RR: explore around the round-robin default scheduler instead of run-to-block.
	RR bool `json:"rr,omitempty"`
	// Ideal: idealised transport that notices the end of the request context
	// at once in every state (default: HTTP/2 semantics as measured on
	// net/http, see memhttp.Transport.PromptCancel).
	Ideal bool `json:"ideal,omitempty"`
	// Chunk: the transport takes the request body in pieces of this many bytes
	// (0 = 32 KiB), so the context can end in the middle of a Send.
	Chunk int `json:"chunk,omitempty"`
	// ViaIcept: the caller's own context stays live; the context that ends is
	// one that a client interceptor substituted for it.
	ViaIcept bool  `json:"via_icept,omitempty"`
	Prefix   []int `json:"prefix,omitempty"`
}

// ctxSwapI is a client interceptor that replaces the call's context.
type ctxSwapI struct{ ctx func() context.Context }

func (i ctxSwapI) WrapUnary(next connect.UnaryFunc) connect.UnaryFunc {
	return func(_ context.Context, req connect.AnyRequest) (connect.AnyResponse, error) {
		return next(i.ctx(), req)
	}
}

func (i ctxSwapI) WrapStreamingClient(next connect.StreamingClientFunc) connect.StreamingClientFunc {
	return func(_ context.Context, spec connect.Spec) connect.StreamingClientConn {
		return next(i.ctx(), spec)
	}
}

func (i ctxSwapI) WrapStreamingHandler(next connect.StreamingHandlerFunc) connect.StreamingHandlerFunc {
	return next
}

func (k c15Case) key() string {
	x := "cancel"
	if k.Deadline {
		x = "deadline"
	}
	if k.Cause {
		x += "+cause"
	}
	if k.DoCause {
		x += "+do-returns-cause"
	}
	if k.ErrBodyCut {
		x += "+error-body-cut"
	}
	if k.RR {
		x += "+rr"
	}
	if k.Ideal {
		x += "+ideal"
	}
	if k.Chunk > 0 {
		x += fmt.Sprintf("+chunk%d", k.Chunk)
	}
	if k.ViaIcept {
		x += "+via-interceptor"
	}
	return fmt.Sprintf("%s/%s/%s/%s/%s/r%ds%d/d%d", k.Proto, k.Kind, k.ReqMode, k.Client, x, k.HRecv, k.HSend, k.Bound)
}

func (k c15Case) tags() []string {
	x := "cancel"
	if k.Deadline {
		x = "deadline"
	}
	return []string{"proto=" + k.Proto.String(), "kind=" + k.Kind.String(), "x=" + x}
}

func c15Words(maxLen int) []string {
	var out []string
	var rec func(w string)
	rec = func(w string) {
		if len(w) > 0 {
			out = append(out, w)
		}
		if len(w) == maxLen {
			return
		}
		for _, op := range "SQRP" {
			switch op {
			case 'S':
				if strings.Contains(w, "Q") {
					continue
				}
			case 'Q':
				if strings.Contains(w, "Q") {
					continue
				}
			case 'R':
				if w == "" || strings.Contains(w, "P") {
					continue
				}
			case 'P':
				if w == "" || strings.Contains(w, "P") {
					continue
				}
			}
			rec(w + string(op))
		}
	}
	rec("")
	return out
}

type c15Obs struct {
	Ops           []opObs
	XDone         int64 // logical time at which cancel() returned / the deadline had passed
	HandlerDone   bool
	HandlerSawCtx bool
	HandlerErr    string
	Leaked        []string
	HandlerStuck  bool
	Stacks        string
	TimeoutHdr    string
	// CancelDeferred: the transport did not notice the end of the context at
	// the moment it happened (HTTP/2, body sender blocked on an idle request body)
	CancelDeferred bool
}

const c15Deadline = 3 * time.Second

func c15Body(k c15Case, s *bsched.Sched) any {
	obs := &c15Obs{}
	h := NewHandler(k.Kind, func(ctx context.Context, st HStream) error {
		for i := 0; i < k.HRecv; i++ {
			if _, err := st.Receive(); err != nil {
				break
			}
		}
		for j := 0; j < k.HSend; j++ {
			_ = st.Send(&BV{Value: []byte{'h', byte(j)}})
		}
		<-ctx.Done()
		obs.HandlerSawCtx = true
		obs.HandlerErr = ctx.Err().Error()
		return ctx.Err()
	})
	var hh http.Handler = h
	if k.ErrBodyCut {
		hh = http.HandlerFunc(func(w http.ResponseWriter, r *http.Request) {
			w.Header().Set("Content-Type", "application/json")
			w.WriteHeader(http.StatusServiceUnavailable)
			_, _ = w.Write([]byte(`{"code":"not_found","mess`))
			w.(http.Flusher).Flush()
			<-r.Context().Done()
			obs.HandlerSawCtx = true
			obs.HandlerErr = r.Context().Err().Error()
		})
	}
	tr := &memhttp.Transport{Handler: hh, Proto: 2, ReqMode: k.ReqMode, Gate: s.Gate, PromptCancel: k.Ideal, ReqChunk: k.Chunk, CauseFromDo: k.DoCause}
	var ctx context.Context
	var cancel context.CancelFunc
	var extra []connect.ClientOption
	if k.ViaIcept {
		extra = append(extra, connect.WithInterceptors(ctxSwapI{func() context.Context { return ctx }}))
	}
	cl := NewClient(tr, Cfg{Proto: k.Proto, Comp: CompNone}, extra...)
	custom := errors.New("caller-supplied cause")
	switch {
	case k.Deadline && k.Cause:
		ctx, cancel = context.WithTimeoutCause(context.Background(), c15Deadline, custom)
		s.ArmClock(c15Deadline)
		s.AfterClock = func() { obs.XDone = tick() }
	case k.Deadline:
		ctx, cancel = context.WithTimeout(context.Background(), c15Deadline)
		s.ArmClock(c15Deadline)
		s.AfterClock = func() { obs.XDone = tick() }
	case k.Cause:
		var cancelCause context.CancelCauseFunc
		ctx, cancelCause = context.WithCancelCause(context.Background())
		cancel = func() { cancelCause(nil) }
		s.Go("~x", func() {
			cancelCause(custom)
			obs.XDone = tick()
		})
	default:
		ctx, cancel = context.WithCancel(context.Background())
		s.Go("~x", func() {
			cancel()
			obs.XDone = tick()
		})
	}
	callCtx := ctx
	if k.ViaIcept {
		callCtx = context.Background() // stays live; the interceptor substitutes ctx
	}
	record := func(op byte, f func() (string, error)) {
		s.Gate("op." + string(op)) // every client operation starts at a yield point (see C14)
		o := opObs{Op: op, Start: tick()}
		class, err := f()
		o.Class = class
		if err != nil {
			o.Class = classifyErr(err)
			o.Err = err.Error()
		}
		o.End = tick()
		obs.Ops = append(obs.Ops, o)
	}
	s.Go("c", func() {
		switch k.Kind {
		case KBidi:
			stream := cl.CallBidiStream(callCtx)
			n := 0
			for i := 0; i < len(k.Client); i++ {
				switch op := k.Client[i]; op {
				case 'S':
					record(op, func() (string, error) {
						n++
						return "ok", stream.Send(&BV{Value: []byte{'c', byte(n)}})
					})
				case 'Q':
					record(op, func() (string, error) { return "ok", stream.CloseRequest() })
				case 'R':
					record(op, func() (string, error) {
						m, err := stream.Receive()
						if err != nil {
							return "", err
						}
						return fmt.Sprintf("msg:%d", payloadIndex(m.Value, 'h')), nil
					})
				case 'P':
					record(op, func() (string, error) { return "ok", stream.CloseResponse() })
				}
			}
		case KUnary:
			record('U', func() (string, error) {
				_, err := cl.CallUnary(callCtx, connect.NewRequest(&BV{Value: []byte{'c', 0}}))
				return "ok", err
			})
		case KClient:
			stream := cl.CallClientStream(callCtx)
			record('S', func() (string, error) { return "ok", stream.Send(&BV{Value: []byte{'c', 0}}) })
			record('S', func() (string, error) { return "ok", stream.Send(&BV{Value: []byte{'c', 1}}) })
			record('C', func() (string, error) { _, err := stream.CloseAndReceive(); return "ok", err })
		case KServer:
			var stream *connect.ServerStreamForClient[BV]
			record('O', func() (string, error) {
				var err error
				stream, err = cl.CallServerStream(callCtx, connect.NewRequest(&BV{Value: []byte{'c', 0}}))
				return "ok", err
			})
			if stream != nil {
				for i := 0; i < 2; i++ {
					record('R', func() (string, error) {
						if stream.Receive() {
							return fmt.Sprintf("msg:%d", payloadIndex(stream.Msg().Value, 'h')), nil
						}
						if err := stream.Err(); err != nil {
							return "", err
						}
						return "eof", nil
					})
				}
				record('P', func() (string, error) { return "ok", stream.Close() })
			}
		}
	})
	s.Run()
	if s.Deadlock || s.Horizon {
		obs.Stacks = bsched.AllStacks()
	}
	if ex := tr.Last(); ex != nil {
		obs.HandlerDone = ex.IsDone()
		obs.CancelDeferred = ex.WasCancelDeferred()
		if v := ex.ReqHeader.Get("Grpc-Timeout"); v != "" {
			obs.TimeoutHdr = v
		} else {
			obs.TimeoutHdr = ex.ReqHeader.Get("Connect-Timeout-Ms")
		}
	} else {
		obs.HandlerDone = true
	}
	if !s.Deadlock && !s.Horizon && s.Diverged == "" {
		for _, g := range bsched.LibraryGoroutines() {
			if strings.Contains(g, "memhttp.(*call).serve") {
				obs.HandlerStuck = true
				continue
			}
			obs.Leaked = append(obs.Leaked, g)
		}
	}
	cancel()
	tr.AbortAll()
	s.Release()
	return obs
}

func c15Judge(c *ev.Collector, k c15Case, x *bsched.Exec) string {
	obs := x.Obs.(*c15Obs)
	kk := k
	kk.Prefix = x.TrimmedChoices()
	viol := func(clause, outcome string, extra []string, format string, args ...any) {
		if obs.CancelDeferred {
			extra = append(extra, "cancel-unnoticed-by-h2-transport")
		}
		c.Violation("TestC15", clause, outcome, append(k.tags(), extra...), kk, "%s [%s]: "+format+"\n  ops: %s\n  schedule: %v", append(append([]any{k.key(), schedLine(x)}, args...), opsString(obs.Ops), traceOf(x, 400))...)
	}
	if x.Horizon {
		c.NotExhaustive("step horizon reached in " + k.key())
		return "horizon"
	}
	if x.Deadlock {
		viol("terminates", "deadlock", nil, "blocked threads %v\n%s", x.Blocked, trimStacks(obs.Stacks))
		return "deadlock"
	}
	want := "err:canceled"
	if k.Deadline {
		want = "err:deadline_exceeded"
	}
	bad := false
	if obs.XDone == 0 {
		c.HarnessError("%s: cancellation event never fired", k.key())
		return "harness"
	}
	if obs.HandlerStuck || !obs.HandlerDone {
		bad = true
		viol("handler-ctx-cancelled", "handler-stuck", nil, "the handler's context was never cancelled (handler still waiting on ctx.Done())")
	}
	if len(obs.Leaked) > 0 {
		bad = true
		viol("no-leak", "goroutine-leak", nil, "library goroutines remain:\n%s", strings.Join(obs.Leaked, "\n\n"))
	}
	sendEOFPending := false
	for _, o := range obs.Ops {
		if o.End < obs.XDone {
			continue // finished before the cancellation had happened
		}
		started := "inflight"
		if o.Start > obs.XDone {
			started = "after"
		}
		failed := strings.HasPrefix(o.Class, "err:") || o.Class == "eof"
		isRecv := o.Op == 'R' || o.Op == 'U' || o.Op == 'C'
		isSend := o.Op == 'S' || o.Op == 'O' || o.Op == 'Q' // CloseRequest is the last act of sending
		switch {
		case !failed:
			if started == "after" && (isRecv || isSend) {
				bad = true
				viol("no-success-after", "success:"+string(o.Op), []string{"when=" + started}, "%c started after the context was done and succeeded (%s)", o.Op, o.Class)
			}
		case o.Class == want:
			if isRecv {
				sendEOFPending = false
			}
		case o.Class == "eof" && isSend:
			sendEOFPending = true
		default:
			bad = true
			viol("right-code", "code:"+o.Class, []string{"op=" + string(o.Op), "when=" + started}, "%c failed with %s (%s) after the context was done; want %s", o.Op, o.Class, o.Err, want)
		}
	}
	_ = sendEOFPending
	if bad {
		return "violation"
	}
	return "ok:" + opsString(obs.Ops)
}

func c15Cases(thorough bool) []c15Case {
	maxLen := 3
	if thorough {
		maxLen = 4
	}
	words := c15Words(maxLen)
	var out []c15Case
	if thorough {
		// the cancellation instant combined with one more delay, for short programs
		for _, p := range AllProtos {
			for _, dl := range []bool{false, true} {
				for _, w := range c15Words(2) {
					for _, hs := range []int{0, 1} {
						out = append(out, c15Case{Proto: p, Kind: KBidi, ReqMode: memhttp.ReqEager, Client: w, Deadline: dl, HRecv: 0, HSend: hs, Bound: 2})
					}
				}
				for _, kind := range []Kind{KUnary, KClient, KServer} {
					out = append(out, c15Case{Proto: p, Kind: kind, ReqMode: memhttp.ReqEager, Client: "fixed", Deadline: dl, HRecv: 1, HSend: 1, Bound: 2})
				}
			}
		}
	}
	bound := 1
	for _, p := range AllProtos {
		for _, dl := range []bool{false, true} {
			for _, m := range []memhttp.ReqMode{memhttp.ReqEager, memhttp.ReqLazy} {
				for _, hr := range []int{0, 1} {
					for _, hs := range []int{0, 1} {
						for _, w := range words {
							out = append(out, c15Case{Proto: p, Kind: KBidi, ReqMode: m, Client: w, Deadline: dl, HRecv: hr, HSend: hs, Bound: bound})
							if m == memhttp.ReqEager && hs == 1 && (len(w) <= 2 || thorough) {
								out = append(out, c15Case{Proto: p, Kind: KBidi, ReqMode: m, Client: w, Deadline: dl, HRecv: hr, HSend: hs, Bound: bound, RR: true})
							}
							if m == memhttp.ReqEager && hr == 0 && (len(w) <= 2 || thorough) {
								out = append(out, c15Case{Proto: p, Kind: KBidi, ReqMode: m, Client: w, Deadline: dl, Cause: true, HRecv: hr, HSend: hs, Bound: bound})
							}
						}
						if m == memhttp.ReqEager || thorough {
							for _, kind := range []Kind{KUnary, KClient, KServer} {
								out = append(out, c15Case{Proto: p, Kind: kind, ReqMode: m, Client: "fixed", Deadline: dl, HRecv: hr, HSend: hs, Bound: bound})
							}
						}
					}
				}
			}
		}
	}
	for _, k := range append([]c15Case(nil), out...) {
		if k.ReqMode == memhttp.ReqEager {
			k.Ideal = true
			out = append(out, k)
		}
	}
	// contexts ended with a cause, over a transport whose Do reports the cause (net/http's HTTP/1.1 one)
	for _, k := range append([]c15Case(nil), out...) {
		if k.Cause && !k.Ideal && !k.RR {
			k.DoCause = true
			out = append(out, k)
		}
	}
	// ... and for the single-request kinds
	for _, p := range AllProtos {
		for _, dl := range []bool{false, true} {
			for _, kind := range []Kind{KUnary, KClient, KServer} {
				out = append(out, c15Case{Proto: p, Kind: kind, ReqMode: memhttp.ReqEager, Client: "fixed", Deadline: dl, Cause: true, DoCause: true, HRecv: 0, HSend: 0, Bound: 1})
			}
		}
	}
	// a bidi receiver that starts before anything was sent (nothing has made the request yet)
	for _, p := range AllProtos {
		for _, dl := range []bool{false, true} {
			for _, w := range []string{"R", "RP"} {
				out = append(out, c15Case{Proto: p, Kind: KBidi, ReqMode: memhttp.ReqEager, Client: w, Deadline: dl, HRecv: 0, HSend: 1, Bound: 1})
			}
		}
	}
	// a unary Connect error response that stops in the middle of its body
	for _, dl := range []bool{false, true} {
		for _, ideal := range []bool{false, true} {
			out = append(out, c15Case{Proto: PConnect, Kind: KUnary, ReqMode: memhttp.ReqEager, Client: "fixed", Deadline: dl, Ideal: ideal, ErrBodyCut: true, Bound: 2})
		}
	}
	// the context that ends is one a client interceptor substituted for the caller's
	for _, k := range append([]c15Case(nil), out...) {
		if k.ReqMode == memhttp.ReqEager && !k.Ideal && !k.RR && !k.Cause && k.Bound == 1 && k.HRecv == 0 &&
			(k.Kind != KBidi || len(k.Client) <= 2 || thorough) {
			k.ViaIcept = true
			out = append(out, k)
		}
	}
	// the transport takes the request in 3-byte pieces: the context can end inside a Send
	for _, k := range append([]c15Case(nil), out...) {
		if k.ReqMode == memhttp.ReqEager && k.Ideal && !k.RR && !k.Cause && k.Bound == 1 &&
			(k.Kind != KBidi || (strings.Contains(k.Client, "S") && (len(k.Client) <= 2 || thorough))) {
			k.Chunk = 3
			out = append(out, k)
		}
	}
	return out
}

func c15Explore(t *testing.T, c *ev.Collector, k c15Case) {
	schedRoundRobin = k.RR
	defer func() { schedRoundRobin = false }()
	c.Case(k.key(), true)
	outcomes := map[string]bool{}
	e := &bsched.Explorer{
		Delay: true,
		Bound: k.Bound,
		Run: func(prefix []int, expect []bsched.Point) *bsched.Exec {
			return runSched(t, prefix, expect, 3000, func(s *bsched.Sched) any { return c15Body(k, s) }, func(x *bsched.Exec) {
				c15Judge(c, k, x)
				c.NotExhaustive("a deadlocked call could not be torn down; the worker stopped after recording it")
				_ = c.Finish()
			})
		},
		Stop: c.Expired,
	}
	var sample *bsched.Exec
	e.OnExec = func(x *bsched.Exec) {
		o := c15Judge(c, k, x)
		outcomes[o] = true
		if sample == nil || len(x.TrimmedChoices()) > len(sample.TrimmedChoices()) {
			sample = x
		}
	}
	e.Explore()
	c.AddExtra("replay_deviations_recovered", int64(len(e.Recovered)))
	for _, d := range e.Divergences {
		c.HarnessError("replay divergence in %s: %s", k.key(), d)
	}
	c.AddStates(e.States)
	c.AddTransitions(e.Transitions)
	c.AddTraces(e.Executions)
	c.AddExtra("executions", e.Executions)
	c.AddExtra("distinct_outcomes_per_scenario_sum", int64(len(outcomes)))
	for o := range outcomes {
		if strings.HasPrefix(o, "ok:") {
			c.Outcome("ok")
		} else {
			c.Outcome(o)
		}
	}
	if sample != nil {
		c.Sample(map[string]any{"scenario": k.key(), "executions": e.Executions, "distinct_outcomes": len(outcomes), "one_schedule": traceOf(sample, 50)})
	}
}

// c15Sequential: a handler that returns a context error (bare or wrapped)
// without any client-side cancellation conveys the same classification.
func c15Sequential(t *testing.T, c *ev.Collector) {
	type variant struct {
		name string
		err  error
		want connect.Code
	}
	vars := []variant{
		{"canceled", context.Canceled, connect.CodeCanceled},
		{"deadline", context.DeadlineExceeded, connect.CodeDeadlineExceeded},
		{"wrapped-canceled", fmt.Errorf("op failed: %w", context.Canceled), connect.CodeCanceled},
		{"wrapped-deadline", fmt.Errorf("op failed: %w", context.DeadlineExceeded), connect.CodeDeadlineExceeded},
	}
	idx := 0
	for _, p := range AllProtos {
		for _, kind := range AllKinds {
			for _, v := range vars {
				for _, sendFirst := range []int{0, 1, 10, 11} {
					idx++
					if !ev.Mine(idx) {
						continue
					}
					// 10, 11: the same with a client read limit (40 bytes) below the size of the error,
					// where the error does not travel in an envelope (see the known finding of C09)
					readMax := 0
					if sendFirst >= 10 {
						sendFirst -= 10
						readMax = 40
						if !(p == PGRPC || (p == PConnect && kind == KUnary)) {
							continue
						}
					}
					if sendFirst == 1 && !kind.ServerStreams() {
						continue
					}
					key := fmt.Sprintf("seq/%s/%s/%s/sent%d", p, kind, v.name, sendFirst)
					if readMax > 0 {
						key += fmt.Sprintf("/readmax%d", readMax)
					}
					c.Case(key, true)
					Bubble(t, func() {
						h := NewHandler(kind, func(ctx context.Context, st HStream) error {
							for i := 0; i < sendFirst; i++ {
								_ = st.Send(&BV{Value: []byte{'h'}})
							}
							return v.err
						})
						tr := &memhttp.Transport{Handler: h, Proto: 2, SyncCloseReq: true}
						var copts []connect.ClientOption
						if readMax > 0 {
							copts = append(copts, connect.WithReadMaxBytes(readMax))
						}
						cl := NewClient(tr, Cfg{Proto: p, Comp: CompNone}, copts...)
						var res CallResult
						g := Guarded(func() { res = RunCall(context.Background(), cl, kind, [][]byte{{1}}, nil) }, tr)
						c.AddTransitions(3)
						c.AddStates(3)
						c.AddTraces(1)
						tags := []string{"proto=" + p.String(), "kind=" + kind.String(), "seq"}
						if g.Hung || g.Panicked {
							c.Violation("TestC15", "terminates", "hang-or-panic", tags, key, "%s: hung=%v panic=%v", key, g.Hung, g.Panic)
							BailIfStuck(c, g)
							return
						}
						var ce *connect.Error
						if res.Err == nil || !errors.As(res.Err, &ce) || ce.Code() != v.want {
							c.Violation("TestC15", "handler-ctx-error-class", "code:"+classifyErr(res.Err), tags, key, "%s: handler returned %v, client saw %v; want code %v", key, v.err, res.Err, v.want)
							c.Outcome("violation")
							return
						}
						c.Outcome("ok")
					})
				}
			}
		}
	}
}

func TestC15(t *testing.T) {
	c := ev.New("C15")
	defer func() { _ = c.Finish() }()
	c.SetRule("stateless model checking under the controlled scheduler: client programs over {Send,CloseRequest,Receive,CloseResponse} (bidi) and the Call* wrappers (other kinds) x {cancel(), deadline expiry on the fake clock, each also with a caller-supplied cause} x handler {receive i, send j, wait for ctx.Done, return ctx.Err} x protocols x request windows; the cancellation / expiry event is placed at every yield point (delay bound: see bounds), including while Send/Receive are blocked; plus the sequential family: handlers returning bare or wrapped context errors; a scenario is distinct by its full parameter tuple")
	c.Assume("memhttp models net/http's behaviour on context cancellation (Do and body reads fail with ctx.Err(), request body closed, server context cancelled)",
		"testing/synctest fake clock: context deadlines fire exactly when the ~clock event lets time advance")
	if ev.ReplayFile() != "" {
		var k c15Case
		if _, err := ev.LoadReplay(&k); err != nil {
			// sequential cases are replayed by re-running the family
			c15Sequential(t, c)
			c15PartialOversize(t, c)
			c15EndsBeforeUserCode(t, c)
			return
		}
		schedRoundRobin = k.RR
		x := runSched(t, k.Prefix, nil, 3000, func(s *bsched.Sched) any { return c15Body(k, s) })
		fmt.Println("replay:", c15Judge(c, k, x), schedLine(x))
		if o, ok := x.Obs.(*c15Obs); ok {
			for _, op := range o.Ops {
				fmt.Printf("  op %c: %s %s\n", op.Op, op.Class, op.Err)
			}
		}
		return
	}
	thorough := ev.Thorough()
	c.Bound("delay_bound", map[bool]string{false: "1", true: "1 for all scenarios, 2 for programs of length <= 2 and the Call* wrappers"}[thorough])
	c.Bound("max_client_program_length", map[bool]int{false: 3, true: 4}[thorough])
	c15Sequential(t, c)
	c15PartialOversize(t, c)
	c15EndsBeforeUserCode(t, c)
	cases := c15Cases(thorough)
	for i, k := range cases {
		if !ev.Mine(i) {
			continue
		}
		if c.Expired() {
			break
		}
		c15Explore(t, c, k)
	}
}

// c15PartialOversize: the context ends while Receive is blocked skipping a
// message larger than the client's read limit, of which only a part has
// arrived (the peer announced 100 bytes, sent 0 or 50 of them and went quiet).
// The blocked Receive, and a Receive called afterwards, report the context's
// error.
func c15PartialOversize(t *testing.T, c *ev.Collector) {
	idx := 0
	for _, p := range AllProtos {
		for _, kind := range []Kind{KServer, KBidi, KUnary, KClient} {
			for _, dl := range []bool{false, true} {
				// arrived 5 / 55: part of an over-limit message; -1: one complete, acceptable message and
				// then silence (the calls with a single response are then waiting for the end of the stream)
				for _, arrived := range []int{5, 55, -1} {
					if arrived == -1 && kind.ServerStreams() {
						continue
					}
					idx++
					if !ev.Mine(idx) {
						continue
					}
					key := fmt.Sprintf("partial-oversize/%s/%s/deadline=%v/arrived%d", p, kind, dl, arrived)
					c.Case(key, true)
					Bubble(t, func() {
						h := http.HandlerFunc(func(w http.ResponseWriter, r *http.Request) {
							w.Header().Set("Content-Type", contentType(p, kind, false))
							w.WriteHeader(200)
							var body []byte
							switch {
							case arrived == -1 && p == PConnect && kind == KUnary:
								body = codecMarshal(false, &BV{Value: []byte("ok")}) // the message itself, body not finished
							case arrived == -1:
								body = refwire.Envelope(0, codecMarshal(false, &BV{Value: []byte("ok")}))
							case p == PConnect && kind == KUnary:
								body = bytes.Repeat([]byte{'x'}, arrived+5) // the body is the message: more than the limit, and not finished
							default:
								body = refwire.Envelope(0, bytes.Repeat([]byte{'x'}, 100))[:arrived]
							}
							_, _ = w.Write(body)
							w.(http.Flusher).Flush()
							<-r.Context().Done()
						})
						tr := &memhttp.Transport{Handler: h, Proto: 2, SyncCloseReq: true, PromptCancel: true}
						cl := NewClient(tr, Cfg{Proto: p, Comp: CompNone}, connect.WithReadMaxBytes(6))
						ctx, cancel := context.WithCancel(context.Background())
						if dl {
							ctx, cancel = context.WithTimeout(context.Background(), time.Minute)
						}
						defer cancel()
						var recvErr, afterErr error
						done := make(chan struct{})
						go func() {
							defer close(done)
							switch kind {
							case KUnary:
								_, recvErr = cl.CallUnary(ctx, connect.NewRequest(&BV{Value: []byte{1}}))
								afterErr = recvErr
							case KClient:
								s := cl.CallClientStream(ctx)
								_ = s.Send(&BV{Value: []byte{1}})
								_, recvErr = s.CloseAndReceive()
								afterErr = recvErr
							case KServer:
								s, err := cl.CallServerStream(ctx, connect.NewRequest(&BV{Value: []byte{1}}))
								if err != nil {
									recvErr, afterErr = err, err
									return
								}
								s.Receive()
								recvErr = s.Err()
								s.Receive()
								afterErr = s.Err()
								_ = s.Close()
							default:
								s := cl.CallBidiStream(ctx)
								_ = s.Send(&BV{Value: []byte{1}})
								_, recvErr = s.Receive()
								_, afterErr = s.Receive()
								_ = s.CloseRequest()
								_ = s.CloseResponse()
							}
						}()
						synctest.Wait() // Receive is blocked inside the oversize message
						early := false
						select {
						case <-done:
							early = true
						default:
						}
						if dl {
							time.Sleep(2 * time.Minute)
						} else {
							cancel()
						}
						synctest.Wait()
						c.AddTransitions(4)
						c.AddStates(4)
						c.AddTraces(1)
						tags := []string{"proto=" + p.String(), "kind=" + kind.String(), "oversize-partly-arrived"}
						if arrived == -1 {
							tags[2] = "waiting-for-end-of-stream"
						}
						select {
						case <-done:
						default:
							c.Violation("TestC15", "terminates", "deadlock", tags, key, "%s: the context is done and the call is still blocked\n%s", key, trimStacks(bsched.AllStacks()))
							c.Outcome("deadlock")
							tr.AbortAll()
							synctest.Wait()
							select {
							case <-done:
							default:
								BailIfStuck(c, GuardResult{Stuck: true})
							}
							return
						}
						if early {
							c.HarnessError("%s: the call ended before the context did (%v)", key, recvErr)
							return
						}
						want := "err:canceled"
						if dl {
							want = "err:deadline_exceeded"
						}
						for i, e := range []error{recvErr, afterErr} {
							if cls := classifyErr(e); cls != want {
								c.Violation("TestC15", "right-code", "code:"+cls, append(tags, "op=R"), key, "%s: Receive #%d reported %s (%v); want %s", key, i+1, cls, e, want)
								c.Outcome("violation")
								return
							}
						}
						c.Outcome("ok")
					})
				}
			}
		}
	}
}

// slowI is a handler interceptor that takes a while (an auth lookup, a rate
// limiter) before it lets the call through.
type slowI struct{ d time.Duration }

func (s slowI) WrapUnary(next connect.UnaryFunc) connect.UnaryFunc {
	return func(ctx context.Context, r connect.AnyRequest) (connect.AnyResponse, error) {
		time.Sleep(s.d)
		return next(ctx, r)
	}
}
func (s slowI) WrapStreamingClient(next connect.StreamingClientFunc) connect.StreamingClientFunc {
	return next
}
func (s slowI) WrapStreamingHandler(next connect.StreamingHandlerFunc) connect.StreamingHandlerFunc {
	return func(ctx context.Context, c connect.StreamingHandlerConn) error {
		time.Sleep(s.d)
		return next(ctx, c)
	}
}

// c15EndsBeforeUserCode: handler side, unary calls, a peer without a deadline
// of its own (another implementation, a gateway that adds the timeout header).
// The call's context ends - the announced timeout passes, a deadline the
// server put on the request context passes, or the request context is
// cancelled - after the request has reached the handler but BEFORE user code is
// entered: while the request message is still being uploaded, or while a
// handler interceptor is busy.  User code that never looks at its context
// would answer normally; the call has ended "before the call" as far as user
// code is concerned, so the peer must be told canceled / deadline_exceeded,
// never success.
func c15EndsBeforeUserCode(t *testing.T, c *ev.Collector) {
	idx := 0
	for _, p := range AllProtos {
		for _, when := range []string{"during-upload", "in-interceptor"} {
			for _, how := range []string{"timeout-header", "server-deadline", "server-cancel"} {
				idx++
				if !ev.Mine(idx) {
					continue
				}
				key := fmt.Sprintf("ends-before-user-code/%s/unary/%s/%s", p, when, how)
				c.Case(key, true)
				Bubble(t, func() {
					entered := false
					var opts []connect.HandlerOption
					if when == "in-interceptor" {
						opts = append(opts, connect.WithInterceptors(slowI{200 * time.Millisecond}))
					}
					h := NewHandler(KUnary, func(ctx context.Context, st HStream) error {
						entered = true
						return st.Send(&BV{Value: []byte{9}}) // never looks at ctx
					}, opts...)
					ctx, cancel := context.WithCancel(context.Background())
					defer cancel()
					body := &endingReader{data: RawBody(p, KUnary, false, Payload(40, 0x33))}
					if when == "during-upload" {
						body.pause = 200 * time.Millisecond
					}
					want := "deadline_exceeded"
					switch how {
					case "server-deadline":
						var c2 context.CancelFunc
						ctx, c2 = context.WithTimeout(ctx, 50*time.Millisecond)
						defer c2()
					case "server-cancel":
						want = "canceled"
						go func() { time.Sleep(50 * time.Millisecond); cancel() }()
					}
					req := RawRequest(ctx, p, KUnary, false, body)
					if how == "timeout-header" {
						if p == PConnect {
							req.Header.Set("Connect-Timeout-Ms", "50")
						} else {
							req.Header.Set("Grpc-Timeout", "50m")
						}
					}
					rec := httptest.NewRecorder()
					g := GuardedFor(time.Hour, func() { h.ServeHTTP(rec, req) })
					c.AddTransitions(3)
					c.AddStates(3)
					c.AddTraces(1)
					tags := []string{"proto=" + p.String(), "kind=unary", "side=handler", "ends-before-user-code", when, how}
					if g.Hung || g.Panicked {
						c.Violation("TestC15", "terminates", "hang-or-panic", tags, key, "%s: hung=%v panic=%v", key, g.Hung, g.Panic)
						c.Outcome("violation")
						BailIfStuck(c, g)
						return
					}
					code := respCode(p, KUnary, rec)
					if code != want {
						c.Violation("TestC15", "no-success-after", "code="+code, tags, key, "%s: the call's context ended 150 ms before user code could be entered (user code entered: %v); the peer was answered %s (HTTP %d), want %s", key, entered, code, rec.Code, want)
						c.Outcome("violation")
						return
					}
					c.Outcome("ok")
				})
			}
		}
	}
}
