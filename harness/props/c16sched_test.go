package props

import (
	"context"
	"fmt"
	"strings"
	"testing"

	connect "github.com/bufbuild/connect-go"

	"verifharness/bsched"
	"verifharness/ev"
	"verifharness/memhttp"
)

// C16 under the controlled scheduler: two goroutines make the FIRST calls on a
// freshly built shared client (and handler) that carries interceptors; the
// interceptors' Wrap* methods are yield points, so a library that wraps
// lazily is interleaved with the other call while it is wrapping.  Every
// schedule within the delay bound of both default schedulers; each call must
// have been wrapped by every interceptor exactly once, in declaration order,
// on the client and on the handler.

type c16SchedCase struct {
	Proto  Proto `json:"proto"`
	Kind   Kind  `json:"kind"`
	RR     bool  `json:"rr,omitempty"`
	Bound  int   `json:"bound"`
	Prefix []int `json:"prefix,omitempty"`
}

func (k c16SchedCase) key() string {
	pol := "rtb"
	if k.RR {
		pol = "rr"
	}
	return fmt.Sprintf("first-calls/%s/%s/%s/d%d", k.Proto, k.Kind, pol, k.Bound)
}

type callKey struct{}

// schedI logs, per call (identified through the context on the client and the
// X-Call header on the handler), that it wrapped the call.
type schedI struct {
	id   int
	gate func(string)
	log  func(call string, ev string)
}

func (l *schedI) yield() {
	if l.gate != nil {
		l.gate(fmt.Sprintf("icpt%d.wrap", l.id))
	}
}

func (l *schedI) WrapUnary(next connect.UnaryFunc) connect.UnaryFunc {
	l.yield()
	return func(ctx context.Context, req connect.AnyRequest) (connect.AnyResponse, error) {
		side := "h"
		if req.Spec().IsClient {
			side = "c"
		}
		l.log(req.Header().Get("X-Call"), fmt.Sprintf("%s%d", side, l.id))
		return next(ctx, req)
	}
}

func (l *schedI) WrapStreamingClient(next connect.StreamingClientFunc) connect.StreamingClientFunc {
	l.yield()
	return func(ctx context.Context, spec connect.Spec) connect.StreamingClientConn {
		call, _ := ctx.Value(callKey{}).(string)
		l.log(call, fmt.Sprintf("c%d", l.id))
		return next(ctx, spec)
	}
}

func (l *schedI) WrapStreamingHandler(next connect.StreamingHandlerFunc) connect.StreamingHandlerFunc {
	l.yield()
	return func(ctx context.Context, conn connect.StreamingHandlerConn) error {
		l.log(conn.RequestHeader().Get("X-Call"), fmt.Sprintf("h%d", l.id))
		return next(ctx, conn)
	}
}

type c16SchedObs struct {
	Logs   map[string][]string
	Errs   []string
	Stacks string
}

func c16SchedBody(k c16SchedCase, s *bsched.Sched) any {
	obs := &c16SchedObs{Logs: map[string][]string{}}
	logf := func(call, ev string) { obs.Logs[call] = append(obs.Logs[call], ev) } // threads are serialised by the scheduler
	mk := func() []connect.Interceptor {
		return []connect.Interceptor{&schedI{id: 1, gate: s.Gate, log: logf}, &schedI{id: 2, gate: s.Gate, log: logf}}
	}
	h := NewHandler(k.Kind, func(ctx context.Context, st HStream) error {
		for {
			if _, err := st.Receive(); err != nil {
				break
			}
		}
		return st.Send(&BV{Value: []byte{'r'}})
	}, connect.WithInterceptors(mk()...))
	tr := &memhttp.Transport{Handler: h, Proto: 2, Gate: s.Gate}
	cl := NewClient(tr, Cfg{Proto: k.Proto, Comp: CompNone, Kind: k.Kind, HTTP: 2}, connect.WithInterceptors(mk()...))
	obs.Errs = make([]string, 2)
	for i := 0; i < 2; i++ {
		i := i
		s.Go(fmt.Sprintf("t%d", i), func() {
			call := fmt.Sprint(i)
			ctx := context.WithValue(context.Background(), callKey{}, call)
			res := RunCall(ctx, cl, k.Kind, [][]byte{{byte(i)}}, map[string][]string{"X-Call": {call}})
			if res.Err != nil {
				obs.Errs[i] = res.Err.Error()
			}
		})
	}
	s.Run()
	if s.Deadlock || s.Horizon {
		obs.Stacks = bsched.AllStacks()
	}
	tr.AbortAll()
	s.Release()
	return obs
}

func c16SchedJudge(c *ev.Collector, k c16SchedCase, x *bsched.Exec) string {
	obs := x.Obs.(*c16SchedObs)
	kk := k
	kk.Prefix = x.TrimmedChoices()
	tags := []string{"kind=" + k.Kind.String(), "proto=" + k.Proto.String(), "concurrent-first-calls"}
	viol := func(clause, outcome, format string, args ...any) {
		c.Violation("TestC16", clause, outcome, tags, kk, "%s [%s]: "+format+"\n  schedule: %v", append(append([]any{k.key(), schedLine(x)}, args...), traceOf(x, 300))...)
	}
	if x.Horizon {
		c.NotExhaustive("step horizon reached in " + k.key())
		return "horizon"
	}
	if x.Deadlock {
		viol("terminates", "deadlock", "blocked threads %v\n%s", x.Blocked, trimStacks(obs.Stacks))
		return "deadlock"
	}
	bad := false
	for i := 0; i < 2; i++ {
		call := fmt.Sprint(i)
		if obs.Errs[i] != "" {
			bad = true
			viol("call-succeeds", "error", "call %d failed: %s", i, obs.Errs[i])
			continue
		}
		var cs, hs []string
		for _, e := range obs.Logs[call] {
			if strings.HasPrefix(e, "c") {
				cs = append(cs, e)
			} else {
				hs = append(hs, e)
			}
		}
		if strings.Join(cs, " ") != "c1 c2" {
			bad = true
			viol("wraps-once", "client", "call %d was wrapped on the client by %v; want c1 c2 (each once, declaration order)", i, cs)
		}
		if strings.Join(hs, " ") != "h1 h2" {
			bad = true
			viol("wraps-once", "handler", "call %d was wrapped on the handler by %v; want h1 h2 (each once, declaration order)", i, hs)
		}
	}
	if bad {
		return "violation"
	}
	return "ok"
}

func c16Sched(t *testing.T, c *ev.Collector, thorough bool) {
	idx := 0
	bound := 1
	if thorough {
		bound = 2
	}
	for _, p := range AllProtos {
		for _, kind := range AllKinds {
			for _, rr := range []bool{false, true} {
				idx++
				if !ev.Mine(idx) || c.Expired() {
					continue
				}
				k := c16SchedCase{Proto: p, Kind: kind, RR: rr, Bound: bound}
				c16SchedExplore(t, c, k)
			}
		}
	}
}

func c16SchedExplore(t *testing.T, c *ev.Collector, k c16SchedCase) {
	schedRoundRobin = k.RR
	defer func() { schedRoundRobin = false }()
	c.Case(k.key(), true)
	e := &bsched.Explorer{
		Delay: true,
		Bound: k.Bound,
		Run: func(prefix []int, expect []bsched.Point) *bsched.Exec {
			return runSched(t, prefix, expect, 20000, func(s *bsched.Sched) any { return c16SchedBody(k, s) }, func(x *bsched.Exec) {
				c16SchedJudge(c, k, x)
				c.NotExhaustive("a deadlocked call could not be torn down; the worker stopped after recording it")
				_ = c.Finish()
			})
		},
		Stop: c.Expired,
	}
	e.OnExec = func(x *bsched.Exec) { c.Outcome(c16SchedJudge(c, k, x)) }
	e.Explore()
	c.AddExtra("replay_deviations_recovered", int64(len(e.Recovered)))
	for _, d := range e.Divergences {
		c.HarnessError("replay divergence in %s: %s", k.key(), d)
	}
	if e.Capped {
		c.NotExhaustive("exploration of " + k.key() + " stopped by the time budget")
	}
	c.AddStates(e.States)
	c.AddTransitions(e.Transitions)
	c.AddTraces(e.Executions)
	c.AddExtra("scheduled_executions", e.Executions)
}

func c16SchedReplay(t *testing.T, c *ev.Collector, k c16SchedCase) {
	schedRoundRobin = k.RR
	x := runSched(t, k.Prefix, nil, 20000, func(s *bsched.Sched) any { return c16SchedBody(k, s) })
	fmt.Println("replay:", c16SchedJudge(c, k, x), schedLine(x))
}
