#!/usr/bin/env python3
"""Fills detected_by.result in seeded/*/meta.json from seeded/RESULTS.md (written by tools/seeded_all.sh).
Only entries whose result is still "PENDING" (first-pass misses waiting for the sweep) are touched."""
import json, glob, re, os
rows = {}
for line in open('/verif/seeded/RESULTS.md'):
    m = re.match(r'\| (C\d\d-\d+) \| (C\d\d quick) \| (\S+) \| (.*) \|', line)
    if m:
        rows[m.group(1)] = (m.group(3), m.group(4).strip())
for f in sorted(glob.glob('/verif/seeded/C*-*/meta.json')):
    d = json.load(open(f))
    db = d.get('detected_by')
    if not isinstance(db, dict) or db.get('result') != 'PENDING':
        continue
    sid = os.path.basename(os.path.dirname(f))
    code, clauses = rows.get(sid, ('?', ''))
    if code == '1':
        db['result'] = 'exit 1 after strengthening (DESIGN 0.1); clauses: ' + clauses
    elif sid == 'C01-12':
        db['check'] = './check C13 quick'
        db['result'] = "exit 1: result-correct(wrong), same-as-solo(differs) in C13's after-corrupt scenarios; ./check C01 quick exits 0 (one call at a time cannot observe a decompressor that sits in the pool twice)"
    else:
        db['result'] = 'NOT DETECTED by ./check %s quick (exit %s); see DESIGN 0.1' % (sid.split('-')[0], code)
    json.dump(d, open(f, 'w'), indent=1)
    print(sid, db['result'][:80])
