package props

import (
	"context"
	"io"
	"net/http"
	"net/http/httptest"
	"time"
)

// RawBody is the conformant request body of (p, kind) carrying one message
// whose BytesValue payload is value.
func RawBody(p Proto, kind Kind, js bool, value []byte) []byte {
	payload := codecMarshal(js, &BV{Value: value})
	if p == PConnect && kind == KUnary {
		return payload
	}
	return envelope(0, payload)
}

// RawRequest is a conformant HTTP/2 POST for Handler.ServeHTTP reading body.
func RawRequest(ctx context.Context, p Proto, kind Kind, js bool, body io.Reader) *http.Request {
	req := httptest.NewRequest("POST", "http://mem.test"+Procedure, body).WithContext(ctx)
	req.ProtoMajor, req.ProtoMinor, req.Proto = 2, 0, "HTTP/2.0"
	req.Header.Set("Content-Type", contentType(p, kind, js))
	if p == PGRPC {
		req.Header.Set("Te", "trailers")
	}
	return req
}

// endingReader hands out data; when the last byte has been handed out it runs
// atEnd (e.g. a context's cancel function) before returning, so the context
// ends after the request was completely received but before the handler's
// read returns.  With pause set it sleeps (fake clock inside a bubble) before
// delivering the second half, so a deadline can expire during the upload.
type endingReader struct {
	data  []byte
	off   int
	atEnd func()
	pause time.Duration
}

func (r *endingReader) Read(p []byte) (int, error) {
	if r.off >= len(r.data) {
		return 0, io.EOF
	}
	end := len(r.data)
	if r.pause > 0 {
		half := (len(r.data) + 1) / 2
		if r.off < half {
			end = half
		} else if r.off == half {
			time.Sleep(r.pause)
		}
	}
	n := copy(p, r.data[r.off:end])
	r.off += n
	if r.off == len(r.data) && r.atEnd != nil {
		r.atEnd()
	}
	return n, nil
}
