package props

import (
	"fmt"
	"go/ast"
	"go/parser"
	"go/token"
	"net/http"
	"os"
	"path/filepath"
	"sort"
	"strconv"
	"strings"
	"testing"

	"verifharness/ev"
	"verifharness/memhttp"
	"verifharness/refwire"
)

// c03SourceThresholds — one input per shortcut visible in the code.
//
// The library treats bodies differently above some byte counts (how much of a
// refused message it is willing to read and throw away, which buffers it
// recycles).  Those counts are integer constants in its source.  This family
// reads them from the working tree (every integer constant expression of the
// root package between 64 KiB and 64 MiB), and for each such T delivers unary
// Connect bodies of exactly L+1+T−1, L+1+T and L+1+T+1 bytes to a receiver
// with read limit L = 64 (the L+1 bytes a limited reader takes to notice the
// excess, then exactly T more), in both directions, in one piece, in 64 KiB
// and 1 MiB pieces, and with end-of-file arriving alone or with the last bytes.
// Oracle as everywhere in C03: the observation equals the one-piece delivery.
func c03SourceThresholds(t *testing.T, c *ev.Collector) {
	ths := sourceThresholds("/repo", 64<<10, 64<<20)
	c.Bound("source_thresholds", fmt.Sprint(ths))
	c03StreamThresholds(t, c, ths)
	const limit = 64
	idx := 0
	for _, th := range ths {
		for _, delta := range []int{-1, 0, 1} {
			n := limit + 1 + th + delta
			body := synthUnary(n)
			if len(body) != n {
				c.HarnessError("threshold body: wanted %d bytes, built %d", n, len(body))
				return
			}
			for _, request := range []bool{false, true} {
				idx++
				if !ev.Mine(idx) {
					continue
				}
				w := wireBody{Name: fmt.Sprintf("threshold-%d%+d", th, delta), Proto: PConnect, Kind: KUnary, Status: 200,
					Header: http.Header{"Content-Type": {"application/proto"}}, Body: body, Request: request}
				Bubble(t, func() {
					base := deliverLimited(w, memhttp.Script{Cut: -1, End: "eof"}, false, limit)
					for _, stride := range []int{0, 65536, 1 << 20} {
						for _, wl := range []bool{false, true} {
							if stride == 0 && !wl {
								continue
							}
							sc := memhttp.Script{Stride: stride, Cut: -1, End: "eof", WithLast: wl}
							k := c03Case{Body: wireBody{Name: w.Name, Proto: w.Proto, Kind: w.Kind, Status: w.Status, Header: w.Header, Request: w.Request}, Script: sc, Limit: limit, SynthLen: n}
							c.Case(fmt.Sprintf("%s|limit%d|%d|%v", w.key(), limit, stride, wl), true)
							c03Check(c, k, base)
						}
					}
				})
			}
		}
	}
}

// c03StreamThresholds: the same byte counts behind a message a gRPC client
// refuses.  Response: a message within the limit, one above it, then one more
// envelope occupying exactly T-1, T, T+1 bytes; the server's status and
// metadata follow in the HTTP trailers, which net/http fills in when a body
// read returns io.EOF.  Whether the client reports its own error or the
// server's must not depend on how the end of the body is delivered.
func c03StreamThresholds(t *testing.T, c *ev.Collector, ths []int) {
	const limit = 4
	head := append(refwire.Envelope(0, codecMarshal(false, &BV{Value: []byte{1, 2}})),
		refwire.Envelope(0, codecMarshal(false, &BV{Value: []byte{1, 2, 3, 4, 5}}))...)
	idx := 1000
	for _, th := range ths {
		for _, delta := range []int{-1, 0, 1} {
			idx++
			if !ev.Mine(idx) {
				continue
			}
			n := th + delta
			w := wireBody{Name: fmt.Sprintf("refused-then-%d%+d", th, delta), Proto: PGRPC, Kind: KServer, Status: 200,
				Header:  http.Header{"Content-Type": {"application/grpc+proto"}},
				Trailer: http.Header{"Grpc-Status": {"8"}, "Grpc-Message": {"try again later"}, "X-Trail": {"tv"}},
				Body:    head}
			Bubble(t, func() {
				k0 := c03Case{Body: w, Limit: limit, SynthLen: n}
				base := deliverLimited(k0.body(), memhttp.Script{Cut: -1, End: "eof"}, false, limit)
				for _, stride := range []int{0, 65536, 1 << 20} {
					for _, wl := range []bool{false, true} {
						if stride == 0 && !wl {
							continue
						}
						k := k0
						k.Script = memhttp.Script{Stride: stride, Cut: -1, End: "eof", WithLast: wl}
						c.Case(fmt.Sprintf("%s|limit%d|%d|%v", w.key(), limit, stride, wl), true)
						c03Check(c, k, base)
					}
				}
			})
		}
	}
}

// sourceThresholds evaluates the integer constant expressions (literals
// combined with * + - << and named constants made of those) in the non-test
// Go files of dir and returns the distinct values in [lo, hi].
func sourceThresholds(dir string, lo, hi int64) []int {
	names, _ := filepath.Glob(filepath.Join(dir, "*.go"))
	sort.Strings(names)
	fset := token.NewFileSet()
	var files []*ast.File
	for _, n := range names {
		if strings.HasSuffix(n, "_test.go") {
			continue
		}
		src, err := os.ReadFile(n)
		if err != nil {
			continue
		}
		f, err := parser.ParseFile(fset, n, src, 0)
		if err != nil {
			continue
		}
		files = append(files, f)
	}
	consts := map[string]int64{}
	var eval func(e ast.Expr) (int64, bool)
	eval = func(e ast.Expr) (int64, bool) {
		switch x := e.(type) {
		case *ast.BasicLit:
			if x.Kind != token.INT {
				return 0, false
			}
			v, err := strconv.ParseInt(strings.ReplaceAll(x.Value, "_", ""), 0, 64)
			return v, err == nil
		case *ast.ParenExpr:
			return eval(x.X)
		case *ast.Ident:
			v, ok := consts[x.Name]
			return v, ok
		case *ast.BinaryExpr:
			a, ok1 := eval(x.X)
			b, ok2 := eval(x.Y)
			if !ok1 || !ok2 {
				return 0, false
			}
			switch x.Op {
			case token.MUL:
				return a * b, true
			case token.ADD:
				return a + b, true
			case token.SUB:
				return a - b, true
			case token.SHL:
				if b < 0 || b > 40 {
					return 0, false
				}
				return a << uint(b), true
			}
		}
		return 0, false
	}
	// named constants first (two rounds: a constant may use one declared later)
	for round := 0; round < 2; round++ {
		for _, f := range files {
			for _, d := range f.Decls {
				g, ok := d.(*ast.GenDecl)
				if !ok || g.Tok != token.CONST {
					continue
				}
				for _, s := range g.Specs {
					vs := s.(*ast.ValueSpec)
					for i, name := range vs.Names {
						if i < len(vs.Values) {
							if v, ok := eval(vs.Values[i]); ok {
								consts[name.Name] = v
							}
						}
					}
				}
			}
		}
	}
	seen := map[int64]bool{}
	for _, f := range files {
		ast.Inspect(f, func(n ast.Node) bool {
			if e, ok := n.(ast.Expr); ok {
				if v, ok := eval(e); ok && v >= lo && v <= hi {
					seen[v] = true
				}
			}
			return true
		})
	}
	var out []int
	for v := range seen {
		out = append(out, int(v))
	}
	sort.Ints(out)
	return out
}
