#!/bin/bash
# Like tools/seeded_all.sh, but every change is checked against scratch copies of /repo and /verif in a private
# mount namespace (tools/ns_try.sh), P at a time; /repo is never touched.  Writes seeded/RESULTS.md.
set -u
cd /verif
P=${P:-3}
R=$(mktemp -d /tmp/seedres.XXXXXX)
one() {
  id=$1; prop=${id%%-*}
  res=$(timeout 2400 ${VERIF_SRC:-/verif}/tools/ns_try.sh /verif/seeded/$id/patch.diff $prop quick 2>&1); code=$?
  clauses=$(echo "$res" | grep -E "^  clause=" | sed 's/^  clause=\([^ ]*\) outcome=\([^ ]*\).*/\1(\2)/' | sort | uniq -c | sort -rn | head -3 | awk '{print $2}' | tr '\n' ' ')
  if echo "$res" | grep -q PATCH-DOES-NOT-APPLY; then code="patch does not apply"; fi
  echo "| $id | $prop quick | $code | $clauses |" > $2/$id
  echo "$id exit=$code $clauses"
}
export -f one
ls -d seeded/C*-*/ | xargs -n1 basename | sort -V | xargs -P $P -I{} bash -c "one {} $R"
out=seeded/RESULTS.md
{
echo "# Seeded changes vs. checks"
echo
echo "Produced by tools/seeded_all_ns.sh: each patch is applied to a scratch copy of /repo, \`./check <property> quick\` is run against it (tools/ns_try.sh), the copy is removed."
echo
echo "| change | check | exit | first violated clauses |"
echo "|---|---|---|---|"
for f in $(ls $R | sort -V); do cat $R/$f; done
echo
echo "Unchanged tree: every quick check exits 0 (see evidence/)."
} > $out
rm -rf $R
