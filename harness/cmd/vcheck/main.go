// vcheck is the check driver: ./check <ID> <quick|thorough> | ./check --replay <file>.
//
// It regenerates the instrumentation overlay from /repo's working tree,
// builds the property test binary against it, runs the explorer sharded over
// worker processes, matches violations against known_findings.txt, writes
// evidence/<ID>.json and prints KNOWN-FINDING / VIOLATION lines.
// Exit 0: property held on everything explored (or only listed findings);
// exit 1: unlisted violation; exit 2: harness error (a bug of the machinery).
package main

import (
	"bufio"
	"bytes"
	"crypto/sha256"
	"encoding/hex"
	"encoding/json"
	"fmt"
	"os"
	"os/exec"
	"path/filepath"
	"regexp"
	"runtime"
	"sort"
	"strconv"
	"strings"
	"sync"
	"time"

	"verifharness/ev"
)

const (
	verifDir = "/verif"
	repoDir  = "/repo"
	goBin    = "/opt/veriftools/go1.26.8/bin/go"
)

type propSpec struct {
	Test            string // -test.run regexp
	Level           string // evidence level
	Pkg             string // "props" (default) | "inpkg" | "plugin"
	Procs           int    // GOMAXPROCS per worker (0 = 1)
	Shards          int    // 0 = nproc
	Profile         string // instrumentation profile ("" = duplex)
	ThoroughProfile string // profile of the thorough tier ("" = same)
}

var registry = map[string]propSpec{
	"C01": {Test: "^TestC01$", Level: "model_checking"},
	"C02": {Test: "^TestC02$", Level: "model_checking"},
	"C03": {Test: "^TestC03$", Level: "fault_enumeration"},
	"C04": {Test: "^TestC04$", Level: "fault_enumeration"},
	"C05": {Test: "^TestC05$", Level: "model_checking"},
	"C06": {Test: "^TestC06$", Level: "model_checking"},
	"C07": {Test: "^TestC07$", Level: "model_checking"},
	"C08": {Test: "^TestC08$", Level: "model_checking", Profile: "pools"},
	"C09": {Test: "^TestC09$", Level: "model_checking"},
	"C10": {Test: "^TestC10$", Level: "model_checking"},
	"C11": {Test: "^TestC11$", Level: "model_checking"},
	"C12": {Test: "^TestC12$", Level: "model_checking"},
	"C13": {Test: "^TestC13$", Level: "model_checking", Profile: "pools"},
	"C14": {Test: "^TestC14$", Level: "model_checking"},
	"C15": {Test: "^TestC15$", Level: "model_checking"},
	"C16": {Test: "^TestC16$", Level: "model_checking"},
	"C17": {Test: "^TestC17$", Level: "model_checking", Shards: 8},
	"C18": {Test: "^TestC18$", Level: "model_checking"},
	"C19": {Test: "^TestC19$", Level: "model_checking"},
}

func goEnv() []string {
	env := os.Environ()
	env = append(env,
		"GOFLAGS=-mod=mod", "GOPROXY=off", "GOSUMDB=off", "GOTOOLCHAIN=local",
		"PATH=/opt/veriftools/go1.26.8/bin:"+os.Getenv("PATH"),
	)
	return env
}

func fatalHarness(format string, args ...any) {
	fmt.Printf("HARNESS-ERROR "+format+"\n", args...)
	os.Exit(2)
}

func run(dir string, env []string, name string, args ...string) (string, error) {
	cmd := exec.Command(name, args...)
	cmd.Dir = dir
	cmd.Env = env
	var buf bytes.Buffer
	cmd.Stdout = &buf
	cmd.Stderr = &buf
	err := cmd.Run()
	return buf.String(), err
}

// buildBinary instruments /repo's working tree and builds the test binary.
func buildBinary(profile string, race bool) string {
	outDir := filepath.Join(verifDir, "out")
	_ = os.MkdirAll(filepath.Join(outDir, "bin"), 0o755)
	ovDir := filepath.Join(outDir, "overlay-"+profile)
	instr := filepath.Join(verifDir, "bin", "instr")
	if _, err := os.Stat(instr); err != nil {
		if out, err := run(filepath.Join(verifDir, "tools", "instr"), goEnv(), goBin, "build", "-o", instr, "."); err != nil {
			fatalHarness("build instr: %v\n%s", err, out)
		}
	}
	if out, err := run(verifDir, goEnv(), instr, "-repo", repoDir, "-out", ovDir, "-profile", profile, "-shim", filepath.Join(verifDir, "tools", "instr", "shim")); err != nil {
		// never let a tree the instrumenter cannot gate go unchecked: fall back to the shim-only overlay
		// (sequential explorers are unaffected, scheduled ones see membrane yield points only)
		fmt.Printf("WARNING instrumenter failed with profile %s (%v): falling back to profile none\n%s\n", profile, err, out)
		if out2, err2 := run(verifDir, goEnv(), instr, "-repo", repoDir, "-out", ovDir, "-profile", "none", "-shim", filepath.Join(verifDir, "tools", "instr", "shim")); err2 != nil {
			fatalHarness("instrument /repo: %v\n%s", err2, out2)
		}
	}
	bin := filepath.Join(outDir, "bin", "props-"+profile+".test")
	args := []string{"test", "-c", "-vet=off", "-tags", "verif", "-overlay", filepath.Join(ovDir, "overlay.json"), "-o", bin}
	if race {
		bin = filepath.Join(outDir, "bin", "props-"+profile+"-race.test")
		args = []string{"test", "-c", "-race", "-vet=off", "-tags", "verif", "-overlay", filepath.Join(ovDir, "overlay.json"), "-o", bin}
	}
	args = append(args, "./props")
	if out, err := run(filepath.Join(verifDir, "harness"), goEnv(), goBin, args...); err != nil {
		fatalHarness("build property binary (does /repo still compile?): %v\n%s", err, out)
	}
	return bin
}

type known struct {
	Property string
	Clause   string
	Outcome  string
	Tags     []string
	What     string
	hit      bool
}

func loadKnown() []*known {
	f, err := os.Open(filepath.Join(verifDir, "known_findings.txt"))
	if err != nil {
		return nil
	}
	defer f.Close()
	var out []*known
	sc := bufio.NewScanner(f)
	for sc.Scan() {
		line := strings.TrimSpace(sc.Text())
		if !strings.HasPrefix(line, "known:") {
			continue
		}
		rest := strings.TrimSpace(strings.TrimPrefix(line, "known:"))
		what := ""
		if i := strings.Index(rest, "::"); i >= 0 {
			what = strings.TrimSpace(rest[i+2:])
			rest = rest[:i]
		}
		k := &known{What: what}
		for _, f := range strings.Fields(rest) {
			kv := strings.SplitN(f, "=", 2)
			if len(kv) != 2 {
				continue
			}
			switch kv[0] {
			case "property":
				k.Property = kv[1]
			case "clause":
				k.Clause = kv[1]
			case "outcome":
				k.Outcome = kv[1]
			case "tags":
				if kv[1] != "" {
					k.Tags = strings.Split(kv[1], ",")
				}
			}
		}
		out = append(out, k)
	}
	return out
}

func (k *known) matches(v *ev.Violation) bool {
	if k.Property != v.Property || k.Clause != v.Clause || k.Outcome != v.Outcome {
		return false
	}
	have := map[string]bool{}
	for _, t := range v.Tags {
		have[t] = true
	}
	for _, t := range k.Tags {
		if !have[t] {
			return false
		}
	}
	return true
}

type shardRun struct {
	idx    int
	result *ev.Result
	log    string
	err    error
}

func runShard(bin, id string, spec propSpec, tier string, idx, n int, replay string) shardRun {
	outFile := filepath.Join(verifDir, "out", "work", id, fmt.Sprintf("shard-%d.json", idx))
	_ = os.MkdirAll(filepath.Dir(outFile), 0o755)
	_ = os.Remove(outFile)
	procs := spec.Procs
	if procs == 0 {
		procs = 1
	}
	env := append(goEnv(),
		"VERIF_TIER="+tier,
		"VERIF_SHARD="+fmt.Sprintf("%d/%d", idx, n),
		"VERIF_OUT="+outFile,
		"VERIF_REPLAY="+replay,
		"VERIF_DIR="+verifDir,
		"GOMAXPROCS="+strconv.Itoa(procs),
		"GOMEMLIMIT=6GiB",
	)
	if os.Getenv("VERIF_SEED") == "" {
		env = append(env, "VERIF_SEED=0")
	}
	log, err := run(verifDir, env, bin, "-test.run", spec.Test, "-test.timeout", "0", "-test.count", "1")
	sr := shardRun{idx: idx, log: log, err: err}
	data, rerr := os.ReadFile(outFile)
	if rerr == nil {
		var r ev.Result
		if jerr := json.Unmarshal(data, &r); jerr == nil {
			sr.result = &r
		}
	}
	return sr
}

func main() {
	if len(os.Args) < 3 {
		fmt.Println("usage: check <ID> <quick|thorough> | check --replay <file>")
		os.Exit(2)
	}
	start := time.Now()
	replay := ""
	var id, tier string
	if os.Args[1] == "--replay" {
		replay, _ = filepath.Abs(os.Args[2])
		data, err := os.ReadFile(replay)
		if err != nil {
			fatalHarness("read replay: %v", err)
		}
		var v ev.Violation
		if err := json.Unmarshal(data, &v); err != nil {
			fatalHarness("parse replay: %v", err)
		}
		id, tier = v.Property, "quick"
		if t := os.Getenv("VERIF_TIER"); t != "" {
			tier = t
		}
	} else {
		id, tier = os.Args[1], os.Args[2]
	}
	spec, ok := registry[id]
	if !ok {
		fatalHarness("unknown property %q", id)
	}
	if tier != "quick" && tier != "thorough" {
		fatalHarness("unknown tier %q", tier)
	}
	seed, _ := strconv.ParseInt(os.Getenv("VERIF_SEED"), 10, 64)

	profile := "duplex"
	if spec.Profile != "" {
		profile = spec.Profile
	}
	if tier == "thorough" && spec.ThoroughProfile != "" {
		profile = spec.ThoroughProfile
	}
	bin := buildBinary(profile, false)

	n := spec.Shards
	if n == 0 {
		n = runtime.NumCPU()
	}
	if replay != "" {
		n = 1
	}
	results := make([]shardRun, n)
	var wg sync.WaitGroup
	for i := 0; i < n; i++ {
		wg.Add(1)
		go func(i int) {
			defer wg.Done()
			sr := runShard(bin, id, spec, tier, i, n, replay)
			if sr.err != nil && sr.result == nil {
				// crashed without a result: retry once to tell a deterministic crash from an accident
				sr2 := runShard(bin, id, spec, tier, i, n, replay)
				if sr2.err == nil || sr2.result != nil {
					sr = sr2
				} else {
					sr.log += "\n--- retry ---\n" + sr2.log
				}
			}
			results[i] = sr
		}(i)
	}
	wg.Wait()

	// merge
	merged := ev.Result{Property: id, Outcomes: map[string]int64{}, Bounds: map[string]any{}, Extra: map[string]int64{}, Exhaustive: true, Notes: map[string]string{}}
	keys := map[uint64]struct{}{}
	var harnessErrs []string
	var crashViolations []ev.Violation
	logDir := filepath.Join(verifDir, "out", "logs")
	_ = os.MkdirAll(logDir, 0o755)
	for _, sr := range results {
		logPath := filepath.Join(logDir, fmt.Sprintf("%s-%s-shard%d.log", id, tier, sr.idx))
		_ = os.WriteFile(logPath, []byte(sr.log), 0o644)
		if sr.result == nil {
			if strings.Contains(sr.log, "github.com/bufbuild/connect-go.") || strings.Contains(sr.log, "github.com/bufbuild/connect-go/") {
				crashViolations = append(crashViolations, ev.Violation{Property: id, Clause: "worker-crash", Outcome: "crash", Detail: "worker crashed twice with library frames on the stack; log " + logPath, Test: spec.Test})
			} else {
				harnessErrs = append(harnessErrs, fmt.Sprintf("shard %d produced no result (%v); log %s", sr.idx, sr.err, logPath))
			}
			merged.Exhaustive = false
			continue
		}
		if sr.err != nil {
			harnessErrs = append(harnessErrs, fmt.Sprintf("shard %d: test binary failed (%v); log %s", sr.idx, sr.err, logPath))
		}
		r := sr.result
		merged.Evaluations += r.Evaluations
		merged.States += r.States
		merged.Transitions += r.Transitions
		merged.Traces += r.Traces
		merged.DistinctCount += r.DistinctCount
		merged.ViolationsN += r.ViolationsN
		for _, k := range r.DistinctKeys {
			keys[k] = struct{}{}
		}
		for k, v := range r.Outcomes {
			merged.Outcomes[k] += v
		}
		for k, v := range r.Extra {
			merged.Extra[k] += v
		}
		for k, v := range r.Bounds {
			merged.Bounds[k] = v
		}
		for k, v := range r.Notes {
			merged.Notes[k] = v
		}
		if len(merged.Samples) < 8 {
			merged.Samples = append(merged.Samples, r.Samples...)
		}
		if !r.Exhaustive {
			merged.Exhaustive = false
		}
		if r.Rule != "" {
			merged.Rule = r.Rule
		}
		if len(r.Assumptions) > 0 {
			merged.Assumptions = r.Assumptions
		}
		merged.Violations = append(merged.Violations, r.Violations...)
		for _, he := range r.HarnessErrors {
			harnessErrs = append(harnessErrs, fmt.Sprintf("shard %d: %s", sr.idx, he))
		}
	}
	merged.Violations = append(merged.Violations, crashViolations...)
	merged.ViolationsN += int64(len(crashViolations))

	// supplementary free-running -race pass (C13; fewer iterations in the quick tier)
	if id == "C13" && replay == "" {
		raceBin := buildBinary(profile, true)
		iter := "10"
		if tier == "thorough" {
			iter = "40"
		}
		env := append(goEnv(), "VERIF_RACE_PASS=1", "VERIF_RACE_ITER="+iter, "GOMAXPROCS=8", "GORACE=halt_on_error=0")
		log, err := run(verifDir, env, raceBin, "-test.run", "^TestC13Race$", "-test.timeout", "0", "-test.count", "1", "-test.v")
		logPath := filepath.Join(logDir, "C13-race-pass.log")
		_ = os.WriteFile(logPath, []byte(log), 0o644)
		races := strings.Count(log, "WARNING: DATA RACE")
		merged.Extra["race_pass_reports"] = int64(races)
		merged.Notes["race_pass"] = "free-running -race pass of the scenario bodies (real sync.Pool, no scheduler): supplementary; log " + logPath
		if m := regexp.MustCompile(`race pass: (\d+) free-running calls`).FindStringSubmatch(log); m != nil {
			n, _ := strconv.ParseInt(m[1], 10, 64)
			merged.Extra["race_pass_calls"] = n
		}
		if races > 0 && strings.Contains(log, "github.com/bufbuild/connect-go.") {
			merged.Violations = append(merged.Violations, ev.Violation{Property: id, Clause: "no-data-race", Outcome: "race", Tags: []string{"race-pass"}, Detail: "the race detector reported " + strconv.Itoa(races) + " data race(s) in the free-running pass; log " + logPath + "\n" + firstLines(log[strings.Index(log, "WARNING: DATA RACE"):], 40), Test: "^TestC13Race$"})
			merged.ViolationsN++
		} else if err != nil {
			harnessErrs = append(harnessErrs, fmt.Sprintf("race pass failed without a race report (%v); log %s", err, logPath))
		}
	}

	// classify violations
	kn := loadKnown()
	var unlisted []ev.Violation
	knownHits := map[string]int{}
	for i := range merged.Violations {
		v := &merged.Violations[i]
		matched := false
		for _, k := range kn {
			if k.matches(v) {
				k.hit = true
				matched = true
				knownHits[k.What]++
				break
			}
		}
		if !matched {
			unlisted = append(unlisted, *v)
		}
	}
	sort.Slice(unlisted, func(i, j int) bool {
		if len(unlisted[i].Tags) != len(unlisted[j].Tags) {
			return len(unlisted[i].Tags) < len(unlisted[j].Tags)
		}
		return unlisted[i].Detail < unlisted[j].Detail
	})

	// replay files
	replayDir := filepath.Join(verifDir, "out", "replays")
	_ = os.MkdirAll(replayDir, 0o755)
	var lines []string
	seenSig := map[string]bool{}
	for _, v := range unlisted {
		sig := v.Clause + "|" + v.Outcome + "|" + strings.Join(v.Tags, ",")
		if seenSig[sig] {
			continue
		}
		seenSig[sig] = true
		data, _ := json.MarshalIndent(v, "", " ")
		sum := sha256.Sum256(data)
		path := filepath.Join(replayDir, fmt.Sprintf("%s-%s.json", id, hex.EncodeToString(sum[:6])))
		_ = os.WriteFile(path, data, 0o644)
		lines = append(lines, fmt.Sprintf("VIOLATION property=%s replay=%s", id, path))
		fmt.Printf("  clause=%s outcome=%s tags=%s\n  %s\n", v.Clause, v.Outcome, strings.Join(v.Tags, ","), firstLines(v.Detail, 12))
	}
	for _, k := range kn {
		if k.hit {
			fmt.Printf("KNOWN-FINDING: property=%s %s\n", k.Property, k.What)
		}
	}

	if replay == "" {
		writeEvidence(id, tier, seed, spec, &merged, len(keys), unlisted, knownHits, harnessErrs, time.Since(start).Seconds())
	}
	fmt.Printf("%s %s: evaluations=%d distinct=%d states=%d transitions=%d outcomes=%v exhaustive=%v wall=%.1fs\n",
		id, tier, merged.Evaluations, int64(len(keys))+merged.DistinctCount, merged.States, merged.Transitions, merged.Outcomes, merged.Exhaustive, time.Since(start).Seconds())
	for _, l := range lines {
		fmt.Println(l)
	}
	if len(lines) > 0 {
		os.Exit(1)
	}
	if len(harnessErrs) > 0 {
		for _, he := range harnessErrs {
			fmt.Println("HARNESS-ERROR", he)
		}
		os.Exit(2)
	}
}

func firstLines(s string, n int) string {
	parts := strings.Split(s, "\n")
	if len(parts) > n {
		parts = append(parts[:n], "...")
	}
	return strings.Join(parts, "\n  ")
}

func writeEvidence(id, tier string, seed int64, spec propSpec, m *ev.Result, distinctKeys int, unlisted []ev.Violation, knownHits map[string]int, harnessErrs []string, wall float64) {
	distinct := int64(distinctKeys) + m.DistinctCount
	samples := m.Samples
	if len(samples) == 0 {
		samples = []any{"(no sample recorded)"}
	}
	if len(samples) > 8 {
		samples = samples[:8]
	}
	cov := map[string]any{
		"evaluations":                   m.Evaluations,
		"distinct_nontrivial":           distinct,
		"rule":                          m.Rule,
		"samples":                       samples,
		"states":                        m.States,
		"transitions":                   m.Transitions,
		"traces_validated_against_impl": m.Traces,
		"exhaustive":                    m.Exhaustive && len(harnessErrs) == 0,
		"bounds":                        m.Bounds,
		"distinct_outcomes":             len(m.Outcomes),
		"outcomes":                      m.Outcomes,
		"known_findings_hit":            knownHits,
		"extra":                         m.Extra,
		"notes":                         m.Notes,
	}
	if len(harnessErrs) > 0 {
		cov["harness_errors"] = harnessErrs
	}
	evd := map[string]any{
		"property_id": id,
		"tier":        tier,
		"seed":        seed,
		"level":       spec.Level,
		"coverage":    cov,
		"assumptions": m.Assumptions,
		"wall_s":      wall,
		"violations":  len(unlisted),
	}
	data, _ := json.MarshalIndent(evd, "", " ")
	_ = os.MkdirAll(filepath.Join(verifDir, "evidence"), 0o755)
	if err := os.WriteFile(filepath.Join(verifDir, "evidence", id+".json"), append(data, '\n'), 0o644); err != nil {
		fatalHarness("write evidence: %v", err)
	}
}
