package props

import (
	"context"
	"fmt"
	"os"
	"runtime"
	"sync"
	"testing"

	connect "github.com/bufbuild/connect-go"

	"verifharness/memhttp"
)

// TestC13Race is the free-running pass of the C13 scenario bodies: no
// scheduler (gates only yield), real sync.Pool, real goroutines, built with
// -race.  A cooperative scheduler's hand-offs are happens-before edges that
// blind the race detector, so unsynchronised accesses are looked for here.
// Supplementary evidence: a reported race is a true race, silence proves
// nothing.
func TestC13Race(t *testing.T) {
	if os.Getenv("VERIF_RACE_PASS") == "" {
		t.Skip("only run by ./check C13 thorough")
	}
	connect.VerifUseRealPool(true)
	defer connect.VerifUseRealPool(false)
	SetGate(func(string) { runtime.Gosched() })
	defer SetGate(nil)
	iterations := 40
	calls := 0
	for _, k := range c13Scenarios(true) {
		if k.Sub != 0 {
			continue
		}
		rec := &c13Recorder{}
		var recMu sync.Mutex
		_ = recMu
		h := c13Handler(k.Cfg.Kind, &c13Recorder{}, k.Cfg.HandlerOptions()...)
		_ = rec
		tr := &memhttp.Transport{Handler: h, Proto: 2, ReqMode: k.Cfg.ReqMode, SyncCloseReq: true}
		cl := NewClient(tr, k.Cfg)
		if k.OneBidi {
			continue // covered by the per-call scenarios below; a single stream's send/receive pair is exercised in TestC13
		}
		var wg sync.WaitGroup
		for g := range k.Calls {
			wg.Add(1)
			go func(g int) {
				defer wg.Done()
				for i := 0; i < iterations; i++ {
					r := &c13Recorder{}
					res := c13RunOne(context.Background(), cl, k.Cfg.Kind, g, k.Calls[g], r)
					want, failed := c13Expected(k.Cfg.Kind, g, k.Calls[g])
					if failed != (res.Err != nil) || (!failed && !equalMsgs(res.Msgs, want)) {
						t.Errorf("%s call %d iteration %d: got %s err=%v", k.key(), g, i, shortMsgs(res.Msgs), res.Err)
						return
					}
				}
			}(g)
		}
		wg.Wait()
		calls += iterations * len(k.Calls)
	}
	fmt.Printf("race pass: %d free-running calls on shared clients/handlers\n", calls)
}
