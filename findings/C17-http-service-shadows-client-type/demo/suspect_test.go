package verifdemo

import (
	"testing"

	"google.golang.org/protobuf/types/descriptorpb"
)

const module = "example.com/gen"

func oneFile(svcs ...service) *descriptorpb.FileDescriptorProto {
	return fileProto("acme/gw/v1/gw.proto", "acme.gw.v1", module+"/acme/gw/v1;gwv1", nil,
		[]string{"Req", "Res"}, svcs...)
}

func unary(name string) rpc { return rpc{name: name, in: ".acme.gw.v1.Req", out: ".acme.gw.v1.Res"} }

func generateAndCompile(t *testing.T, fd *descriptorpb.FileDescriptorProto) map[string]string {
	t.Helper()
	connectGo, protocGenGo := plugins(t)
	req := request([]string{fd.GetName()}, fd)
	pb := runPlugin(t, protocGenGo, req)
	out := runPlugin(t, connectGo, req)
	compile(t, module, pb, out)
	return out
}

// service Http { rpc Get(Req) returns (Res); }: the client struct is called
// httpClient, like the first parameter of the client constructor that builds it.
func TestVerifSuspectServiceNamedHttp(t *testing.T) {
	svc := service{name: "Http", rpcs: []rpc{unary("Get")}}
	out := generateAndCompile(t, oneFile(svc))
	for name, src := range out {
		checkRouting(t, name, src, "acme.gw.v1", svc)
	}
}

// The same through the Go name: service http (lower case) is Http in Go.
func TestVerifSuspectServiceNamedLowerCaseHttp(t *testing.T) {
	generateAndCompile(t, oneFile(service{name: "http", rpcs: []rpc{unary("Get")}}))
}

// service Order and service NewOrder in one file: NewOrderClient is both the
// constructor of the first and the client interface of the second.
func TestVerifSuspectServicesFooAndNewFoo(t *testing.T) {
	generateAndCompile(t, oneFile(
		service{name: "Order", rpcs: []rpc{unary("Get")}},
		service{name: "NewOrder", rpcs: []rpc{unary("Submit")}},
	))
}

func TestControlServiceWithoutMethods(t *testing.T) {
	generateAndCompile(t, oneFile(service{name: "Empty"}))
}

func TestControlOrdinaryService(t *testing.T) {
	svc := service{name: "Gateway", rpcs: []rpc{unary("Get")}}
	out := generateAndCompile(t, oneFile(svc))
	for name, src := range out {
		checkRouting(t, name, src, "acme.gw.v1", svc)
	}
}

// The messages' import path ends in gatewayClient, which is therefore the
// file-local name of that package and the name of the client struct.
func TestVerifSuspectImportPathEndsLikeClientType(t *testing.T) {
	fd := fileProto("acme/gw/v1/gw.proto", "acme.gw.v1", module+"/acme/gatewayClient;gwv1", nil,
		[]string{"Req", "Res"}, service{name: "Gateway", rpcs: []rpc{unary("Get")}})
	generateAndCompile(t, fd)
}
