#!/bin/bash
# Re-runs every stored seeded change against its property's quick check (patch applied to /repo, reverted
# afterwards) and writes seeded/RESULTS.md.  /repo must be clean.
set -u
cd /verif
if [ -n "$(git -C /repo status --porcelain)" ]; then echo "/repo is not clean"; exit 2; fi
out=seeded/RESULTS.md
{
echo "# Seeded changes vs. checks"
echo
echo "Produced by tools/seeded_all.sh: each patch is applied to /repo, \`./check <property> quick\` is run, the patch is reverted."
echo
echo "| change | check | exit | first violated clauses |"
echo "|---|---|---|---|"
} > $out
for d in seeded/C*-*/; do
  id=$(basename $d); prop=${id%%-*}
  if ! git -C /repo apply --check /verif/$d/patch.diff 2>/dev/null; then echo "| $id | $prop quick | patch does not apply | |" >> $out; continue; fi
  git -C /repo apply /verif/$d/patch.diff
  res=$(timeout 1800 ./check $prop quick 2>&1); code=$?
  git -C /repo checkout -- . ; git -C /repo clean -fdq
  clauses=$(echo "$res" | grep -E "^  clause=" | sed 's/^  clause=\([^ ]*\) outcome=\([^ ]*\).*/\1(\2)/' | sort | uniq -c | sort -rn | head -3 | awk '{print $2}' | tr '\n' ' ')
  echo "| $id | $prop quick | $code | $clauses |" >> $out
  echo "$id exit=$code $clauses"
done
echo >> $out
echo "Unchanged tree: every quick check exits 0 (see evidence/)." >> $out
