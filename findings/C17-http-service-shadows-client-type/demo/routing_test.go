package verifdemo

import (
	"go/ast"
	"go/parser"
	"go/token"
	"strconv"
	"strings"
	"testing"
)

func unquote(e ast.Expr) string {
	lit, ok := e.(*ast.BasicLit)
	if !ok || lit.Kind != token.STRING {
		return "<not a string literal>"
	}
	s, err := strconv.Unquote(lit.Value)
	if err != nil {
		return "<bad literal>"
	}
	return s
}

// selectorName returns the name selected by x.Name or x.Name[...].
func selectorName(e ast.Expr) string {
	switch e := e.(type) {
	case *ast.SelectorExpr:
		return e.Sel.Name
	case *ast.IndexExpr:
		return selectorName(e.X)
	case *ast.IndexListExpr:
		return selectorName(e.X)
	}
	return ""
}

func lowerFirst(s string) string { return strings.ToLower(s[:1]) + s[1:] }

// checkRouting parses a generated *.connect.go file and checks, for a service
// whose Go name equals its Protobuf name, that handler registrations, Spec
// strings, client URLs, client calls and the mount prefix are canonical.
func checkRouting(t *testing.T, label, src, pkg string, svc service) {
	t.Helper()
	fset := token.NewFileSet()
	file, err := parser.ParseFile(fset, label, src, parser.ParseComments)
	if err != nil {
		t.Fatalf("%s: generated code is not valid Go: %v", label, err)
	}
	full := svc.name
	if pkg != "" {
		full = pkg + "." + svc.name
	}
	funcs := map[string]*ast.FuncDecl{}
	for _, decl := range file.Decls {
		if fn, ok := decl.(*ast.FuncDecl); ok {
			name := fn.Name.Name
			if fn.Recv != nil {
				if star, ok := fn.Recv.List[0].Type.(*ast.StarExpr); ok {
					name = star.X.(*ast.Ident).Name + "." + name
				} else if id, ok := fn.Recv.List[0].Type.(*ast.Ident); ok {
					name = id.Name + "." + name
				}
			}
			funcs[name] = fn
		}
	}

	// Handler constructor.
	ctor := funcs["New"+svc.name+"Handler"]
	if ctor == nil {
		t.Fatalf("%s: no New%sHandler", label, svc.name)
	}
	type registration struct{ pattern, constructor, procedure, impl string }
	var got []registration
	var prefix string
	ast.Inspect(ctor.Body, func(n ast.Node) bool {
		switch n := n.(type) {
		case *ast.CallExpr:
			if sel, ok := n.Fun.(*ast.SelectorExpr); ok && sel.Sel.Name == "Handle" && len(n.Args) == 2 {
				inner, ok := n.Args[1].(*ast.CallExpr)
				if !ok || len(inner.Args) < 2 {
					t.Errorf("%s: unexpected mux.Handle shape", label)
					return true
				}
				got = append(got, registration{
					pattern:     unquote(n.Args[0]),
					constructor: selectorName(inner.Fun),
					procedure:   unquote(inner.Args[0]),
					impl:        selectorName(inner.Args[1]),
				})
			}
		case *ast.ReturnStmt:
			if len(n.Results) == 2 {
				prefix = unquote(n.Results[0])
			}
		}
		return true
	})
	var want []registration
	for _, r := range svc.rpcs {
		p := "/" + full + "/" + r.name
		want = append(want, registration{p, r.constructor(), p, r.name})
	}
	if len(got) != len(want) {
		t.Errorf("%s: New%sHandler registers %v, want %v", label, svc.name, got, want)
	} else {
		for i := range want {
			if got[i] != want[i] {
				t.Errorf("%s: New%sHandler registration %d: got %v, want %v", label, svc.name, i, got[i], want[i])
			}
		}
	}
	if prefix != "/"+full+"/" {
		t.Errorf("%s: New%sHandler returns mount prefix %q, want %q", label, svc.name, prefix, "/"+full+"/")
	}

	// Client constructor: field: connect.NewClient[..](httpClient, baseURL + "<path>", opts...).
	cctor := funcs["New"+svc.name+"Client"]
	if cctor == nil {
		t.Fatalf("%s: no New%sClient", label, svc.name)
	}
	urls := map[string]string{}
	ast.Inspect(cctor.Body, func(n ast.Node) bool {
		kv, ok := n.(*ast.KeyValueExpr)
		if !ok {
			return true
		}
		call, ok := kv.Value.(*ast.CallExpr)
		if !ok || selectorName(call.Fun) != "NewClient" || len(call.Args) != 3 {
			return true
		}
		if bin, ok := call.Args[1].(*ast.BinaryExpr); ok {
			urls[kv.Key.(*ast.Ident).Name] = unquote(bin.Y)
		}
		return true
	})
	for _, r := range svc.rpcs {
		field := lowerFirst(r.name)
		if urls[field] != "/"+full+"/"+r.name {
			t.Errorf("%s: client for %s calls %q, want %q", label, r.name, urls[field], "/"+full+"/"+r.name)
		}
		method := funcs[lowerFirst(svc.name)+"Client."+r.name]
		if method == nil {
			t.Errorf("%s: client has no method %s", label, r.name)
			continue
		}
		var call string
		ast.Inspect(method.Body, func(n ast.Node) bool {
			if c, ok := n.(*ast.CallExpr); ok && call == "" {
				call = selectorName(c.Fun)
			}
			return true
		})
		if call != r.call() {
			t.Errorf("%s: client method %s uses %s, want %s", label, r.name, call, r.call())
		}
	}
}
