module verifdemo

go 1.18

require google.golang.org/protobuf v1.28.0
