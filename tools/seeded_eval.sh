#!/bin/bash
# tools/seeded_eval.sh <ID> <change-dir> : confirm a seeded change (applies, suite passes, demo fails with / passes
# without) in a scratch worktree, then run the property's checks against it in /repo and revert.
set -u
ID=$1; DIR=$2; TIERS=${3:-"quick thorough"}
export GOFLAGS=-mod=mod GOPROXY=off GOSUMDB=off GOTOOLCHAIN=local
WT=/tmp/ev/$ID-$(basename $DIR)
rm -rf $WT; mkdir -p /tmp/ev
git -C /repo worktree add -q --detach $WT HEAD || exit 3
res() { echo "RESULT id=$ID change=$(basename $DIR) $*"; }
cleanup() { git -C /repo worktree remove --force $WT >/dev/null 2>&1; }
if ! git -C $WT apply --check $DIR/patch.diff 2>/dev/null; then res "patch=does-not-apply"; cleanup; exit 0; fi
DEMO=$DIR/verif_demo_test.go
demo() { (cd $WT && timeout 300 go test -vet=off -count=1 -timeout 120s -run TestVerifDemo . >/tmp/ev/demo.log 2>&1); }
base="n/a"; mut="n/a"
if [ -f $DEMO ]; then
  cp $DEMO $WT/verif_demo_test.go
  if demo; then base=pass; else base=FAIL; fi
fi
git -C $WT apply $DIR/patch.diff
if (cd $WT && go build ./... >/tmp/ev/build.log 2>&1); then build=ok; else build=FAIL; fi
rm -f $WT/verif_demo_test.go
if (cd $WT && timeout 900 go test -vet=off -count=1 -timeout 25m ./... >/tmp/ev/suite.log 2>&1); then suite=pass; else suite=FAIL; fi
if [ -f $DEMO ]; then
  cp $DEMO $WT/verif_demo_test.go
  if demo; then mut=pass; else mut=fail; fi
fi
cleanup
detected=no; by=""
if [ "$build" = ok ]; then
  git -C /repo apply $DIR/patch.diff
  for tier in $TIERS; do
    out=$(cd /verif && timeout 3000 ./check $ID $tier 2>&1); code=$?
    if [ $code -eq 1 ] && echo "$out" | grep -q "^VIOLATION property=$ID"; then detected=yes; by=$tier; echo "$out" | grep -E "^  clause" | sort | uniq -c | sort -rn | head -3; break; fi
    if [ $code -ne 0 ]; then echo "$out" | tail -5; fi
  done
  git -C /repo checkout -- . ; git -C /repo clean -fdq
fi
res "build=$build suite=$suite demo_unchanged=$base demo_changed=$mut detected=$detected by=$by"
