package props

import (
	"bytes"
	"context"
	"errors"
	"fmt"
	"strconv"
	"strings"
	"testing"

	connect "github.com/bufbuild/connect-go"

	"verifharness/ev"
	"verifharness/memhttp"
)

// C18 — the small wire codecs are total, lossless and header-safe.
//
// Engine: complete enumeration of the domains themselves.

var c18Names = []string{"canceled", "unknown", "invalid_argument", "deadline_exceeded", "not_found", "already_exists",
	"permission_denied", "resource_exhausted", "failed_precondition", "aborted", "out_of_range", "unimplemented",
	"internal", "unavailable", "data_loss", "unauthenticated"}

func c18Safe(c *ev.Collector, what string, f func()) {
	defer func() {
		if r := recover(); r != nil {
			c.Violation("TestC18", "no-panic", "panic", []string{what}, what, "%s panicked: %v", what, r)
		}
	}()
	f()
}

func c18CodeRoundTrip(c *ev.Collector, v uint32) bool {
	code := connect.Code(v)
	text, err := code.MarshalText()
	if err != nil {
		c.Violation("TestC18", "code-text-roundtrip", "marshal-error", []string{"code"}, v, "Code(%d).MarshalText: %v", v, err)
		return false
	}
	var back connect.Code
	if err := back.UnmarshalText(text); err != nil || back != code {
		c.Violation("TestC18", "code-text-roundtrip", "differs", []string{"code"}, v, "Code(%d) -> %q -> %d (%v)", v, text, back, err)
		return false
	}
	if st := connect.VerifConnectCodeToHTTP(code); st < 400 || st > 599 {
		c.Violation("TestC18", "code-http-status", fmt.Sprintf("status=%d", st), []string{"code"}, v, "Code(%d) maps to HTTP %d", v, st)
		return false
	}
	return true
}

// c18Names: the 16 defined codes carry exactly the protocol's names.
func c18NameTable(c *ev.Collector) {
	for i, name := range c18Names {
		code := connect.Code(i + 1)
		text, _ := code.MarshalText()
		if string(text) != name {
			c.Violation("TestC18", "code-names", "marshal", []string{"code"}, name, "Code(%d) marshals to %q, the protocol's name is %q", i+1, text, name)
		}
		var back connect.Code
		if err := back.UnmarshalText([]byte(name)); err != nil || back != code {
			c.Violation("TestC18", "code-names", "unmarshal", []string{"code"}, name, "the protocol's name %q unmarshals to %d (%v), want %d", name, back, err, i+1)
		}
	}
	c.AddEvaluations(16)
	c.AddDistinct(16)
}

func c18Codes(c *ev.Collector, thorough bool) {
	shard, shards := ev.Shard()
	var n int64
	if thorough {
		lo := uint64(shard) * (1 << 32) / uint64(shards)
		hi := uint64(shard+1) * (1 << 32) / uint64(shards)
		for v := lo; v < hi; v++ {
			c18CodeRoundTrip(c, uint32(v))
			n++
			if v&0xFFFFFF == 0 && c.Expired() {
				break
			}
		}
		c.Bound("codes", "all 2^32 values")
	} else {
		const span = 1 << 20
		for v := uint64(shard); v < span; v += uint64(shards) {
			c18CodeRoundTrip(c, uint32(v))
			c18CodeRoundTrip(c, uint32((1<<32)-1-v))
			n += 2
		}
		if shard == 0 {
			for p := 0; p < 32; p++ {
				for d := -2; d <= 2; d++ {
					c18CodeRoundTrip(c, uint32(int64(1)<<p+int64(d)))
					n++
				}
			}
		}
		c.Bound("codes", "all values < 2^20, all values > 2^32-2^20, +-2 around every power of two")
	}
	c.AddEvaluations(n)
	c.AddDistinct(n)
	c.AddStates(n)
	c.AddTransitions(2 * n)
	c.AddExtra("codes", n)
}

// c18Reject: strings that are neither a defined name nor code_<number> must
// be rejected by UnmarshalText.
func c18Reject(c *ev.Collector) {
	shard, shards := ev.Shard()
	isName := map[string]bool{}
	for _, n := range c18Names {
		isName[n] = true
	}
	var n int64
	try := func(s string) {
		if isName[s] {
			return
		}
		if strings.HasPrefix(s, "code_") {
			rest := s[len("code_"):]
			if _, err := strconv.ParseUint(rest, 10, 64); err == nil {
				return // of the form code_<number>: value semantics not judged here
			}
			if _, err := strconv.ParseInt(rest, 10, 64); err == nil {
				return // signed forms: not judged (DESIGN C18 NA)
			}
		}
		n++
		var code connect.Code = 77
		var err error
		c18Safe(c, "UnmarshalText", func() { err = code.UnmarshalText([]byte(s)) })
		if err == nil {
			c.Violation("TestC18", "code-text-rejects", "accepted", []string{"code-text"}, s, "UnmarshalText(%q) accepted the text as code %d", s, code)
		}
	}
	alphabet := "abcdefghijklmnopqrstuvwxyz_0123456789 -C"
	idx := 0
	for i := 0; i < len(alphabet); i++ {
		idx++
		if idx%shards != shard {
			continue
		}
		try(alphabet[i : i+1])
		for j := 0; j < len(alphabet); j++ {
			try(string([]byte{alphabet[i], alphabet[j]}))
			for k := 0; k < len(alphabet); k++ {
				try(string([]byte{alphabet[i], alphabet[j], alphabet[k]}))
			}
		}
	}
	if shard == 0 {
		try("")
		for _, name := range c18Names {
			for i := 0; i <= len(name); i++ {
				if i < len(name) {
					try(name[:i] + name[i+1:])
					try(name[:i] + strings.ToUpper(name[i:i+1]) + name[i+1:])
				}
				try(name[:i] + "x" + name[i:])
				try(name[:i] + " " + name[i:])
			}
			try(name + "\n")
			try(strings.ToUpper(name))
			try("code_" + name)
			try(name + "_1")
		}
		for _, s := range []string{"code_", "code_x", "code_1x", "code_ 1", "code_1 ", "code_0x10", "code_1.0", "code_1e3", "code__1", "Code_99", "CODE_99", "code-99", "code99", "code_९", "code_\x00", "ok", "OK"} {
			try(s)
		}
	}
	c.AddEvaluations(n)
	c.AddDistinct(n)
	c.AddStates(n)
	c.AddTransitions(n)
	c.AddExtra("reject_strings", n)
}

func c18Percent(c *ev.Collector) {
	shard, shards := ev.Shard()
	var n int64
	check := func(b []byte) {
		n++
		s := string(b)
		var enc, dec string
		c18Safe(c, "percent-encode", func() { enc = connect.VerifPercentEncode(s) })
		for i := 0; i < len(enc); i++ {
			if ch := enc[i]; ch < 0x20 || ch > 0x7e {
				c.Violation("TestC18", "percent-printable", "unsafe-byte", []string{"percent"}, fmt.Sprintf("%x", b), "encoding of %x contains byte %#x: %q", b, ch, enc)
				break
			}
		}
		c18Safe(c, "percent-decode", func() { dec = connect.VerifPercentDecode(enc) })
		if dec != s {
			c.Violation("TestC18", "percent-roundtrip", "differs", []string{"percent"}, fmt.Sprintf("%x", b), "%x -> %q -> %x", b, enc, dec)
		}
	}
	if shard == 0 {
		check(nil)
		// structured long ones
		for _, s := range []string{strings.Repeat("%", 300), strings.Repeat("é", 200), strings.Repeat("a", 600) + "%", "%" + strings.Repeat("b", 600), strings.Repeat("\x00\xff", 300), strings.Repeat("%25", 100), "100%", "%4", "%41"} {
			check([]byte(s))
		}
	}
	// length sweep: every length up to 1100 with the one byte that needs escaping first, last, everywhere, nowhere
	for l := 4; l <= 1100; l++ {
		if l%shards != shard {
			continue
		}
		plain := bytes.Repeat([]byte{'a'}, l)
		check(plain)
		for _, esc := range []byte{'%', '\n', 0xe9} {
			first, last, all := append([]byte{}, plain...), append([]byte{}, plain...), bytes.Repeat([]byte{esc}, l)
			first[0], last[l-1] = esc, esc
			check(first)
			check(last)
			check(all)
		}
	}
	for a := 0; a < 256; a++ {
		if a%shards != shard {
			continue
		}
		check([]byte{byte(a)})
		for b := 0; b < 256; b++ {
			check([]byte{byte(a), byte(b)})
			for d := 0; d < 256; d++ {
				check([]byte{byte(a), byte(b), byte(d)})
			}
		}
	}
	// decoder totality
	sym := []byte{'%', '0', 'A', 'f', 'G', ' ', 0xFF, 'a'}
	var m int64
	var rec func(prefix []byte, depth int)
	rec = func(prefix []byte, depth int) {
		m++
		c18Safe(c, "percent-decode", func() { _ = connect.VerifPercentDecode(string(prefix)) })
		if depth == 6 {
			return
		}
		for _, s := range sym {
			rec(append(prefix, s), depth+1)
		}
	}
	for i, s := range sym {
		if i%shards == shard%len(sym) && shard < len(sym) {
			rec([]byte{s}, 1)
		}
	}
	c.AddEvaluations(n + m)
	c.AddDistinct(n + m)
	c.AddStates(n + m)
	c.AddTransitions(2*n + m)
	c.AddExtra("percent_roundtrip_strings", n)
	c.AddExtra("percent_decoder_inputs", m)
}

// c18Binary: binary header values round-trip every byte string of length
// <= 3 (padded and unpadded spelling), and the decoder is total.
func c18Binary(c *ev.Collector) {
	binHelpers(c, "TestC18", 3)
	shard, shards := ev.Shard()
	sym := []byte{'A', 'Q', '=', '-', '_', '+', '/', ' ', 0xFF}
	var m int64
	var rec func(prefix []byte, depth int)
	rec = func(prefix []byte, depth int) {
		m++
		c18Safe(c, "binary-decode", func() { _, _ = connect.DecodeBinaryHeader(string(prefix)) })
		if depth == 6 {
			return
		}
		for _, s := range sym {
			rec(append(prefix, s), depth+1)
		}
	}
	for i, s := range sym {
		if i == shard%shards && shard < len(sym) {
			rec([]byte{s}, 1)
		}
	}
	c.AddEvaluations(m)
	c.AddDistinct(m)
	c.AddStates(m)
	c.AddTransitions(m)
	c.AddExtra("binary_decoder_inputs", m)
}

// c18HandlerStatus: every code a real unary Connect handler returns reaches
// the wire with a 4xx/5xx status.
// c18CodeOverTheWire: the decimal form of a code in Grpc-Status (and Connect's
// code_N) carries every 32-bit code from a handler to a client: codes around
// the 16 defined ones, around 2^31 (where a signed conversion turns negative)
// and at the top of the range.
func c18CodeOverTheWire(t *testing.T, c *ev.Collector) {
	codes := []uint32{1, 2, 16, 17, 99, 1<<31 - 1, 1 << 31, 1<<31 + 1, 3000000000, 1<<32 - 2, 1<<32 - 1}
	idx := 0
	for _, p := range AllProtos {
		for _, kind := range []Kind{KUnary, KServer} {
			for _, v := range codes {
				idx++
				if !ev.Mine(idx) {
					continue
				}
				key := fmt.Sprintf("code-over-the-wire/%s/%s/%d", p, kind, v)
				c.Case(key, true)
				Bubble(t, func() {
					h := NewHandler(kind, func(ctx context.Context, s HStream) error {
						return connect.NewError(connect.Code(v), errors.New("x"))
					})
					tr := &memhttp.Transport{Handler: h, Proto: 2, SyncCloseReq: true}
					cl := NewClient(tr, Cfg{Proto: p, Comp: CompNone})
					var res CallResult
					g := Guarded(func() { res = RunCall(context.Background(), cl, kind, [][]byte{{1}}, nil) }, tr)
					c.AddTransitions(2)
					c.AddStates(2)
					c.AddTraces(1)
					if g.Hung || g.Panicked {
						c.Violation("TestC18", "code-text-roundtrip", "hang-or-panic", []string{"wire"}, key, "%s: hung=%v panic=%v", key, g.Hung, g.Panic)
						BailIfStuck(c, g)
						return
					}
					if got := connect.CodeOf(res.Err); uint32(got) != v {
						c.Violation("TestC18", "code-text-roundtrip", "differs", []string{"wire", "proto=" + p.String()}, key, "%s: the handler returned code %d, the client received %v (%v)", key, v, got, res.Err)
					}
				})
			}
		}
	}
}

func c18HandlerStatus(t *testing.T, c *ev.Collector) {
	codes := []uint32{0, 1, 2, 3, 4, 5, 6, 7, 8, 9, 10, 11, 12, 13, 14, 15, 16, 17, 99, 1<<32 - 1}
	for i, v := range codes {
		if !ev.Mine(i) {
			continue
		}
		Bubble(t, func() {
			h := NewHandler(KUnary, func(ctx context.Context, s HStream) error {
				return connect.NewError(connect.Code(v), errors.New("x"))
			})
			tr := &memhttp.Transport{Handler: h, Proto: 2, SyncCloseReq: true}
			cl := NewClient(tr, Cfg{Proto: PConnect, Comp: CompNone})
			g := Guarded(func() { _ = RunCall(context.Background(), cl, KUnary, [][]byte{{1}}, nil) }, tr)
			c.Case(fmt.Sprintf("handler-code-%d", v), true)
			c.AddTransitions(2)
			c.AddStates(2)
			c.AddTraces(1)
			ex := tr.Last()
			if g.Hung || g.Panicked || ex == nil {
				c.Violation("TestC18", "code-http-status", "hang-or-panic", []string{"handler"}, v, "code %d: hung=%v panic=%v", v, g.Hung, g.Panic)
				BailIfStuck(c, g)
				return
			}
			if ex.Status < 400 || ex.Status > 599 {
				c.Violation("TestC18", "code-http-status", fmt.Sprintf("status=%d", ex.Status), []string{"handler"}, v, "a handler error with code %d was written with HTTP status %d", v, ex.Status)
			}
		})
	}
}

func TestC18(t *testing.T) {
	c := ev.New("C18")
	defer func() { _ = c.Finish() }()
	c.SetRule("complete domain enumeration: Code text round trip and HTTP status class for every enumerated 32-bit value (see bounds; thorough = all 2^32); UnmarshalText must reject every string of length <= 3 over a 40-symbol alphabet and every single-character edit of each defined name that is neither a name nor code_<number>; gRPC percent-encoding round trip and printable-ASCII output for every byte string of length <= 3 (16.8 M) plus long structured ones; decoder totality on every string of length <= 6 over {%,0,A,f,G,space,0xFF,a}; Encode/DecodeBinaryHeader round trip for every byte string of length <= 3 in the padded and the unpadded spelling, header-safe output, and DecodeBinaryHeader totality on every string of length <= 6 over {A,Q,=,-,_,+,/,space,0xFF}; every code 0..17, 99, 2^32-1 returned by a real unary Connect handler must reach the wire as 4xx/5xx; each enumerated value is one distinct case")
	c.Assume("unexported percent codec and code->status table reached through overlay-only exported wrappers of identifiers the repository's own tests pin")
	if ev.ReplayFile() != "" {
		c18Reject(c)
		c18Percent(c)
		c18Binary(c)
		c18Codes(c, false)
		return
	}
	thorough := ev.Thorough()
	c18HandlerStatus(t, c)
	c18CodeOverTheWire(t, c)
	if shard, _ := ev.Shard(); shard == 0 {
		c18NameTable(c)
	}
	c18Reject(c)
	c18Percent(c)
	c18Binary(c)
	c18Codes(c, thorough)
	c.Sample(map[string]any{"code": 4294967295, "text": "code_4294967295"})
	c.Sample(map[string]any{"percent_input_hex": "25e298", "encoded": connect.VerifPercentEncode("%\xe2\x98")})
}
